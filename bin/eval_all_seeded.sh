#!/bin/sh
# bin/eval_all_seeded.sh [name-prefix...] : re-evaluates every stored seeded change (and refactoring) against the quick checks of THIS
# checkout of /verif: for each seeded/<name>/patch.diff a scratch worktree of /repo's HEAD is made under /tmp, the patch applied, the
# change confirmed again (tests pass, demo fails with it and passes without it) and all 20 quick checks run against that worktree
# (bin/eval_tree: /repo itself is never touched). Results are written to seeded/<name>/meta.json of this checkout. 3 at a time (EVAL_PAR).
# EVAL_CHECKS=targeted: for the breaking changes only the check of the property each one targets is run (refactorings: always all 20).
HERE="$(cd "$(dirname "$0")/.." && pwd)"
cd "$HERE"
# one evaluation at a time (two of them write the same meta.json files and saturate the machine); to stop one: kill its xargs (pgrep -a xargs)
exec 9>/tmp/eval_all_seeded.lock
flock -n 9 || { echo "another bin/eval_all_seeded.sh is running"; exit 2; }
[ $# -eq 0 ] && set -- ""
for pre in "$@"; do ls -d seeded/${pre}*/ 2>/dev/null; done | sort -u | while read d; do
  n=$(basename "$d"); [ -f "$d/patch.diff" ] && echo "$n"
done | xargs -P ${EVAL_PAR:-3} -I{} sh -c '
  n={}; wt=/tmp/ev_$n
  git -C /repo worktree add --detach $wt HEAD -f >/dev/null 2>&1 || exit 0
  if git -C $wt apply '"$HERE"'/seeded/$n/patch.diff 2>/dev/null; then
    mkdir -p $wt/MUTATION; cp '"$HERE"'/seeded/$n/demo.py '"$HERE"'/seeded/$n/notes.md '"$HERE"'/seeded/$n/equiv_check.py $wt/MUTATION/ 2>/dev/null
    pid=$(python3 -c "import json;m=json.load(open(\"'"$HERE"'/seeded/$n/meta.json\"));print(m.get(\"property\",\"-\"))")
    if [ "$pid" = "-" ]; then '"$HERE"'/bin/refactor_eval.py $wt $n > /tmp/ev_$n.log 2>&1; else '"$HERE"'/bin/seeded_eval.py $wt $n $pid --tree $( [ "$EVAL_CHECKS" = "targeted" ] && echo "--checks=$pid" ) > /tmp/ev_$n.log 2>&1; fi
    echo "done $n: $(grep -E "caught by|alarms" /tmp/ev_$n.log | cut -c1-150)"
  else
    echo "PATCH DOES NOT APPLY: $n"
  fi
  git -C /repo worktree remove --force $wt >/dev/null 2>&1
'
