#!/bin/sh
# bin/soak.sh <tier> <seed...> : run every check with each seed on the current tree (8 in parallel); report anything but exit 0
HERE="$(cd "$(dirname "$0")/.." && pwd)"
TIER="$1"; shift
OUT=$(mktemp -d)
for seed in "$@"; do for id in C01 C02 C03 C04 C05 C06 C07 C08 C09 C10 C11 C12 C13 C14 C15 C16 C17 C18 C19 C20; do echo "$id $seed"; done; done | \
  xargs -P 8 -L 1 sh -c "\"$HERE/bin/check\" \$0 --tier $TIER --seed \$1 > $OUT/\$0-\$1.out 2>&1; echo \$? > $OUT/\$0-\$1.rc"
bad=0
for f in $OUT/*.rc; do rc=$(cat $f); if [ "$rc" != "0" ]; then bad=1; b=$(basename $f .rc); echo "NON-ZERO $b rc=$rc"; grep -E "VIOLATION|fails on the implementation|correspondence diff|rror" $OUT/$b.out | head -4; fi; done
[ $bad = 0 ] && echo "soak clean: tier=$TIER seeds=$*"
rm -rf $OUT
