#!/usr/bin/env python3
"""bin/seeded_eval.py <worktree> <seeded-name> <property-id> [--checks=C01,C02,...] [--tree]
(--tree: run the checks against the worktree itself through bin/eval_tree, so that /repo is not touched and several
evaluations can run side by side)
Confirms a seeded change produced by a sub-agent (tests still pass with it; its demo fails with it and passes without it),
stores it under /verif/seeded/<name>/ and runs the quick checks against it (applied to /repo, then reverted)."""
import json
import os
import shutil
import subprocess
import sys

wt, name, pid = sys.argv[1], sys.argv[2], sys.argv[3]
checks = [f"C{i:02d}" for i in range(1, 21)]
use_tree = False
for a in sys.argv[4:]:
    if a.startswith("--checks"):
        checks = a.split("=")[1].split(",")
    if a == "--tree":
        use_tree = True
env = dict(os.environ, PYTHONPATH=f"{wt}/src")
mut = f"{wt}/MUTATION"
HERE = os.path.dirname(os.path.dirname(os.path.abspath(__file__)))
out = f"{HERE}/seeded/{name}"
os.makedirs(out, exist_ok=True)


def sh(cmd, **kw):
    return subprocess.run(cmd, shell=True, capture_output=True, text=True, **kw)


patch = sh(f"git -C {wt} diff HEAD -- src").stdout
assert patch.strip(), "no change in the worktree"
open(f"{out}/patch.diff", "w").write(patch)
t = sh(f"cd {wt} && /venv/bin/python -m pytest -q -p no:cacheprovider --continue-on-collection-errors 2>&1 | tail -1", env=env).stdout.strip()
d1 = sh(f"cd {wt} && /venv/bin/python MUTATION/demo.py", env=env)
assert sh(f"git -C {wt} apply -R {out}/patch.diff").returncode == 0   # (git stash is shared between worktrees)
t0 = sh(f"cd {wt} && /venv/bin/python -m pytest -q -p no:cacheprovider --continue-on-collection-errors 2>&1 | tail -1", env=env).stdout.strip()
d0 = sh(f"cd {wt} && /venv/bin/python MUTATION/demo.py", env=env)
assert sh(f"git -C {wt} apply {out}/patch.diff").returncode == 0
confirmed = "39 passed" in t and "39 passed" in t0 and d1.returncode != 0 and d0.returncode == 0
print("tests with change:", t, "| demo with change rc", d1.returncode, "| demo without rc", d0.returncode, "| confirmed:", confirmed)
for f in ("demo.py", "notes.md"):
    if os.path.exists(f"{mut}/{f}"):
        shutil.copy(f"{mut}/{f}", f"{out}/{f}")
results = {}
if confirmed:
    if use_tree:
        import tempfile
        evd = tempfile.mkdtemp(prefix="eval_")
        r = sh(f"{HERE}/bin/eval_tree {wt} {evd} {' '.join(checks)}")
        shutil.rmtree(evd, ignore_errors=True)
    else:
        r = sh(f"{HERE}/bin/try_patch {out}/patch.diff {' '.join(checks)}")
    print(r.stdout)
    for line in r.stdout.splitlines():
        if line.startswith("C") and " rc=" in line:
            cid, rest = line.split(" ", 1)
            rc = int(rest.split("rc=")[1].split()[0])
            results[cid] = dict(rc=rc, violation=("VIOLATION" in rest), no_failing_input=("no-failing-input-found" in rest))
first = None
stale = []
if os.path.exists(f"{out}/meta.json"):
    old = json.load(open(f"{out}/meta.json"))
    first = old.get("first_evaluation")      # recorded for the waves of session 3 only; never invented afterwards
    if confirmed and len(checks) < 20:
        # a run restricted to some checks (the final run evaluates the TARGETED check of every stored change): what the other
        # checks said is kept from the last run that asked them, and marked as such
        for cid, v in (old.get("checks") or {}).items():
            if cid not in results:
                results[cid] = dict(v, from_an_earlier_run=True)
                stale.append(cid)


def _git(d):
    return sh(f"git -C {d} rev-parse --short HEAD").stdout.strip()


meta = dict(property=pid, name=name, confirmed=confirmed, first_evaluation=first,
            tests_with_change=t, tests_without_change=t0,
            demo_with_change=dict(rc=d1.returncode, tail=(d1.stdout + d1.stderr)[-400:]),
            demo_without_change=dict(rc=d0.returncode, tail=(d0.stdout + d0.stderr)[-200:]),
            ran=[f"cd <worktree> && PYTHONPATH=<worktree>/src /venv/bin/python -m pytest -q -p no:cacheprovider --continue-on-collection-errors",
                 "PYTHONPATH=<worktree>/src /venv/bin/python demo.py   (with the change: must fail; without: must pass)",
                 ("/verif/bin/eval_tree <worktree> <tmpdir>   (all quick checks with BASICTDF_REPO=<worktree>, /repo untouched)" if use_tree else
                  "/verif/bin/try_patch patch.diff   (git -C /repo apply; bin/check <all ids> --tier quick; git -C /repo checkout -- .)")],
            needs=open(f"{out}/notes.md").read()[:1500] if os.path.exists(f"{out}/notes.md") else "",
            checks=dict(sorted(results.items())),
            last_run=dict(checks_asked=sorted(c for c in results if c not in stale), verif_commit=_git(HERE), basictdf_commit=_git(wt), kept_from_an_earlier_run=sorted(stale)),
            caught_by=[c for c, v in results.items() if v["violation"]],
            caught_with_failing_input=[c for c, v in results.items() if v["violation"] and not v["no_failing_input"]])
json.dump(meta, open(f"{out}/meta.json", "w"), indent=1)
print("caught by:", meta["caught_by"], "| with failing input:", meta["caught_with_failing_input"])
