#!/usr/bin/env python3
"""bin/refactor_eval.py <worktree> <name>: a behaviour-preserving refactoring written by a sub-agent.
Confirms the 39 tests pass with it, stores it under /verif/seeded/<name>/ and runs all quick checks against it:
every check must stay silent (a VIOLATION here is a false alarm of the machinery)."""
import json
import os
import shutil
import subprocess
import sys

wt, name = sys.argv[1], sys.argv[2]
HERE = os.path.dirname(os.path.dirname(os.path.abspath(__file__)))
out = f"{HERE}/seeded/{name}"
os.makedirs(out, exist_ok=True)


def sh(cmd, **kw):
    return subprocess.run(cmd, shell=True, capture_output=True, text=True, **kw)


sh(f"git -C {wt} add -N src")
patch = sh(f"git -C {wt} diff HEAD -- src").stdout
assert patch.strip()
open(f"{out}/patch.diff", "w").write(patch)
env = dict(os.environ, PYTHONPATH=f"{wt}/src")
t = sh(f"cd {wt} && /venv/bin/python -m pytest -q -p no:cacheprovider --continue-on-collection-errors 2>&1 | tail -1", env=env).stdout.strip()
for f in ("notes.md", "equiv_check.py"):
    if os.path.exists(f"{wt}/MUTATION/{f}"):
        shutil.copy(f"{wt}/MUTATION/{f}", f"{out}/{f}")
# the checks run against the worktree itself (BASICTDF_REPO / VERIF_OUT), so /repo is never touched
import tempfile
evd = tempfile.mkdtemp(prefix="eval_")
r = sh(f"{HERE}/bin/eval_tree {wt} {evd}")
shutil.rmtree(evd, ignore_errors=True)
print(r.stdout)
results = {}
for line in r.stdout.splitlines():
    if line.startswith("C") and " rc=" in line:
        cid, rest = line.split(" ", 1)
        results[cid] = dict(rc=int(rest.split("rc=")[1].split()[0]), violation="VIOLATION" in rest, no_failing_input="no-failing-input-found" in rest)
alarms = [c for c, v in results.items() if v["rc"] != 0]
meta = dict(kind="harmless-refactoring", name=name, tests_with_change=t, lines_changed=sum(1 for l in patch.splitlines() if l[:1] in "+-" and l[:3] not in ("+++", "---")),
            ran=["pytest in the worktree", "/verif/bin/eval_tree <worktree> <tmpdir> (all 20 quick checks with BASICTDF_REPO=<worktree>)"], checks=results, false_alarms=alarms,
            needs=open(f"{out}/notes.md").read()[:1500] if os.path.exists(f"{out}/notes.md") else "")
json.dump(meta, open(f"{out}/meta.json", "w"), indent=1)
print("tests:", t, "| lines changed:", meta["lines_changed"], "| alarms:", alarms)
