#!/usr/bin/env python3
"""writes /verif/MANIFEST.json from the table below (single source of truth for the interface)"""
import json
import os

HERE = os.path.dirname(os.path.dirname(os.path.abspath(__file__)))

# id -> (technique, level text, level note, design ref)
BUILT = {
    "C13": ("Lean 4 theorems on a hand-written model of BTSString (width, layout, ok-iff, refusal kinds, lossless read-back, tail ignored; cp1252 table by decide +kernel) + exhaustive/seeded correspondence of the model with BTSString.write/read",
            "Proof over the model for every string, width and byte string; the tie to /repo is an exhaustive comparison of the codec table (1 114 112 code points, 256 bytes) and of short strings, plus seeded boundary cases, each also judged by the property's own predicate on the real outputs.",
            "Trusts Lean's kernel, axioms propext/Classical.choice/Quot.sound, the hand-written model Str.lean/Cp1252.lean and the correspondence harness; Python's cp1252 codec is modelled as a table and compared exhaustively.",
            "DESIGN.md §6 C13"),
}
ALL = [f"C{i:02d}" for i in range(1, 21)]

checks = []
for pid in ALL:
    if pid not in BUILT:
        continue
    tech, text, note, ref = BUILT[pid]
    checks.append({
        "property_id": pid,
        "quick_cmd": f"bin/check {pid} --tier quick",
        "thorough_cmd": f"bin/check {pid} --tier thorough",
        "evidence_file": f"evidence/{pid}.json",
        "replay_cmd_template": f"bin/check {pid} --replay {{path}}",
        "engine": "lean4-model+correspondence",
        "level_claimed": {"category": "proof", "text": text, "design_ref": ref},
        "level_note": note,
        "technique": tech,
    })

manifest = {
    "version": 1,
    "setup_cmd": "cd lean && lake build",
    "hooks": {
        "guard": "BASICTDF_VERIF",
        "enable": "no hooks are needed: the harness drives the unmodified library in-process (PYTHONPATH=/repo/src) and freezes the clock by monkey-patching from outside",
        "baseline_off_cmd": "cd /repo && /venv/bin/python -m pytest -ra -q -p no:cacheprovider --timeout=900 --continue-on-collection-errors",
        "source_commits": [],
        "add_only": True,
    },
    "engines": [{
        "name": "lean4-model+correspondence",
        "path": "lean/ (TdfModel = executable model, TdfProofs = theorems, Driver.lean = tdfdrv) + harness/ (Python correspondence + oracle)",
        "serves_properties": sorted(BUILT),
        "kind_free_text": "machine-checked proof in Lean 4 over a hand-written executable model, tied to /repo on every run by a behavioural correspondence check",
    }],
    "checks": checks,
    "notes": "bin/check <id> --tier quick|thorough [--seed N]; VERIF_SEED/VERIF_TIER honoured. Exit 0 held / 1 VIOLATION / 2 infrastructure error.",
    "not_applicable": [
        {"property_id": pid, "reason": "check under construction in this round: not claimed yet (the technique applies; see DESIGN.md §6)"}
        for pid in ALL if pid not in BUILT
    ],
}
json.dump(manifest, open(os.path.join(HERE, "MANIFEST.json"), "w"), indent=1)
print("MANIFEST.json:", len(checks), "checks,", len(manifest["not_applicable"]), "not claimed")
