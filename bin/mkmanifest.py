#!/usr/bin/env python3
"""writes /verif/MANIFEST.json from the table below (single source of truth for the interface)"""
import json
import os

HERE = os.path.dirname(os.path.dirname(os.path.abspath(__file__)))

# id -> (technique, level text, level note, design ref)
BUILT = {
    "C13": ("Lean 4 theorems on a hand-written model of BTSString (width, layout, ok-iff, refusal kinds, lossless read-back, tail ignored; cp1252 table by decide +kernel) + exhaustive/seeded correspondence of the model with BTSString.write/read",
            "Proof over the model for every string, width and byte string; the tie to /repo is an exhaustive comparison of the codec table (1 114 112 code points, 256 bytes) and of short strings, plus seeded boundary cases, each also judged by the property's own predicate on the real outputs.",
            "Trusts Lean's kernel, axioms propext/Classical.choice/Quot.sound, the hand-written model Str.lean/Cp1252.lean and the correspondence harness; Python's cp1252 codec is modelled as a table and compared exhaustively.",
            "DESIGN.md §6 C13"),
}
NOTE = "Trusts Lean's kernel, axioms propext/Classical.choice/Quot.sound, the hand-written model under lean/TdfModel and the correspondence harness (differential testing; every session runs a second time in an interpreter started with -O); numpy/CPython primitives are modelled, not verified (DESIGN.md §4)."
BUILT.update({
    "C01": ("Lean 4 round-trip theorems dec(enc x ++ rest) = (x, rest) for all nine block models (induction over item lists and frame masks) + seeded correspondence of model enc/dec with _write/_build, incl. arrays of four provenances and object life cycles (use, edit in place, use again)",
            "Proof over the model for every valid block of the nine types (unbounded items, frames, masks); tied to /repo by byte-equality of encodings and equality of decoded values on seeded shape-directed blocks and on blocks edited in place after a first use, each also judged by decode(encode(x)) == x on the real code.",
            NOTE, "DESIGN.md §6 C01"),
    "C02": ("Lean 4 theorems (enc x).length = size x with size mirroring nBytes term by term, exact consumption from the round-trip law, nested items, raw tracks with arbitrary float content (item_raw_track: no validity assumption on samples) + correspondence of the three numbers incl. life cycles, non-finite components and the BTS capture vs its jump table",
            "Proof over the model for all valid blocks and nested items; tied to /repo by comparing nBytes / bytes written / bytes consumed on seeded blocks and on the 8 capture blocks.",
            NOTE, "DESIGN.md §6 C02"),
    "C05": ("Lean 4 theorems on the run-length codec (runs canonical, cover exactly, fill∘runs = id, byte-level round trip) for all n and all 2^n masks, the presence rule on raw rows (raw_rows_cover) + exhaustive small-mask correspondence with dirty-heap double decode, every in-place mask transition for n<=4 and rows with single non-finite components",
            "Proof over the model for every mask; the real code is compared on all masks n<=10 (quick) / n<=12 (thorough) for four track kinds; uninitialised-memory exposure is explored on the real decoder only (a model cannot exhibit it).",
            NOTE, "DESIGN.md §6 C05"),
    "C12": ("Lean 4 non-interference theorem proved once by induction over decoder programs of a free monad (take/skip/str), scramble corollaries for header, entry and nine blocks + scrambling correspondence with hostile bytes",
            "Proof over the model for every decoder and every byte string; the real decoders are run on encodings whose model-marked don't-care bytes are overwritten (library-written, capture).",
            NOTE, "DESIGN.md §6 C12"),
})
BUILT["C06"] = ("Lean 4 layout theorems (little-endian fields, header 64 / entry 288 with field offsets, reserved zeros, string and track layout, EMG bias, Tdf.new image) with the Lean encoders/decoders as the independent layout-driven codec; two-way inverse from C01+C12+C02; + byte-equality correspondence both directions incl. the BTS capture",
            "The model's encoders are the independent encoder of the property; theorems pin the layout for all values; real _write output is compared byte for byte, real decoders run on model-encoded bytes, entries/headers/Tdf.new likewise, and the capture (8 blocks, pinned sha-256) is decoded by both and compared in full.",
            NOTE + " The capture checks are tests on one input.", "DESIGN.md §6 C06")
BUILT["C08"] = ("Lean 4 theorems on the access-mode state machine (allow_write/enter/exit/mutators/readers incl. implicit contexts): disk changes only through a mutator with a writable handle, such a handle only comes from enter-after-allow_write, every other mode refuses, readers pure, implicit handles closed, any_exit_ends_write_access for every trace incl. nested contexts, copy_not_write_enabled; + exhaustive mutator/reader x mode matrix and seeded interleavings on the real object",
            "Proof over the model for every state and trace; the real Tdf object is driven through the full matrix (8 mutators + 22 readers x 11 modes, four of them nested `with` on one object) and seeded interleavings, observing raised?/bytes changed?/handler.closed, judged by the model and by an independent python reference monitor.",
            NOTE + " Which of decorator/PermissionError/closed handle/read-only handle refuses a call is not modelled, only that it raises;", "DESIGN.md §6 C08")
BUILT["C17"] = ("Lean 4 theorems on a finite-map file system model of Tdf.new / copy / open (new image well-formed, existing targets refused and untouched, copy identical and independent, missing / bad-signature open refused; long-lived objects: every context entry judges the file as it is now, enter_checks_every_time over any history of replacements) + all target kinds and scripted long-lived-object scenarios on the real file system",
            "Proof over the model for every file system and path; the real functions are run on every target kind (absent, TDF, non-TDF, empty, directory), with sources reached by histories and later mutations of copy/original; bytes before/after and exception classes compared, new files judged by Lean's wfB/compactB.",
            NOTE + " The exists()/open race is OS behaviour and not modelled.", "DESIGN.md §6 C17")
BUILT["C15"] = ("Lean 4 invariant proof (lists aligned, channels Nodup) preserved by every edit of the three channel-mapped block kinds and every history; survivors keep their channel (removal erases one pair), add appends a pair, taken explicit channel refused, automatic channel fresh; + seeded edit histories on real blocks from empty / constructor-filled / decoded starts (incl. lists edited by the caller afterwards and items shared with another block)",
            "Proof over the model for every edit sequence; real EMG, platform-calibration and platform-data blocks are driven through seeded histories and compared pairwise with the model after every edit, then encoded and decoded.",
            NOTE + " Channels (incl. automatic max+1) are kept inside the on-disk range by the generator.", "DESIGN.md §6 C15")
BUILT["C16"] = ("Lean 4 invariant (every held track has the block's frame count) preserved by every add/assign history; refused add unchanged; assign_all_or_nothing as an equation (installs exactly the list iff every element is acceptable and the iterable does not raise); + seeded call sequences on real Data3D / ForceTorque3D / EMG blocks (wrong lengths, foreign objects, raising and non-raising one-shot iterables, lists the caller edits afterwards)",
            "Proof over the model for all call sequences; real blocks are driven with wrong-length tracks, foreign objects at every list position, raising generators and non-iterables, comparing the identity of the held tracks after every call.",
            NOTE, "DESIGN.md §6 C16")
BUILT["C18"] = ("Lean 4 lemmas on one labelled list: index = iteration (incl. negative indices), label lookup returns the first match, contains <-> lookup succeeds, KeyError/IndexError/TypeError cases, membership for every kind of key (memberOf); + real blocks of four kinds x all key kinds incl. exotic labels and keys that a sloppy comparison would identify with a present label",
            "Proof over the model for every list and key; four real block kinds with duplicate/empty/near-equal labels are probed with every integer in range and beyond, labels, items and foreign key types; identity of results, exception classes and unchanged encoding compared.",
            NOTE, "DESIGN.md §6 C18")
BUILT["C19"] = ("Lean 4 decision-logic theorems (accept <-> exactly the required shape; viewport halves: 2-element array/list/tuple; viewport parameter; coupled arrays (n,3); event refusals; accepted => encoded length = field width; constructors with several geometry arguments accept iff EACH argument fits: all_iff_each) + exhaustive enumeration of shapes rank 0-3 / extents 0-4 x dtypes and non-arrays against all 25 validated constructor arguments, plus related pairs of wrong arguments for the multi-argument constructors; the event sentences judged directly",
            "Proof over the model for all argument kinds and shapes; the real constructors are enumerated exhaustively over the finite shape space the property names, comparing accept/refuse with the model and checking nBytes = bytes written for every accepted object.",
            NOTE + " Acceptance is modelled as a function of kind and shape only.", "DESIGN.md §6 C19")
BUILT["C20"] = ("Lean 4 separation theorems on an object-store model (fresh allocation by every constructor/decode call, edits touch one cell only, instance_independent over any interleaving, a block built without items is empty whatever happened before, decode twice = two independent instances, list assignment installs items in a container of the instance's own: assign_separate) + seeded interleavings over 2-4 real instances of seven block classes",
            "Proof over the store model; real instances are created (with/without own item lists), decoded twice, edited and encoded in seeded interleavings, and after every step the items (by identity) and encoding of every instance are compared with the model.",
            NOTE + " This property is about CPython object identity; the store model is only as good as the correspondence.", "DESIGN.md §6 C20")
BUILT["C14"] = ("Lean 4 theorems eq a b = true <-> a = b for the nine block equalities as implemented (byte-level ones via injectivity of enc from C01; field-wise ones via zipAll + length/channel-map guards), eq with decode(encode a), append detected, file equality; + real == on generated pairs (same / rebuilt / round-tripped / one change / +-1 item / compared, then edited in place) and on pairs of files",
            "Proof over the model (samples and scalars as bit patterns); the real __eq__ of every block class and of Tdf is evaluated in both directions on pairs that are identical, round-tripped or differ in exactly one element, and compared with the model and with equality of the abstract contents.",
            NOTE + " numpy's allclose tolerance and ±0/NaN scalar corner cases are outside the model; unequal pairs differ far beyond tolerance.", "DESIGN.md §6 C14")
CONT = "Lean 4 refinement proof: byte-level L0 model of add/remove/replace/setters (seek/write/truncate) simulates the list-of-blocks spec on every compact layout (add_sim, remove_sim, run_sim by induction over histories, any table length); table-level theorems for ANY well-formed table (entries in any order, gaps, unused slots anywhere: ForeignInv is an invariant of every history; remove/add frame conditions; a refused replace touches nothing); "
BUILT.update({
    "C03": (CONT + "corollary wfB(image)=true; + seeded and exhaustive history correspondence (incl. one block object through its whole life in a file, a long-lived Tdf object pausing while other objects change the file, well-formed non-compact start files) with Lean's wfB judging the real bytes after every call",
            "Proof over the model for every finite history from every compact start state and every table length; tied to /repo by running seeded histories on real files and on the model, comparing the file abstraction and Tdf.entries after every call; Lean's decidable WF predicate judges the real bytes.",
            NOTE + " Start states are compact files; blocks are assumed to satisfy C02 (honest sizes); files stay below 2 GiB.", "DESIGN.md §6 container"),
    "C04": (CONT + "frame theorems on the list spec (other types untouched, removed absent, replace keeps comment) and payload_read; add_stores_any (on ANY state the new entry sits in the first unused slot and its byte range reads back what was written); + reference-dict oracle on real files, incl. block objects handed over again after in-place edits",
            "Proof over the model (frame conditions are list lemmas after the refinement); real files are parsed independently after every call and compared with a python reference of the history, plus read-back through get_block.",
            NOTE, "DESIGN.md §6 container"),
    "C07": ("Lean 4 theorems: add/remove rejected => state unchanged for EVERY state and cause; every refused call (add, remove, replace, setter) at every point of every history from ANY table with one block per type leaves the state unchanged (history_rejected_unchanged_any); replace/setters atomic on well-formed layouts (add cannot fail after the remove); continuation equivalence; + fault-injection correspondence (sha before/after, twin file; causes incl. dates that do not fit the on-disk field)",
            "Proof over the model; on the real code every rejection cause x reachable states x position of the failing element is exercised, with sha-256 before/after and a twin-file continuation.",
            NOTE, "DESIGN.md §6 container"),
    "C09": (CONT + "corollaries compactB(image)=true, file length formula, add grows / remove shrinks by exactly the size (both also on ANY table lying inside the file, no layout assumed: remove_shrinks_any, add_grows_any); + history correspondence with Lean's compactB on the real bytes",
            "Proof over the model; Lean's decidable compactness predicate and the length deltas judge the real file after every call.",
            NOTE, "DESIGN.md §6 container"),
    "C10": (CONT + "corollaries disk = view after every step (also as an invariant of every call and history on ANY state, no layout assumed: history_nothing_pending_any), decTable(disk) = in-memory entries, openFile(disk) = same object; + three-observer correspondence after every call",
            "Proof over the model (write buffering modelled as view/disk with explicit flush); on the real code Tdf.entries, an independent read inside the context, the file after close and reads through the open object are compared after every call.",
            NOTE + " When CPython flushes by itself is not modelled.", "DESIGN.md §6 container"),
    "C11": (CONT + "corollaries Nodup of live types, duplicate add refused on any state, setter = replace-or-add, accessors as functions of the block list; on ANY table with one block per type: has_x false after a removal, true after an accepted add (removed_absent_any, added_present_any); + accessor matrix on real files at every intermediate state",
            "Proof over the model; on the real code every accessor (has_*, len, get_block by type/index, [], blocks, getters) is evaluated after every call and compared with an independent parse; duplicate add must raise ValueError.",
            NOTE, "DESIGN.md §6 container"),
})
ALL = [f"C{i:02d}" for i in range(1, 21)]

checks = []
for pid in ALL:
    if pid not in BUILT:
        continue
    tech, text, note, ref = BUILT[pid]
    checks.append({
        "property_id": pid,
        "quick_cmd": f"bin/check {pid} --tier quick",
        "thorough_cmd": f"bin/check {pid} --tier thorough",
        "evidence_file": f"evidence/{pid}.json",
        "replay_cmd_template": f"bin/check {pid} --replay {{path}}",
        "engine": "lean4-model+correspondence",
        "level_claimed": {"category": "proof", "text": text, "design_ref": ref},
        "level_note": note,
        "technique": tech,
    })

manifest = {
    "version": 1,
    "setup_cmd": "cd lean && lake build",
    "hooks": {
        "guard": "BASICTDF_VERIF",
        "enable": "no hooks are needed: the harness drives the unmodified library in-process (PYTHONPATH=/repo/src) and freezes the clock by monkey-patching from outside",
        "baseline_off_cmd": "cd /repo && /venv/bin/python -m pytest -ra -q -p no:cacheprovider --timeout=900 --continue-on-collection-errors",
        "source_commits": [],
        "add_only": True,
    },
    "engines": [{
        "name": "lean4-model+correspondence",
        "path": "lean/ (TdfModel = executable model, TdfProofs = theorems, Driver.lean = tdfdrv) + harness/ (Python correspondence + oracle)",
        "serves_properties": sorted(BUILT),
        "kind_free_text": "machine-checked proof in Lean 4 over a hand-written executable model, tied to /repo on every run by a behavioural correspondence check",
    }],
    "checks": checks,
    "notes": "bin/check <id> --tier quick|thorough [--seed N]; VERIF_SEED/VERIF_TIER honoured. Exit 0 held / 1 VIOLATION / 2 infrastructure error.",
    "not_applicable": [
        {"property_id": pid, "reason": "check under construction in this round: not claimed yet (the technique applies; see DESIGN.md §6)"}
        for pid in ALL if pid not in BUILT
    ],
}
json.dump(manifest, open(os.path.join(HERE, "MANIFEST.json"), "w"), indent=1)
print("MANIFEST.json:", len(checks), "checks,", len(manifest["not_applicable"]), "not claimed")
