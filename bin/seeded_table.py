#!/usr/bin/env python3
"""regenerates /verif/seeded/TABLE.md from the meta.json files"""
import glob
import json
import os

rows = []
for m in sorted(glob.glob(os.path.join(os.path.dirname(os.path.dirname(os.path.abspath(__file__))), "seeded", "*", "meta.json"))):
    d = json.load(open(m))
    rows.append(d)
out = ["# Seeded changes and which quick checks catch them", "",
       "`caught (failing input)` = the check printed VIOLATION with a concrete replay on the real code; `caught (no-failing-input-found)` = a "
       "proof obligation or the correspondence broke and the widened search found no input on which the property's own predicate fails "
       "(expected for checks of OTHER properties that share the broken model part).", "",
       "`first evaluation` = what the targeted check said when the change was first evaluated, before any strengthening it prompted "
       "(recorded from wave W on; `missed` = exit 0).", "",
       "† = not asked in the last run of that change (the final run of session 4 asked only the TARGETED check of every stored change, and all 20 checks "
       "for the refactorings); the entry is what that check said in the last run that asked it.", "",
       "| seeded change | breaks | confirmed | first evaluation (targeted check) | caught with failing input | caught, no failing input | silent |", "|---|---|---|---|---|---|---|"]
for d in rows:
    if d.get("kind") == "harmless-refactoring":
        continue
    c = d.get("checks", {})
    a = sorted(d.get("caught_with_failing_input", []))
    b = sorted(set(d.get("caught_by", [])) - set(a))
    s = sorted(k for k, v in c.items() if not v["violation"])
    target = d["property"]
    stale = {k for k, v in c.items() if v.get("from_an_earlier_run")}
    mark = lambda l: ", ".join((f"**{x}**" if x == target else x) + ("†" if x in stale else "") for x in l) or "–"
    fe = d.get("first_evaluation")
    if not fe:
        first = "(as now)"
    elif target in (fe.get("caught_with_failing_input") or []):
        first = "caught"
    elif target in (fe.get("caught_by") or []):
        first = "caught, no failing input"
    else:
        first = "**missed**"
    out.append(f"| {d['name']} | {target} | {'yes' if d['confirmed'] else 'NO'} | {first} | {mark(a)} | {mark(b)} | {len(s)} checks{' incl. **' + target + '**' if target in s else ''} |")
out += ["", "## Behaviour-preserving refactorings (every check must stay silent)", "", "| refactoring | lines changed | tests | checks run | alarms |", "|---|---|---|---|---|"]
for d in rows:
    if d.get("kind") == "harmless-refactoring":
        out.append(f"| {d['name']} | {d['lines_changed']} | {d['tests_with_change'].split(' in ')[0]} | {len(d['checks'])} | {', '.join(d['false_alarms']) or 'none'} |")
open(os.path.join(os.path.dirname(os.path.dirname(os.path.abspath(__file__))), "seeded", "TABLE.md"), "w").write("\n".join(out) + "\n")
print("\n".join(out))
