import TdfModel.ReadBack
import TdfProofs.Lemmas.Layout
import TdfProofs.Lemmas.Data2D
namespace Tdf

/-- the decoder dispatched from (type code, format code) inverts the encoder of every valid block -/
theorem decoder_roundtrip (b : Wire.AnyBlock) (h : b.valid = true) (rest : Bytes) :
    ∃ k d, kindOfType b.typ = some k ∧ Wire.decoder k b.fmt = some d ∧ d.run (b.enc ++ rest) = some (b, rest) := by
  cases b with
  | data3d x =>
    refine ⟨"data3d", _, rfl, rfl, ?_⟩
    simp only [D.bind_eq, Wire.AnyBlock.enc, Wire.AnyBlock.fmt]
    rw [D.bind_run_of _ _ _ _ _ (Data3D.dec_enc x h rest)]; rfl
  | emg x =>
    refine ⟨"emg", _, rfl, rfl, ?_⟩
    simp only [D.bind_eq, Wire.AnyBlock.enc, Wire.AnyBlock.fmt]
    rw [D.bind_run_of _ _ _ _ _ (EMG.dec_enc x h rest)]; rfl
  | force3d x =>
    refine ⟨"force3d", _, rfl, rfl, ?_⟩
    simp only [D.bind_eq, Wire.AnyBlock.enc, Wire.AnyBlock.fmt]
    rw [D.bind_run_of _ _ _ _ _ (Force3D.dec_enc x h rest)]; rfl
  | platdata x =>
    refine ⟨"platdata", _, rfl, rfl, ?_⟩
    simp only [D.bind_eq, Wire.AnyBlock.enc, Wire.AnyBlock.fmt]
    rw [D.bind_run_of _ _ _ _ _ (PlatData.dec_enc x h rest)]; rfl
  | platcalib x =>
    refine ⟨"platcalib", _, rfl, rfl, ?_⟩
    simp only [D.bind_eq, Wire.AnyBlock.enc, Wire.AnyBlock.fmt]
    rw [D.bind_run_of _ _ _ _ _ (PlatCalib.dec_enc x h rest)]; rfl
  | data2d x =>
    refine ⟨"data2d", _, rfl, rfl, ?_⟩
    simp only [D.bind_eq, Wire.AnyBlock.enc, Wire.AnyBlock.fmt]
    rw [D.bind_run_of _ _ _ _ _ (Data2D.dec_enc x h rest)]; rfl
  | calib x =>
    refine ⟨"calib", _, rfl, rfl, ?_⟩
    simp only [D.bind_eq, Wire.AnyBlock.enc, Wire.AnyBlock.fmt]
    rw [D.bind_run_of _ _ _ _ _ (Calib.dec_enc x h rest)]; rfl
  | optical x =>
    refine ⟨"optical", _, rfl, rfl, ?_⟩
    simp only [D.bind_eq, Wire.AnyBlock.enc, Wire.AnyBlock.fmt]
    rw [D.bind_run_of _ _ _ _ _ (Optical.dec_enc x h rest)]; rfl
  | events x =>
    refine ⟨"events", _, rfl, rfl, ?_⟩
    simp only [D.bind_eq, Wire.AnyBlock.enc, Wire.AnyBlock.fmt]
    rw [D.bind_run_of _ _ _ _ _ (Events.dec_enc x h rest)]; rfl

/-- the entry found for a type is the layout's entry of the first block of that type, at its offset -/
theorem find_table_at (s e : Nat) (pre post : List LBlock) (x : LBlock) (fs : List FreeMeta) (t : Nat)
    (hx : x.typ = t) (hpre : ∀ b ∈ pre, b.typ ≠ t) :
    (liveEntries s (pre ++ x :: post) ++ freeEntries e fs).find? (fun y => y.typ == t)
      = some (liveEntry (s + (dataOf pre).length) x) := by
  induction pre generalizing s with
  | nil => simp [liveEntries, liveEntry, dataOf, hx]
  | cons p ps ih =>
    have hp : (p.typ == t) = false := by simpa using hpre p (by simp)
    have hh : ((liveEntry s p).typ == t) = false := by simpa [liveEntry] using hp
    simp only [List.cons_append, liveEntries, List.find?_cons, hh]
    rw [ih (s + p.payload.length) (fun b hb => hpre b (by simp [hb]))]
    simp [dataOf, List.flatMap_cons, Nat.add_assoc]

/-- READ BACK: a valid block stored in a well-formed file is returned, equal to what was stored, by
    lookup-by-type + decode — container layout (C03/C09), byte-exact storage (C04) and codec
    round trip (C01) composed -/
theorem read_back (l : Lay) (ok : l.Ok) (pre post : List LBlock) (x : LBlock) (b : Wire.AnyBlock)
    (hbs : l.bs = pre ++ x :: post) (hpre : ∀ y ∈ pre, y.typ ≠ x.typ)
    (hv : b.valid = true) (htyp : x.typ = b.typ) (hfmt : x.fmt = b.fmt) (hpl : x.payload = b.enc) :
    getBlock l.state x.typ = some b := by
  obtain ⟨k, d, hk, hd, hrun⟩ := decoder_roundtrip b hv []
  have hfind : entryByType l.state x.typ = some (liveEntry (tableStart l.n + (dataOf pre).length) x) := by
    simp only [entryByType, Lay.state, Lay.table, hbs]
    exact find_table_at _ _ pre post x l.fs x.typ rfl hpre
  have hpay := payload_read l ok pre post x hbs
  unfold getBlock
  rw [hfind]
  simp only [liveEntry] at hpay ⊢
  rw [htyp, hk]
  simp only [hfmt, hd]
  have : payloadOf l.state ⟨b.typ, b.fmt, ((tableStart l.n + (dataOf pre).length : Nat) : Int), (x.payload.length : Int), x.cdate, x.mdate, x.adate, x.comment⟩
      = x.payload := by
    simp only [payloadOf, readAt] at hpay ⊢
    exact hpay
  rw [this, hpl]
  simp only [List.append_nil] at hrun
  rw [hrun]; rfl

end Tdf
