import TdfModel.Str
import TdfProofs.Lemmas.Dec
namespace Tdf

theorem findIdx_spec (c : Nat) (xs : List (Option Nat)) (i j : Nat)
    (h : findIdx c xs i = some j) : i ≤ j ∧ xs[j - i]? = some (some c) := by
  induction xs generalizing i with
  | nil => simp [findIdx] at h
  | cons x xs ih =>
    simp only [findIdx] at h
    split at h
    · rename_i hx; simp at h; subst h; simp [hx]
    · have := ih (i+1) h
      refine ⟨by omega, ?_⟩
      have e : j - i = (j - (i+1)) + 1 := by omega
      rw [e]; simpa using this.2

/-- the finite table, checked by kernel evaluation over all 256 byte values -/
def tableOk (n : Nat) : Bool :=
  match decNat n with | none => true | some c => encNat c == some n

theorem dec_enc_table : ∀ n, n < 256 → tableOk n = true := by
  decide +kernel

theorem dec_enc_nat (n c : Nat) (hn : n < 256) (h : decNat n = some c) : encNat c = some n := by
  have := dec_enc_table n hn
  unfold tableOk at this
  rw [h] at this; simpa using this

theorem enc_dec_nat (c n : Nat) (h : encNat c = some n) : decNat n = some c ∧ n < 256 := by
  unfold encNat at h
  split at h
  · simp at h; subst h; simp [decNat, *] <;> omega
  · split at h
    · rename_i h1 h2
      simp at h; subst h
      have : ¬ c < 0x80 := h1
      have : ¬ c < 0xA0 := by omega
      simp [decNat, *] <;> omega
    · simp at h
      obtain ⟨i, hi, rfl⟩ := h
      have := findIdx_spec c hiTable 0 i hi
      have hlt : i < 32 := by
        have h2 := this.2
        simp at h2
        rcases Nat.lt_or_ge i hiTable.length with h | h
        · simpa [hiTable] using h
        · rw [List.getElem?_eq_none h] at h2; cases h2
      have h2 := this.2
      simp at h2
      have a1 : ¬ (0x80 + i < 0x80) := by omega
      have a2 : 0x80 + i < 0xA0 := by omega
      simp [decNat, a1, a2, h2]
      omega

/-- the codec is injective on what it accepts: every code point on at most one byte, and back -/
theorem encCp_decByte (c : Nat) (b : UInt8) (h : encCp c = some b) : decByte b = some c := by
  unfold encCp at h
  cases hn : encNat c with
  | none => simp [hn] at h
  | some n =>
    simp [hn] at h
    have := enc_dec_nat c n hn
    subst h
    simp [decByte, UInt8.toNat_ofNat', Nat.mod_eq_of_lt this.2, this.1]

theorem decByte_encCp (b : UInt8) (c : Nat) (h : decByte b = some c) : encCp c = some b := by
  unfold decByte at h
  have := dec_enc_nat b.toNat c b.toNat_lt h
  simp [encCp, this]

theorem encCp_zero (c : Nat) (h : encCp c = some 0) : c = 0 := by
  have := encCp_decByte c 0 h
  simp [decByte, decNat] at this
  omega

theorem encCp_of_zero : encCp 0 = some 0 := by decide

theorem encStr_length (s : List Nat) (e : Bytes) (h : encStr s = some e) : e.length = s.length := by
  induction s generalizing e with
  | nil => simp [encStr] at h; subst h; rfl
  | cons c cs ih =>
    simp only [encStr] at h
    split at h
    · rename_i b bs hb hbs; simp at h; subst h; simp [ih bs hbs]
    · simp at h

theorem decStr_encStr (s : List Nat) (e : Bytes) (h : encStr s = some e) : decStr e = some s := by
  induction s generalizing e with
  | nil => simp [encStr] at h; subst h; rfl
  | cons c cs ih =>
    simp only [encStr] at h
    split at h
    · rename_i b bs hb hbs; simp at h; subst h
      simp [decStr, encCp_decByte c b hb, ih bs hbs]
    · simp at h

theorem encStr_decStr (e : Bytes) (s : List Nat) (h : decStr e = some s) : encStr s = some e := by
  induction e generalizing s with
  | nil => simp [decStr] at h; subst h; rfl
  | cons b bs ih =>
    simp only [decStr] at h
    split at h
    · rename_i c cs hc hcs; simp at h; subst h
      simp [encStr, decByte_encCp b c hc, ih cs hcs]
    · simp at h

theorem encStr_isSome_iff (s : List Nat) : (encStr s).isSome ↔ ∀ c ∈ s, (encCp c).isSome := by
  induction s with
  | nil => simp [encStr]
  | cons c cs ih =>
    simp only [encStr, List.mem_cons, forall_eq_or_imp]
    rw [← ih]
    cases encCp c <;> cases encStr cs <;> simp

theorem encStr_nulfree (s : List Nat) (e : Bytes) (h : encStr s = some e) (hs : 0 ∉ s) :
    (0 : UInt8) ∉ e := by
  induction s generalizing e with
  | nil => simp [encStr] at h; subst h; simp
  | cons c cs ih =>
    simp only [encStr] at h
    split at h
    · rename_i b bs hb hbs; simp at h; subst h
      simp at hs
      simp only [List.mem_cons, not_or]
      refine ⟨?_, ih bs hbs (by simpa using hs.2)⟩
      intro hb0; subst hb0
      exact hs.1 (encCp_zero c hb).symm
    · simp at h

theorem cutNul_append_zero (e rest : Bytes) (h : (0 : UInt8) ∉ e) :
    D.cutNul (e ++ 0 :: rest) = e := by
  induction e with
  | nil => simp [D.cutNul]
  | cons b bs ih =>
    simp at h
    have hb : ¬ b = 0 := fun hb => h.1 hb.symm
    simp [D.cutNul, hb, ih (by simpa using h.2)]

theorem cutNul_nulfree (e : Bytes) (h : (0 : UInt8) ∉ e) : D.cutNul e = e := by
  induction e with
  | nil => rfl
  | cons b bs ih =>
    simp at h
    have hb : ¬ b = 0 := fun hb => h.1 hb.symm
    simp [D.cutNul, hb, ih (by simpa using h.2)]

/-- shape of every successful write -/
theorem strWrite_ok (w : Nat) (s : List Nat) (bs : Bytes) (h : strWrite w s = .ok bs) :
    ∃ e, encStr s = some e ∧ e.length + 1 ≤ w ∧ bs = e ++ 0 :: zeros (w - (e.length + 1)) := by
  unfold strWrite at h
  split at h
  · cases h
  · rename_i e he
    split at h
    · cases h
    · rename_i hw
      injection h with h
      exact ⟨e, he, by omega, h.symm⟩

theorem strWrite_length (w : Nat) (s : List Nat) (bs : Bytes) (h : strWrite w s = .ok bs) :
    bs.length = w := by
  obtain ⟨e, _, hw, rfl⟩ := strWrite_ok w s bs h
  simp; omega

/-- the decoder step for a text field written by `strWrite` -/
theorem text_step (w : Nat) (s : List Nat) (bs rest : Bytes) (f : List Nat → D β)
    (h : strWrite w s = .ok bs) (hs : 0 ∉ s) :
    ((D.text w).bind f).run (bs ++ rest) = (f s).run rest := by
  obtain ⟨e, he, hw, rfl⟩ := strWrite_ok w s bs h
  have hlen : (e ++ 0 :: zeros (w - (e.length + 1))).length = w := by simp; omega
  have hnf := encStr_nulfree s e he hs
  rw [D.run_bind]
  simp only [D.text, D.run, D.short_eq, decide_eq_true_eq]
  rw [if_neg (by simp; omega)]
  rw [List.take_append_of_le_length (by omega), List.drop_append_of_le_length (by omega)]
  rw [List.take_of_length_le (by omega), List.drop_eq_nil_of_le (by omega)]
  rw [cutNul_append_zero e _ hnf, decStr_encStr s e he]
  simp [D.run]

theorem strBytes_ok (w : Nat) (s : List Nat) (h : strOk w s = true) :
    strWrite w s = .ok (strBytes w s) ∧ 0 ∉ s := by
  unfold strOk at h
  unfold strBytes
  split at h
  · rename_i b hb; simp [hb] at h ⊢; exact h
  · cases h

theorem strBytes_length (w : Nat) (s : List Nat) (h : strOk w s = true) :
    (strBytes w s).length = w :=
  strWrite_length w s _ (strBytes_ok w s h).1

theorem text_step' (w : Nat) (s : List Nat) (rest : Bytes) (f : List Nat → D β)
    (h : strOk w s = true) :
    ((D.text w).bind f).run (strBytes w s ++ rest) = (f s).run rest :=
  text_step w s _ rest f (strBytes_ok w s h).1 (strBytes_ok w s h).2

end Tdf
