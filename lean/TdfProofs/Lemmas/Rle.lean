import TdfModel.Rle
import TdfProofs.Lemmas.Dec
namespace Tdf

variable {α : Type}

theorem setRange_shift (pre : List (Option α)) (x : Option α) (tail : List (Option α)) (a : α) (as : List α) :
    setRange (pre ++ x :: tail) pre.length (a :: as) = setRange (pre ++ some a :: tail) (pre.length + 1) as := by
  unfold setRange
  by_cases h : as.length ≤ tail.length
  · rw [if_pos (by simp; omega), if_pos (by simp; omega)]
    have t1 : List.take pre.length (pre ++ x :: tail) = pre := by simp
    have t2 : List.take (pre.length + 1) (pre ++ some a :: tail) = pre ++ [some a] := by
      rw [List.take_append, List.take_of_length_le (by omega)]; simp
    have d1 : List.drop (pre.length + (a :: as).length) (pre ++ x :: tail) = List.drop as.length tail := by
      rw [List.drop_append]; simp
    have d2 : List.drop (pre.length + 1 + as.length) (pre ++ some a :: tail) = List.drop as.length tail := by
      rw [Nat.add_assoc, List.drop_append]; simp [Nat.add_comm 1]
    rw [t1, t2, d1, d2]; simp
  · rw [if_neg (by simp; omega), if_neg (by simp; omega)]

theorem setRange_one (pre : List (Option α)) (x : Option α) (tail : List (Option α)) (a : α) :
    setRange (pre ++ x :: tail) pre.length [a] = some (pre ++ some a :: tail) := by
  unfold setRange
  rw [if_pos (by simp)]
  simp [List.drop_append]

/-- decoding the runs of `fs` into a blank buffer gives back `fs` — for every length and mask -/
theorem fill_runsFrom (fs : List (Option α)) (pre : List (Option α)) :
    fill (runsFrom pre.length fs) (pre ++ List.replicate fs.length none) = some (pre ++ fs) := by
  induction fs generalizing pre with
  | nil => simp [runsFrom, fill]
  | cons f fs ih =>
    cases f with
    | none =>
      have := ih (pre ++ [none])
      simp only [List.length_append, List.length_cons, List.length_nil, List.append_assoc,
        List.cons_append, List.nil_append] at this
      simpa [runsFrom, List.replicate_succ] using this
    | some a =>
      have := ih (pre ++ [some a])
      simp only [List.length_append, List.length_cons, List.length_nil, List.append_assoc,
        List.cons_append, List.nil_append, Nat.zero_add] at this
      simp only [runsFrom, List.length_cons, List.replicate_succ]
      split
      · rename_i s as rest heq
        rw [heq] at this
        split
        · rename_i hs; subst hs
          simp only [fill] at this ⊢
          rw [setRange_shift]
          exact this
        · simp only [fill]
          rw [setRange_one]
          exact this
      · rename_i heq
        rw [heq] at this
        simp only [fill] at this ⊢
        rw [setRange_one]
        simpa using this

theorem fill_runs (fs : List (Option α)) :
    fill (runs fs) (List.replicate fs.length none) = some fs := by
  have := fill_runsFrom fs []
  simpa [runs] using this

def segTable (rs : List (Nat × List α)) : List (Nat × Nat) := rs.map (fun r => (r.1, r.2.length))

theorem canonicalFrom_mono (lo lo' n : Nat) (rs : List (Nat × Nat)) (h : lo' ≤ lo)
    (hc : canonicalFrom lo n rs = true) : canonicalFrom lo' n rs = true := by
  cases rs with
  | nil => rfl
  | cons r rest =>
    obtain ⟨s, len⟩ := r
    simp only [canonicalFrom, Bool.and_eq_true, decide_eq_true_eq] at hc ⊢
    exact ⟨⟨⟨by omega, hc.1.1.2⟩, hc.1.2⟩, hc.2⟩

theorem canonicalFrom_bump (lo n : Nat) (rs : List (Nat × Nat))
    (hc : canonicalFrom lo n rs = true) (hne : ∀ r, rs.head? = some r → r.1 ≠ lo) :
    canonicalFrom (lo+1) n rs = true := by
  cases rs with
  | nil => rfl
  | cons r rest =>
    obtain ⟨s, len⟩ := r
    have := hne (s, len) (by simp)
    simp only [canonicalFrom, Bool.and_eq_true, decide_eq_true_eq] at hc ⊢
    simp at this
    exact ⟨⟨⟨by omega, hc.1.1.2⟩, hc.1.2⟩, hc.2⟩

/-- the runs written are non-empty, increasing, never touching, inside the frame range -/
theorem runsFrom_canonical (fs : List (Option α)) (i : Nat) :
    canonicalFrom i (i + fs.length) (segTable (runsFrom i fs)) = true := by
  induction fs generalizing i with
  | nil => simp [runsFrom, segTable, canonicalFrom]
  | cons f fs ih =>
    have ih' := ih (i+1)
    have e : i + 1 + fs.length = i + (fs.length + 1) := by omega
    rw [e] at ih'
    cases f with
    | none =>
      simp only [runsFrom, List.length_cons]
      exact canonicalFrom_mono _ _ _ _ (by omega) ih'
    | some a =>
      simp only [runsFrom, List.length_cons]
      split
      · rename_i s as rest heq
        rw [heq] at ih'
        split
        · rename_i hs; subst hs
          simp only [segTable, List.map_cons, canonicalFrom, Bool.and_eq_true, decide_eq_true_eq,
            List.length_cons] at ih' ⊢
          refine ⟨⟨⟨by omega, by omega⟩, by omega⟩, ?_⟩
          have e2 : i + (as.length + 1) + 1 = i + 1 + as.length + 1 := by omega
          rw [e2]; exact ih'.2
        · rename_i hs
          have hb := canonicalFrom_bump _ _ _ ih' (by
            intro r hr; simp [segTable] at hr; subst hr; simpa using hs)
          simp only [segTable, List.map_cons, canonicalFrom, Bool.and_eq_true, decide_eq_true_eq,
            List.length_cons, List.length_nil] at hb ⊢
          refine ⟨⟨⟨by omega, by omega⟩, by omega⟩, ?_⟩
          simpa [segTable] using hb
      · simp [segTable, canonicalFrom]

theorem runs_canonical (fs : List (Option α)) :
    canonicalFrom 0 fs.length (segTable (runs fs)) = true := by
  have := runsFrom_canonical fs 0
  simpa [runs] using this

/-- every run lies at or after the index it was scanned from -/
theorem runsFrom_lb (fs : List (Option α)) (i : Nat) : ∀ r ∈ runsFrom i fs, i ≤ r.1 := by
  induction fs generalizing i with
  | nil => simp [runsFrom]
  | cons f fs ih =>
    cases f with
    | none =>
      intro r hr; simp only [runsFrom] at hr
      have := ih (i+1) r hr; omega
    | some a =>
      intro r hr
      simp only [runsFrom] at hr
      split at hr
      · rename_i s as rest heq
        have ih' := ih (i+1)
        rw [heq] at ih'
        split at hr
        · simp at hr
          rcases hr with rfl | hr
          · simp
          · have := ih' r (by simp [hr]); omega
        · simp at hr
          rcases hr with rfl | rfl | hr
          · simp
          · have := ih' (s, as) (by simp); simp at this; omega
          · have := ih' r (by simp [hr]); omega
      · simp at hr; subst hr; simp

end Tdf

namespace Tdf
variable {α : Type}

theorem runsFrom_mem (fs : List (Option α)) (i : Nat) :
    ∀ r ∈ runsFrom i fs, ∀ a ∈ r.2, some a ∈ fs := by
  induction fs generalizing i with
  | nil => simp [runsFrom]
  | cons f fs ih =>
    cases f with
    | none =>
      intro r hr a ha; simp only [runsFrom] at hr
      simp [ih (i+1) r hr a ha]
    | some x =>
      intro r hr a ha
      simp only [runsFrom] at hr
      have ih' := ih (i+1)
      split at hr
      · rename_i s as rest heq
        rw [heq] at ih'
        split at hr
        · simp at hr
          rcases hr with rfl | hr
          · simp at ha
            rcases ha with rfl | ha
            · simp
            · simp [ih' (s, as) (by simp) a ha]
          · simp [ih' r (by simp [hr]) a ha]
        · simp at hr
          rcases hr with rfl | rfl | hr
          · simp at ha; subst ha; simp
          · simp [ih' (s, as) (by simp) a ha]
          · simp [ih' r (by simp [hr]) a ha]
      · simp at hr; subst hr; simp at ha; subst ha; simp

theorem canonicalFrom_bounds (lo n : Nat) (tbl : List (Nat × Nat))
    (h : canonicalFrom lo n tbl = true) :
    (∀ r ∈ tbl, r.1 + r.2 ≤ n) ∧ 2 * tbl.length ≤ n + 1 - lo := by
  induction tbl generalizing lo with
  | nil => simp
  | cons r rest ih =>
    obtain ⟨s, len⟩ := r
    simp only [canonicalFrom, Bool.and_eq_true, decide_eq_true_eq] at h
    have := ih _ h.2
    refine ⟨?_, by simp; omega⟩
    intro r hr
    simp at hr
    rcases hr with rfl | hr
    · simp; omega
    · exact this.1 r hr

theorem nat32_run (n : Nat) (rest : Bytes) (h : n < 2147483648) :
    D.nat32.run (i32le n ++ rest) = some (n, rest) := by
  unfold D.nat32
  simp only [D.bind_eq]
  rw [D.bind_run_of _ _ _ _ _ (D.i32_run n rest (by omega) (by omega))]
  have : ¬ ((n : Int) < 0) := by omega
  simp [this, D.run]

theorem f32_run (x : UInt32) (rest : Bytes) : D.f32.run (f32le x ++ rest) = some (x, rest) := by
  unfold D.f32 f32le
  rw [D.take_run _ _ _ _ (by simp)]
  simp only [D.run]
  rw [leNat_leBytes 4 _ (by have := x.toNat_lt; omega)]
  simp

theorem f64_run (x : UInt64) (rest : Bytes) : D.f64.run (f64le x ++ rest) = some (x, rest) := by
  unfold D.f64 f64le
  rw [D.take_run _ _ _ _ (by simp)]
  simp only [D.run]
  rw [leNat_leBytes 8 _ (by have := x.toNat_lt; omega)]
  simp

@[simp] theorem f32le_length (x : UInt32) : (f32le x).length = 4 := by simp [f32le]
@[simp] theorem f64le_length (x : UInt64) : (f64le x).length = 8 := by simp [f64le]

theorem frame_run (f : Frame) (rest : Bytes) :
    (D.rep f.length D.f32).run (encFrame f ++ rest) = some (f, rest) :=
  D.rep_run D.f32 f32le f rest (fun x _ r => f32_run x r)

theorem frames_run (k : Nat) (frs : List Frame) (rest : Bytes) (hk : ∀ f ∈ frs, f.length = k) :
    (D.rep frs.length (D.rep k D.f32)).run (encFrames frs ++ rest) = some (frs, rest) :=
  D.rep_run _ encFrame frs rest (fun f hf r => by rw [← hk f hf]; exact frame_run f r)

theorem encFrame_length (f : Frame) : (encFrame f).length = 4 * f.length := by
  induction f with
  | nil => rfl
  | cons x xs ih => simp [encFrame, List.flatMap_cons] at ih ⊢; omega

theorem flatMap_length_const (e : β → Bytes) (w : Nat) (rs : List β)
    (h : ∀ r ∈ rs, (e r).length = w) : (rs.flatMap e).length = rs.length * w := by
  induction rs with
  | nil => simp
  | cons r rs ih =>
    simp only [List.flatMap_cons, List.length_append, List.length_cons]
    rw [h r (by simp), ih (fun x hx => h x (by simp [hx])), Nat.succ_mul]; omega

theorem encFrames_length (k : Nat) (frs : List Frame) (hk : ∀ f ∈ frs, f.length = k) :
    (encFrames frs).length = frs.length * (4 * k) :=
  flatMap_length_const encFrame (4 * k) frs (fun f hf => by rw [encFrame_length, hk f hf])

/-- C01/C05: reader ∘ writer = identity on tracks with gaps, consuming exactly what was written -/
theorem decRuns_run (k : Nat) (fs : List (Option Frame)) (rest : Bytes)
    (hk : ∀ fr, some fr ∈ fs → fr.length = k) (hn : fs.length < 2147483648) :
    (decRuns k fs.length).run (encRuns fs ++ rest) = some (fs, rest) := by
  have hcan := runs_canonical fs
  have hb := canonicalFrom_bounds _ _ _ hcan
  have hlen : (runs fs).length < 2147483648 := by
    have : (segTable (runs fs)).length = (runs fs).length := by simp [segTable]
    omega
  unfold decRuns encRuns
  simp only [D.bind_eq, List.append_assoc]
  rw [D.bind_run_of _ _ _ _ _ (nat32_run _ _ hlen)]
  rw [D.bind_run_of _ _ _ _ _ (D.pad_run 4 _)]
  have hseg : ((runs fs).flatMap fun r => i32le ↑r.fst ++ i32le ↑r.snd.length)
      = (segTable (runs fs)).flatMap (fun sn => i32le ↑sn.1 ++ i32le ↑sn.2) := by
    simp [segTable, List.flatMap_map]
  rw [hseg]
  have hl : (runs fs).length = (segTable (runs fs)).length := by simp [segTable]
  rw [hl]
  rw [D.bind_run_of _ _ _ _ _ (D.rep_run _ (fun sn : Nat × Nat => i32le ↑sn.1 ++ i32le ↑sn.2) _ _ (by
    intro sn hsn r
    have := hb.1 sn hsn
    simp only [List.append_assoc]
    rw [D.bind_run_of _ _ _ _ _ (nat32_run sn.1 _ (by omega))]
    rw [D.bind_run_of _ _ _ _ _ (nat32_run sn.2 _ (by omega))]
    rfl))]
  have : segTable (runs fs) = (runs fs).map (fun r => (r.1, r.2.length)) := rfl
  rw [this]
  rw [D.bind_run_of _ _ _ _ _ (D.forM'_run _ (fun r : Nat × List Frame => encFrames r.2) _ _ _ (by
    intro r hr rr
    rw [D.bind_run_of _ _ _ _ _ (frames_run k r.2 _ (by
      intro f hf
      exact hk f (runsFrom_mem fs 0 r hr f hf)))]
    rfl))]
  rw [fill_runs]
  rfl

theorem foldl_add_eq (g : β → Nat) (init : Nat) (rs : List β) :
    rs.foldl (fun acc r => acc + g r) init = init + (rs.map g).sum := by
  induction rs generalizing init with
  | nil => simp
  | cons r rs ih => simp [ih]; omega

theorem flatMap_length_eq (e : β → Bytes) (g : β → Nat) (rs : List β)
    (h : ∀ r ∈ rs, (e r).length = g r) : (rs.flatMap e).length = (rs.map g).sum := by
  induction rs with
  | nil => simp
  | cons r rs ih =>
    simp [List.flatMap_cons, h r (by simp), ih (fun x hx => h x (by simp [hx]))]

/-- C02: the size `nBytes` computes term by term is the number of bytes written -/
theorem encRuns_length (k : Nat) (fs : List (Option Frame))
    (hk : ∀ fr, some fr ∈ fs → fr.length = k) : (encRuns fs).length = sizeRuns k fs := by
  unfold encRuns sizeRuns
  rw [foldl_add_eq]
  simp only [List.length_append, i32le, leBytes_length, zeros_length]
  rw [flatMap_length_eq _ (fun _ => 8) _ (by intro r _; simp)]
  rw [flatMap_length_eq _ (fun r => r.2.length * (4 * k)) _ (by
    intro r hr
    exact encFrames_length k r.2 (fun f hf => hk f (runsFrom_mem fs 0 r hr f hf)))]
  have : ∀ (rs : List (Nat × List Frame)),
      ((rs.map fun _ => 8).sum + (rs.map fun r => r.2.length * (4 * k)).sum)
        = (rs.map fun r => 4 + 4 + r.2.length * (4 * k)).sum := by
    intro rs; induction rs with
    | nil => simp
    | cons r rs ih => simp at ih ⊢; omega
  have := this (runs fs)
  omega

end Tdf

namespace Tdf
variable {α : Type}

/-- value stored for frame `j` by a segment table: the first run that covers `j` -/
def lookupRuns (rs : List (Nat × List α)) (j : Nat) : Option α :=
  rs.findSome? (fun r => if r.1 ≤ j then r.2[j - r.1]? else none)

/-- the runs cover exactly the present frames, and carry their values -/
theorem lookup_runsFrom (fs : List (Option α)) (i j : Nat) :
    lookupRuns (runsFrom i fs) j = if i ≤ j then (fs[j - i]?).join else none := by
  induction fs generalizing i with
  | nil => simp [runsFrom, lookupRuns]
  | cons f fs ih =>
    have ih' := ih (i+1)
    cases f with
    | none =>
      simp only [runsFrom]
      rw [ih']
      by_cases h1 : i + 1 ≤ j
      · have : i ≤ j := by omega
        have e : j - i = (j - (i+1)) + 1 := by omega
        simp [h1, this, e]
      · by_cases h2 : i ≤ j
        · have : j - i = 0 := by omega
          simp [h1, h2, this]
        · simp [h1, h2]
    | some a =>
      simp only [runsFrom]
      split
      · rename_i s as rest heq
        rw [heq] at ih'
        split
        · rename_i hs; subst hs
          simp only [lookupRuns, List.findSome?_cons] at ih' ⊢
          by_cases h2 : i ≤ j
          · by_cases h1 : i + 1 ≤ j
            · have e : j - i = (j - (i+1)) + 1 := by omega
              simp only [h1, h2, if_true] at ih' ⊢
              rw [e]; simpa using ih'
            · have : j - i = 0 := by omega
              simp [h2, this]
          · have h1 : ¬ i + 1 ≤ j := by omega
            simpa [h1, h2] using ih'
        · simp only [lookupRuns, List.findSome?_cons] at ih' ⊢
          by_cases h2 : i ≤ j
          · by_cases h1 : i + 1 ≤ j
            · have e : j - i = (j - (i+1)) + 1 := by omega
              simp only [h1, h2, if_true] at ih' ⊢
              rw [e]; simpa using ih'
            · have : j - i = 0 := by omega
              simp [h2, this]
          · have h1 : ¬ i + 1 ≤ j := by omega
            simpa [h1, h2] using ih'
      · rename_i heq
        rw [heq] at ih'
        simp only [lookupRuns, List.findSome?_cons, List.findSome?_nil] at ih' ⊢
        by_cases h2 : i ≤ j
        · by_cases h1 : i + 1 ≤ j
          · have e : j - i = (j - (i+1)) + 1 := by omega
            simp only [h1, h2, if_true] at ih' ⊢
            rw [e]; simpa using ih'
          · have : j - i = 0 := by omega
            simp [h2, this]
        · simp [h2]

theorem lookup_runs (fs : List (Option α)) (j : Nat) :
    lookupRuns (runs fs) j = (fs[j]?).join := by
  have := lookup_runsFrom fs 0 j
  simpa [runs] using this

end Tdf
