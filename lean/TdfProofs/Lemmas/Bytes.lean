import TdfModel.Bytes
namespace Tdf

@[simp] theorem leBytes_length (k n : Nat) : (leBytes k n).length = k := by
  induction k generalizing n with
  | zero => rfl
  | succ k ih => simp [leBytes, ih]

theorem leNat_leBytes (k n : Nat) (h : n < 256 ^ k) : leNat (leBytes k n) = n := by
  induction k generalizing n with
  | zero => simp [leBytes, leNat] at *; omega
  | succ k ih =>
    have h2 : n / 256 < 256 ^ k := by
      rw [Nat.pow_succ] at h
      exact Nat.div_lt_of_lt_mul (by omega)
    simp [leBytes, leNat, ih _ h2]
    omega

theorem leNat_lt (bs : Bytes) : leNat bs < 256 ^ bs.length := by
  induction bs with
  | nil => simp [leNat]
  | cons b bs ih =>
    have := b.toNat_lt
    simp [leNat, Nat.pow_succ]
    omega

theorem leBytes_leNat (bs : Bytes) : leBytes bs.length (leNat bs) = bs := by
  induction bs with
  | nil => rfl
  | cons b bs ih =>
    have hb := b.toNat_lt
    have h1 : (b.toNat + 256 * leNat bs) % 256 = b.toNat := by omega
    have h2 : (b.toNat + 256 * leNat bs) / 256 = leNat bs := by omega
    simp [leBytes, leNat, h1, h2, ih]

theorem ofTwos_toTwos (k : Nat) (z : Int) (_hk : 0 < k)
    (h1 : -((256 ^ k : Nat) : Int) ≤ 2 * z) (h2 : 2 * z < ((256 ^ k : Nat) : Int)) :
    ofTwos k (toTwos k z) = z := by
  have hpos : (0 : Int) < ((256 ^ k : Nat) : Int) := by
    have : 0 < 256 ^ k := Nat.pow_pos (by decide)
    omega
  unfold ofTwos toTwos
  by_cases hz : 0 ≤ z
  · have : z % ((256 ^ k : Nat) : Int) = z := Int.emod_eq_of_lt hz (by omega)
    rw [this]
    have : ((z.toNat : Nat) : Int) = z := Int.toNat_of_nonneg hz
    split <;> omega
  · have hm : z % ((256 ^ k : Nat) : Int) = z + ((256 ^ k : Nat) : Int) := by
      have := Int.add_mul_emod_self_left z ((256 ^ k : Nat) : Int) 1
      rw [Int.mul_one] at this
      rw [← this]
      exact Int.emod_eq_of_lt (by omega) (by omega)
    rw [hm]
    have : (((z + ((256 ^ k : Nat) : Int)).toNat : Nat) : Int) = z + ((256 ^ k : Nat) : Int) :=
      Int.toNat_of_nonneg (by omega)
    split <;> omega

theorem toTwos_lt (k : Nat) (z : Int) : toTwos k z < 256 ^ k := by
  unfold toTwos
  have hpos : (0 : Int) < ((256 ^ k : Nat) : Int) := by
    have : 0 < 256 ^ k := Nat.pow_pos (by decide)
    omega
  have h1 := Int.emod_lt_of_pos z hpos
  have h0 := Int.emod_nonneg z (Int.ne_of_gt hpos)
  omega

@[simp] theorem zeros_length (n : Nat) : (zeros n).length = n := by simp [zeros]

/-- the chunk form of an in-place write: replacing a middle segment of equal length -/
theorem writeAt_mid (pre old new post : Bytes) (h : old.length = new.length) :
    writeAt (pre ++ old ++ post) pre.length new = pre ++ new ++ post := by
  simp [writeAt, List.drop_append, h]

theorem writeAt_end (disk new : Bytes) : writeAt disk disk.length new = disk ++ new := by
  simp [writeAt]

theorem writeAt_length (disk new : Bytes) (off : Nat) :
    (writeAt disk off new).length = max disk.length (off + new.length) := by
  unfold writeAt; split <;> simp <;> omega

end Tdf
