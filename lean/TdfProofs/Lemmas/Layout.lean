import TdfProofs.Lemmas.Container
namespace Tdf

/-! facts about the layout function used by the property theorems -/

theorem liveOf_table (l : Lay) (ok : l.Ok) : liveOf l.table = liveEntries (tableStart l.n) l.bs := by
  simp only [liveOf, Lay.table, List.filter_append]
  have h1 : (liveEntries (tableStart l.n) l.bs).filter (fun e => e.typ != 0) = liveEntries (tableStart l.n) l.bs := by
    apply List.filter_eq_self.mpr
    intro e he
    obtain ⟨b, hb, ht⟩ := liveEntries_typ _ _ e he
    simp [ht, ok.live b hb]
  have h2 : (freeEntries l.eod l.fs).filter (fun e => e.typ != 0) = [] := by
    apply List.filter_eq_nil_iff.mpr
    intro e he; simp [freeEntries_typ _ _ e he]
  rw [h1, h2, List.append_nil]

theorem liveEntries_pairwise (s : Nat) (bs : List LBlock) : (liveEntries s bs).Pairwise Disjoint2 := by
  induction bs generalizing s with
  | nil => simp [liveEntries]
  | cons b bs ih =>
    simp only [liveEntries, List.pairwise_cons]
    refine ⟨?_, ih _⟩
    intro e he
    have := liveEntries_range (s + b.payload.length) bs e he
    left; simp only [liveEntry]; omega

theorem decTable_image_of (l : Lay) (ok : l.Ok) (h : Header) (hn : h.nEntries = (l.n : Int))
    (hp : ∀ rest, Header.dec.run (l.hdr ++ rest) = some (h, rest)) :
    decTable.run l.image = some ((h, l.table), dataOf l.bs) := by
  have hlen : l.table.length = l.n := by simp [Lay.table, ok.count]
  unfold decTable Lay.image
  simp only [D.bind_eq, List.append_assoc]
  rw [D.bind_run_of _ _ _ _ _ (hp _)]
  have hneg : ¬ (h.nEntries < 0) := by rw [hn]; omega
  simp only [hneg, if_false]
  have : h.nEntries.toNat = l.table.length := by rw [hn, hlen]; simp
  rw [this]
  rw [D.bind_run_of _ _ _ _ _ (D.rep_run Entry.dec Entry.enc l.table _ (fun e he r => Entry.dec_enc e (ok.valid e he) r))]
  rfl

theorem decTable_image (l : Lay) (ok : l.Ok) :
    ∃ h : Header, h.nEntries = (l.n : Int) ∧ decTable.run l.image = some ((h, l.table), dataOf l.bs) := by
  obtain ⟨h, hn, hp⟩ := ok.hdr_parse
  exact ⟨h, hn, decTable_image_of l ok h hn hp⟩

theorem wfTable_of_lay (l : Lay) (ok : l.Ok) : WFTable l.n l.image.length l.table := by
  refine ⟨?_, ?_, ?_⟩
  · rw [liveOf_table l ok, Lay.image_length l ok]
    intro e he
    have := liveEntries_range _ _ e he
    simp only [Lay.eod, tableStart] at this ⊢
    omega
  · rw [liveOf_table l ok]; exact liveEntries_pairwise _ _
  · intro e he ht
    simp only [Lay.table, List.mem_append] at he
    rcases he with he | he
    · obtain ⟨b, hb, hty⟩ := liveEntries_typ _ _ e he
      exact absurd (hty ▸ ht) (ok.live b hb)
    · simp only [freeEntries, List.mem_map] at he
      obtain ⟨f, _, rfl⟩ := he; rfl

/-- the executable oracle accepts every image of a well-formed layout -/
theorem wfB_image (l : Lay) (ok : l.Ok) : wfB l.image = true := by
  obtain ⟨h, hn, hd⟩ := decTable_image l ok
  unfold wfB
  rw [hd]
  simp only [hn, Int.toNat_natCast, decide_eq_true_eq]
  exact wfTable_of_lay l ok

theorem compactFrom_table (s : Nat) (bs : List LBlock) (fs : List FreeMeta) (hl : ∀ b ∈ bs, b.typ ≠ 0) :
    compactFrom (s : Int) (liveEntries s bs ++ freeEntries (s + (dataOf bs).length) fs)
      = some ((s + (dataOf bs).length : Nat) : Int) := by
  induction bs generalizing s with
  | nil =>
    simp only [liveEntries, List.nil_append, dataOf, List.flatMap_nil, List.length_nil, Nat.add_zero]
    cases fs with
    | nil => simp [freeEntries, compactFrom]
    | cons f fs =>
      simp only [freeEntries, List.map_cons, compactFrom, freeEntry]
      simp
      intro x hx; rfl
  | cons b bs ih =>
    have hb : b.typ ≠ 0 := hl b (by simp)
    have hlen : (dataOf (b :: bs)).length = b.payload.length + (dataOf bs).length := by
      simp [dataOf, List.flatMap_cons]
    simp only [liveEntries, List.cons_append, compactFrom, liveEntry]
    have h1 : (b.typ != 0) = true := by simp [hb]
    simp only [h1, beq_self_eq_true, Bool.and_self, Bool.true_and]
    have h2 : decide ((0 : Int) ≤ (b.payload.length : Int)) = true := by simp
    simp only [h2, if_true]
    have := ih (s + b.payload.length) (fun x hx => hl x (by simp [hx]))
    rw [hlen]
    have e1 : s + (b.payload.length + (dataOf bs).length) = s + b.payload.length + (dataOf bs).length := by omega
    rw [e1]
    simpa using this

theorem compactB_image (l : Lay) (ok : l.Ok) : compactB l.image = true := by
  obtain ⟨h, hn, hd⟩ := decTable_image l ok
  unfold compactB
  rw [hd]
  simp only [hn, Int.toNat_natCast]
  have hc := compactFrom_table (tableStart l.n) l.bs l.fs ok.live
  have e0 : ((64 : Int) + 288 * (l.n : Int)) = ((tableStart l.n : Nat) : Int) := by simp [tableStart]
  simp only [Lay.table, Lay.eod]
  rw [e0, hc]
  simp only [Bool.and_eq_true, beq_iff_eq, List.all_eq_true, Bool.or_eq_true, bne_iff_ne, ne_eq]
  refine ⟨?_, ?_⟩
  · have := Lay.image_length l ok; simp only [Lay.eod] at this; rw [this]
  · intro e he
    simp only [List.mem_append] at he
    rcases he with he | he
    · obtain ⟨b, hb, hty⟩ := liveEntries_typ _ _ e he
      left; rw [hty]; exact ok.live b hb
    · simp only [freeEntries, List.mem_map] at he
      obtain ⟨f, _, rfl⟩ := he
      right; simp [freeEntry]

theorem typesNodupB_image (l : Lay) (ok : l.Ok) : typesNodupB l.image = true := by
  obtain ⟨h, hn, hd⟩ := decTable_image l ok
  unfold typesNodupB
  rw [hd]
  simp only
  rw [liveOf_table l ok]
  have hmap : (liveEntries (tableStart l.n) l.bs).map (·.typ) = l.bs.map (·.typ) := by
    generalize tableStart l.n = s
    induction l.bs generalizing s with
    | nil => rfl
    | cons b bs ih => simp [liveEntries, liveEntry, ih]
  rw [hmap]
  have hnd := ok.nodup
  generalize l.bs.map (·.typ) = ts at hnd
  induction ts with
  | nil => rfl
  | cons a as ih =>
    simp only [List.nodup_cons] at hnd
    simp [nodupB, hnd.1, ih hnd.2]

/-- reading the byte range recorded in the i-th live entry returns exactly that block's payload -/
theorem payload_read (l : Lay) (ok : l.Ok) (pre post : List LBlock) (x : LBlock) (hbs : l.bs = pre ++ x :: post) :
    payloadOf l.state (liveEntry (tableStart l.n + (dataOf pre).length) x) = x.payload := by
  have htl : (l.hdr ++ l.table.flatMap Entry.enc).length = tableStart l.n := by
    have ht : l.table.length = l.n := by simp [Lay.table, ok.count]
    simp [ok.hdr_len, table_bytes_length l.table ok.valid, ht, tableStart]
  have himg : l.image = (l.hdr ++ l.table.flatMap Entry.enc ++ dataOf pre) ++ (x.payload ++ dataOf post) := by
    simp [Lay.image, hbs, dataOf_append, dataOf, List.flatMap_cons, List.append_assoc]
  have hlen : (l.hdr ++ l.table.flatMap Entry.enc ++ dataOf pre).length = tableStart l.n + (dataOf pre).length := by
    rw [List.length_append, htl]
  simp only [payloadOf, readAt, Lay.state, liveEntry, Int.toNat_natCast]
  rw [himg, ← hlen, List.drop_left, List.take_left]

end Tdf
