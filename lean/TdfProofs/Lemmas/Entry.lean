import TdfModel.Entry
import TdfProofs.Lemmas.RoundTrip

namespace Tdf
/-! ### jump-table entry and file header -/
theorem Entry.dec_enc (e : Entry) (h : e.valid = true) (rest : Bytes) :
    Entry.dec.run (e.enc ++ rest) = some (e, rest) := by
  simp only [Entry.valid, Bool.and_eq_true, decide_eq_true_eq] at h
  obtain ⟨⟨⟨⟨⟨⟨⟨ht, hf⟩, ho⟩, hs⟩, hc⟩, hm⟩, ha⟩, hcm⟩ := h
  have ho := (inI32_iff _).mp ho; have hs := (inI32_iff _).mp hs
  have hc := (inI32_iff _).mp hc; have hm := (inI32_iff _).mp hm; have ha := (inI32_iff _).mp ha
  unfold Entry.dec Entry.enc
  simp only [D.bind_eq, List.append_assoc]
  step (D.u32_run _ _ (by omega))
  step (D.guard_run _ _ (by simpa using ht))
  step (D.u32_run _ _ hf)
  step (D.i32_run _ _ ho.1 ho.2)
  step (D.i32_run _ _ hs.1 hs.2)
  step (D.i32_run _ _ hc.1 hc.2)
  step (D.i32_run _ _ hm.1 hm.2)
  step (D.i32_run _ _ ha.1 ha.2)
  step (D.pad_run 4 _)
  rw [text_step' 256 e.comment _ _ hcm]
  rfl

theorem Entry.enc_length (e : Entry) (h : e.valid = true) : e.enc.length = 288 := by
  simp only [Entry.valid, Bool.and_eq_true] at h
  simp [Entry.enc, u32le, i32le, strBytes_length 256 e.comment h.2]

theorem Header.dec_enc (x : Header) (h : x.valid = true) (rest : Bytes) :
    Header.dec.run (x.enc ++ rest) = some (x, rest) := by
  simp only [Header.valid, Bool.and_eq_true, decide_eq_true_eq] at h
  obtain ⟨⟨⟨⟨hv, hn⟩, hc⟩, hm⟩, ha⟩ := h
  have hn := (inI32_iff _).mp hn
  have hc := (inI32_iff _).mp hc; have hm := (inI32_iff _).mp hm; have ha := (inI32_iff _).mp ha
  unfold Header.dec Header.enc
  simp only [D.bind_eq, List.append_assoc]
  have hraw : ∀ r, (D.raw 16).run (SIG ++ r) = some (SIG, r) := fun r => D.raw_run SIG r
  step (hraw _)
  step (D.guard_run _ _ (by simp))
  step (D.u32_run _ _ hv)
  step (D.i32_run _ _ hn.1 hn.2)
  step (D.pad_run 8 _)
  step (D.i32_run _ _ hc.1 hc.2)
  step (D.i32_run _ _ hm.1 hm.2)
  step (D.i32_run _ _ ha.1 ha.2)
  step (D.pad_run 20 _)
  rfl

theorem Header.enc_length (x : Header) : x.enc.length = 64 := by
  simp [Header.enc, SIG, u32le, i32le]

end Tdf
