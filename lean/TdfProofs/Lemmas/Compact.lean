/-
  Compact.lean — the executable judges `compactB` / `wfB` (run on the bytes the real code writes)
  against declarative statements of C09 / C03: `compactFrom` succeeds exactly on tables of the shape
  "live entries chained from the start, then only unused slots", and a compact file is well formed.
-/
import TdfProofs.Lemmas.Layout
namespace Tdf

/-- offsets are the running sums of the sizes, starting at `s` -/
def Chained : Int → List Entry → Prop
  | _, [] => True
  | s, e :: es => e.off = s ∧ Chained (s + e.size) es

def sizeSum (es : List Entry) : Int := (es.map (·.size)).sum

/-- declarative C09 on a parsed table -/
structure CompactTable (start : Int) (flen : Int) (es : List Entry) : Prop where
  ex : ∃ live frees, es = live ++ frees
        ∧ (∀ e ∈ live, e.typ ≠ 0 ∧ 0 ≤ e.size)
        ∧ Chained start live
        ∧ (∀ e ∈ frees, e.typ = 0 ∧ e.size = 0 ∧ e.off = flen)
        ∧ flen = start + sizeSum live

theorem compactFrom_frees (s : Int) (fs : List Entry) (h : ∀ e ∈ fs, e.typ = 0) : compactFrom s fs = some s := by
  cases fs with
  | nil => rfl
  | cons f fs =>
    have hf : f.typ = 0 := h f (by simp)
    have hall : (f :: fs).all (fun x => x.typ == 0) = true := by
      rw [List.all_eq_true]; intro x hx; simpa using h x hx
    have hc : (f.typ != 0 && f.off == s && decide (0 ≤ f.size)) = false := by simp [hf]
    simp only [compactFrom, hc, hall, if_true, Bool.false_eq_true, if_false]

theorem compactFrom_iff (s eod : Int) (es : List Entry) :
    compactFrom s es = some eod ↔
      ∃ live frees, es = live ++ frees ∧ (∀ e ∈ live, e.typ ≠ 0 ∧ 0 ≤ e.size) ∧ Chained s live
        ∧ (∀ e ∈ frees, e.typ = 0) ∧ eod = s + sizeSum live := by
  constructor
  · intro h
    induction es generalizing s with
    | nil =>
      simp only [compactFrom, Option.some.injEq] at h
      exact ⟨[], [], rfl, by simp, trivial, by simp, by simp [sizeSum, h]⟩
    | cons e es ih =>
      simp only [compactFrom] at h
      split at h
      · rename_i hc
        simp only [Bool.and_eq_true, bne_iff_ne, ne_eq, beq_iff_eq, decide_eq_true_eq] at hc
        obtain ⟨live, frees, he, hl, hch, hf, hs⟩ := ih (s + e.size) h
        refine ⟨e :: live, frees, by simp [he], ?_, ⟨hc.1.2, hch⟩, hf, ?_⟩
        · intro x hx
          simp only [List.mem_cons] at hx
          rcases hx with rfl | hx
          · exact ⟨hc.1.1, hc.2⟩
          · exact hl x hx
        · simp only [sizeSum, List.map_cons, List.sum_cons] at hs ⊢; omega
      · split at h
        · rename_i hall
          simp only [Option.some.injEq] at h
          refine ⟨[], e :: es, rfl, by simp, trivial, ?_, by simp [sizeSum, h]⟩
          simpa only [List.all_eq_true, beq_iff_eq] using hall
        · cases h
  · rintro ⟨live, frees, rfl, hl, hch, hf, hs⟩
    induction live generalizing s with
    | nil =>
      simp only [List.nil_append]
      rw [compactFrom_frees s frees hf]; simp [sizeSum] at hs; simp [hs]
    | cons e live ih =>
      have he := hl e (by simp)
      have hc : (e.typ != 0 && e.off == s && decide (0 ≤ e.size)) = true := by
        simp [he.1, he.2, hch.1]
      simp only [List.cons_append, compactFrom, hc, if_true]
      apply ih (s + e.size) (fun x hx => hl x (by simp [hx])) hch.2
      simp only [sizeSum, List.map_cons, List.sum_cons] at hs ⊢; omega

/-- a chain of non-negative sizes stays inside `[s, s + Σ sizes]` and its ranges are pairwise disjoint -/
theorem chained_bounds (s : Int) (live : List Entry) (hch : Chained s live) (hl : ∀ e ∈ live, 0 ≤ e.size) :
    (∀ e ∈ live, s ≤ e.off ∧ e.off + e.size ≤ s + sizeSum live) ∧ live.Pairwise Disjoint2 := by
  induction live generalizing s with
  | nil => simp
  | cons e live ih =>
    have he := hl e (by simp)
    obtain ⟨i1, i2⟩ := ih (s + e.size) hch.2 (fun x hx => hl x (by simp [hx]))
    have hsum : sizeSum (e :: live) = e.size + sizeSum live := by simp [sizeSum]
    have hnn : 0 ≤ sizeSum live := by
      clear i1 i2 ih hch hsum
      induction live with
      | nil => simp [sizeSum]
      | cons x xs ihx =>
        have := hl x (by simp)
        have := ihx (fun y hy => hl y (by
          simp only [List.mem_cons] at hy ⊢
          rcases hy with rfl | hy
          · exact Or.inl rfl
          · exact Or.inr (Or.inr hy)))
        simp only [sizeSum, List.map_cons, List.sum_cons] at this ⊢; omega
    refine ⟨?_, ?_⟩
    · intro x hx
      simp only [List.mem_cons] at hx
      rcases hx with rfl | hx
      · rw [hsum, hch.1]; omega
      · have := i1 x hx; rw [hsum]; omega
    · rw [List.pairwise_cons]
      refine ⟨?_, i2⟩
      intro x hx
      have := i1 x hx
      left; rw [hch.1]; omega

theorem liveOf_append_frees (live frees : List Entry) (hl : ∀ e ∈ live, e.typ ≠ 0) (hf : ∀ e ∈ frees, e.typ = 0) :
    liveOf (live ++ frees) = live := by
  simp only [liveOf, List.filter_append]
  have h1 : live.filter (fun e => e.typ != 0) = live := by
    rw [List.filter_eq_self]; intro e he; simpa using hl e he
  have h2 : frees.filter (fun e => e.typ != 0) = [] := by
    rw [List.filter_eq_nil_iff]; intro e he; simp [hf e he]
  rw [h1, h2, List.append_nil]

/-- C09 ⇒ C03 on a parsed table -/
theorem CompactTable.wf (n flen : Nat) (es : List Entry) (h : CompactTable (64 + 288 * n : Int) flen es) :
    WFTable n flen es := by
  obtain ⟨live, frees, rfl, hl, hch, hf, hs⟩ := h.ex
  have hlive := liveOf_append_frees live frees (fun e he => (hl e he).1) (fun e he => (hf e he).1)
  obtain ⟨b1, b2⟩ := chained_bounds _ live hch (fun e he => (hl e he).2)
  refine ⟨?_, ?_, ?_⟩
  · rw [hlive]; intro e he
    have := b1 e he
    exact ⟨this.1, (hl e he).2, by omega⟩
  · rw [hlive]; exact b2
  · intro e he ht
    simp only [List.mem_append] at he
    rcases he with he | he
    · exact absurd ht (hl e he).1
    · exact (hf e he).2.1

/-- the table part of `compactB`, for an arbitrary start offset -/
def compactTableB (start flen : Int) (es : List Entry) : Bool :=
  match compactFrom start es with
  | none => false
  | some eod => eod == flen && es.all (fun e => e.typ != 0 || (e.size == 0 && e.off == eod))

theorem compactB_eq (file : Bytes) :
    compactB file = match decTable.run file with
      | none => false
      | some ((h, es), _) => compactTableB (64 + 288 * h.nEntries.toNat) file.length es := rfl

theorem compactTableB_iff (start flen : Int) (es : List Entry) :
    compactTableB start flen es = true ↔ CompactTable start flen es := by
  unfold compactTableB
  constructor
  · intro hb
    cases hc : compactFrom start es with
    | none => rw [hc] at hb; cases hb
    | some eod =>
      rw [hc] at hb
      simp only [Bool.and_eq_true, beq_iff_eq, List.all_eq_true, Bool.or_eq_true, bne_iff_ne, ne_eq] at hb
      obtain ⟨live, frees, he, hl, hch, hf, hs⟩ := (compactFrom_iff _ _ _).mp hc
      refine ⟨live, frees, he, hl, hch, ?_, by rw [← hb.1]; exact hs⟩
      intro e hef
      have hmem : e ∈ es := by rw [he]; simp [hef]
      have ht := hf e hef
      rcases hb.2 e hmem with h1 | h1
      · exact absurd ht h1
      · exact ⟨ht, h1.1, by rw [h1.2, hb.1]⟩
  · intro hc
    obtain ⟨live, frees, he, hl, hch, hf, hs⟩ := hc.ex
    have hcf : compactFrom start es = some flen :=
      (compactFrom_iff _ _ _).mpr ⟨live, frees, he, hl, hch, fun e hx => (hf e hx).1, hs⟩
    rw [hcf]
    simp only [Bool.and_eq_true, beq_iff_eq, List.all_eq_true, Bool.or_eq_true, bne_iff_ne, ne_eq, true_and]
    intro e hmem
    rw [he, List.mem_append] at hmem
    rcases hmem with hm | hm
    · exact Or.inl (hl e hm).1
    · exact Or.inr ⟨(hf e hm).2.1, (hf e hm).2.2⟩

/-- the executable judge `compactB` decides the declarative statement: exact, not merely sound -/
theorem compactB_iff (file : Bytes) :
    compactB file = true ↔
      ∃ h es rest, decTable.run file = some ((h, es), rest)
        ∧ CompactTable (64 + 288 * h.nEntries.toNat : Int) file.length es := by
  rw [compactB_eq]
  constructor
  · intro hb
    cases hd : decTable.run file with
    | none => rw [hd] at hb; cases hb
    | some r =>
      obtain ⟨⟨h, es⟩, rest⟩ := r
      rw [hd] at hb
      exact ⟨h, es, rest, rfl, (compactTableB_iff _ _ _).mp hb⟩
  · rintro ⟨h, es, rest, hd, hc⟩
    rw [hd]
    exact (compactTableB_iff _ _ _).mpr hc

/-- whenever the compactness judge accepts a file, the well-formedness judge accepts it too -/
theorem compactB_wfB (file : Bytes) (h : compactB file = true) : wfB file = true := by
  obtain ⟨hd, es, rest, hrun, hc⟩ := (compactB_iff file).mp h
  simp only [wfB, hrun, decide_eq_true_eq]
  exact hc.wf _ _ _

/-- the header and table of a well-formed layout parse whatever follows them -/
theorem decTable_prefix (l : Lay) (ok : l.Ok) (rest : Bytes) :
    ∃ h : Header, h.nEntries = (l.n : Int) ∧ (∀ r, Header.dec.run (l.hdr ++ r) = some (h, r)) ∧
      decTable.run ((l.hdr ++ l.table.flatMap Entry.enc) ++ rest) = some ((h, l.table), rest) := by
  obtain ⟨h, hn, hp⟩ := ok.hdr_parse
  refine ⟨h, hn, hp, ?_⟩
  have hlen : l.table.length = l.n := by simp [Lay.table, ok.count]
  unfold decTable
  simp only [D.bind_eq, List.append_assoc]
  rw [D.bind_run_of _ _ _ _ _ (hp _)]
  have hneg : ¬ (h.nEntries < 0) := by rw [hn]; omega
  simp only [hneg, if_false]
  have : h.nEntries.toNat = l.table.length := by rw [hn, hlen]; simp
  rw [this]
  rw [D.bind_run_of _ _ _ _ _ (D.rep_run Entry.dec Entry.enc l.table _ (fun e he r => Entry.dec_enc e (ok.valid e he) r))]
  rfl

theorem decTable_image_append (l : Lay) (ok : l.Ok) (junk : Bytes) :
    ∃ h : Header, h.nEntries = (l.n : Int) ∧
      decTable.run (l.image ++ junk) = some ((h, l.table), dataOf l.bs ++ junk) := by
  obtain ⟨h, hn, hp⟩ := ok.hdr_parse
  refine ⟨h, hn, ?_⟩
  have hlen : l.table.length = l.n := by simp [Lay.table, ok.count]
  unfold decTable Lay.image
  simp only [D.bind_eq, List.append_assoc]
  rw [D.bind_run_of _ _ _ _ _ (hp _)]
  have hneg : ¬ (h.nEntries < 0) := by rw [hn]; omega
  simp only [hneg, if_false]
  have : h.nEntries.toNat = l.table.length := by rw [hn, hlen]; simp
  rw [this]
  rw [D.bind_run_of _ _ _ _ _ (D.rep_run Entry.dec Entry.enc l.table _ (fun e he r => Entry.dec_enc e (ok.valid e he) r))]
  rfl

/-- bytes left after the last live block (a leaked tail) make the judge refuse the file -/
theorem compactB_leak (l : Lay) (ok : l.Ok) (junk : Bytes) (hj : junk ≠ []) :
    compactB (l.image ++ junk) = false := by
  obtain ⟨h, hn, hd⟩ := decTable_image_append l ok junk
  rw [compactB_eq, hd]
  simp only [hn, Int.toNat_natCast]
  have hc := compactFrom_table (tableStart l.n) l.bs l.fs ok.live
  have e0 : ((64 : Int) + 288 * (l.n : Int)) = ((tableStart l.n : Nat) : Int) := by simp [tableStart]
  unfold compactTableB
  simp only [Lay.table, Lay.eod]
  rw [e0, hc]
  have hlen := Lay.image_length l ok
  simp only [Lay.eod] at hlen
  have hj' : 0 < junk.length := List.length_pos_iff.mpr hj
  have : ((tableStart l.n + (dataOf l.bs).length : Nat) : Int) ≠ ((l.image ++ junk).length : Int) := by
    rw [List.length_append, hlen]; omega
  show ((_ : Int) == _ && _) = false
  rw [Bool.and_eq_false_iff]; left
  exact beq_eq_false_iff_ne.mpr this

end Tdf
