/-
  Foreign.lean — remove_block on ANY well-formed table: entries in any order, gaps between the blocks
  (files written by other software). Table level: what `removeBlock` leaves in `entries`.
-/
import TdfProofs.Lemmas.Layout
namespace Tdf

theorem findIdxBy_some (p : Entry → Bool) (es : List Entry) (i : Nat) (h : findIdxBy p es = some i) :
    ∃ e, es[i]? = some e ∧ p e = true ∧ es = es.take i ++ e :: es.drop (i + 1) := by
  induction es generalizing i with
  | nil => simp [findIdxBy] at h
  | cons x xs ih =>
    unfold findIdxBy at h
    by_cases hx : p x = true
    · simp only [hx, if_true, Option.some.injEq] at h
      subst h
      exact ⟨x, by simp, hx, by simp⟩
    · simp only [hx, Bool.false_eq_true, if_false] at h
      cases hf : findIdxBy p xs with
      | none => simp [hf] at h
      | some j =>
        simp only [hf, Option.map_some, Option.some.injEq] at h
        subst h
        obtain ⟨e, h1, h2, h3⟩ := ih j hf
        refine ⟨e, by simpa using h1, h2, ?_⟩
        simp only [List.take_succ_cons, List.drop_succ_cons, List.cons_append]
        rw [← h3]

@[simp] theorem shiftAfter_typ (old x : Entry) : (shiftAfter old x).typ = x.typ := by
  unfold shiftAfter; split <;> rfl
@[simp] theorem shiftAfter_size (old x : Entry) : (shiftAfter old x).size = x.size := by
  unfold shiftAfter; split <;> rfl

theorem liveOf_map_shift (old : Entry) (es : List Entry) : liveOf (es.map (shiftAfter old)) = (liveOf es).map (shiftAfter old) := by
  induction es with
  | nil => rfl
  | cons x xs ih =>
    simp only [liveOf, List.map_cons, List.filter_cons, shiftAfter_typ] at ih ⊢
    split
    · simp [ih]
    · exact ih

/-- a live range that does not overlap the removed one, after the move: still after the table, inside the shorter
    file, and (`shift_disjoint`) still disjoint from every other one -/
theorem shift_range (tend : Int) (flen : Nat) (old e : Entry)
    (hold : tend ≤ old.off ∧ 0 ≤ old.size ∧ old.off + old.size ≤ flen)
    (he : tend ≤ e.off ∧ 0 ≤ e.size ∧ e.off + e.size ≤ flen) (hd : Disjoint2 old e) :
    tend ≤ (shiftAfter old e).off ∧ 0 ≤ (shiftAfter old e).size
      ∧ (shiftAfter old e).off + (shiftAfter old e).size ≤ ((flen - old.size.toNat : Nat) : Int) := by
  unfold Disjoint2 at hd
  unfold shiftAfter
  split
  · refine ⟨?_, ?_, ?_⟩ <;> simp only <;> omega
  · refine ⟨?_, ?_, ?_⟩ <;> omega

theorem shift_disjoint (old a b : Entry) (hs : 0 ≤ old.size) (ha : 0 ≤ a.size) (hb : 0 ≤ b.size)
    (hda : Disjoint2 old a) (hdb : Disjoint2 old b) (hab : Disjoint2 a b) :
    Disjoint2 (shiftAfter old a) (shiftAfter old b) := by
  unfold Disjoint2 at *
  unfold shiftAfter
  split <;> split <;> first | omega | (simp only; omega)

theorem Disjoint2.symm {a b : Entry} (h : Disjoint2 a b) : Disjoint2 b a := by
  unfold Disjoint2 at *; omega

/-- the table `remove_block` leaves in memory, for ANY well-formed table it starts from -/
theorem removeBlock_entries (s : TdfSt) (t : Nat) (now : Int) (pos : Nat) (h : findType t s.entries = some pos) :
    (removeBlock s t now).1.entries =
      (s.entries.take pos ++ s.entries.drop (pos + 1)).map (shiftAfter (s.entries.getD pos unusedEntry))
        ++ [⟨0, 0, dataEnd ((s.entries.take pos ++ s.entries.drop (pos + 1)).map (shiftAfter (s.entries.getD pos unusedEntry))) s.nEntries,
             0, now, now, now, defaultComment⟩] := by
  unfold removeBlock
  simp [h]

theorem remove_keeps_table_wf (n flen : Nat) (pre post : List Entry) (old : Entry) (fresh : Entry)
    (hlive : old.typ ≠ 0) (hf : fresh.typ = 0 ∧ fresh.size = 0)
    (hwf : WFTable n flen (pre ++ old :: post)) :
    WFTable n (flen - old.size.toNat) ((pre ++ post).map (shiftAfter old) ++ [fresh]) := by
  obtain ⟨hrange, hpair, hunused⟩ := hwf
  have hl : liveOf (pre ++ old :: post) = liveOf pre ++ old :: liveOf post := by
    simp [liveOf, List.filter_append, List.filter_cons, hlive]
  have hold := hrange old (by rw [hl]; simp)
  rw [hl] at hpair hrange
  -- every other live entry is disjoint from the removed one
  have hdis : ∀ x ∈ liveOf pre ++ liveOf post, Disjoint2 old x := by
    intro x hx
    rw [List.pairwise_append] at hpair
    obtain ⟨_, h2, h3⟩ := hpair
    rcases List.mem_append.mp hx with hx | hx
    · exact (h3 x hx old (by simp)).symm
    · exact (List.pairwise_cons.mp h2).1 x hx
  have hpair' : (liveOf pre ++ liveOf post).Pairwise Disjoint2 := by
    refine hpair.sublist ?_
    exact List.Sublist.append (List.Sublist.refl _) (List.sublist_cons_self _ _)
  have hnew : liveOf ((pre ++ post).map (shiftAfter old) ++ [fresh]) = (liveOf pre ++ liveOf post).map (shiftAfter old) := by
    have : liveOf [fresh] = [] := by simp [liveOf, hf.1]
    have h1 : liveOf ((pre ++ post).map (shiftAfter old) ++ [fresh]) = liveOf ((pre ++ post).map (shiftAfter old)) ++ liveOf [fresh] := by
      simp [liveOf, List.filter_append]
    rw [h1, this, List.append_nil, liveOf_map_shift]
    simp [liveOf, List.filter_append]
  refine ⟨?_, ?_, ?_⟩
  · intro e he
    rw [hnew] at he
    obtain ⟨x, hx, rfl⟩ := List.mem_map.mp he
    have hxr := hrange x (by
      rcases List.mem_append.mp hx with h | h
      · exact List.mem_append.mpr (Or.inl h)
      · exact List.mem_append.mpr (Or.inr (List.mem_cons_of_mem _ h)))
    exact shift_range _ flen old x hold hxr (hdis x hx)
  · rw [hnew, List.pairwise_map]
    refine List.Pairwise.imp_of_mem ?_ hpair'
    intro a b ha hb hab
    have har := hrange a (by
      rcases List.mem_append.mp ha with h | h
      · exact List.mem_append.mpr (Or.inl h)
      · exact List.mem_append.mpr (Or.inr (List.mem_cons_of_mem _ h)))
    have hbr := hrange b (by
      rcases List.mem_append.mp hb with h | h
      · exact List.mem_append.mpr (Or.inl h)
      · exact List.mem_append.mpr (Or.inr (List.mem_cons_of_mem _ h)))
    exact shift_disjoint old a b hold.2.1 har.2.1 hbr.2.1 (hdis a ha) (hdis b hb) hab
  · intro e he ht
    rcases List.mem_append.mp he with he | he
    · obtain ⟨x, hx, rfl⟩ := List.mem_map.mp he
      rw [shiftAfter_typ] at ht
      rw [shiftAfter_size]
      exact hunused x (by
        rcases List.mem_append.mp hx with h | h
        · exact List.mem_append.mpr (Or.inl h)
        · exact List.mem_append.mpr (Or.inr (List.mem_cons_of_mem _ h))) ht
    · simp at he; subst he; exact hf.2

/-- the table `add_block` leaves in memory when it accepts the block -/
theorem addBlock_entries (s : TdfSt) (b : BlkArg) (c : Str) (now : Int) (pos : Nat) (pl : Bytes)
    (hd : hasType b.typ s.entries = false) (hf : firstUnused s.entries = some pos) (hchk : checkArg b c now = .ok pl)
    (hh : (s.entries.drop (pos + 1)).any (fun e => e.typ != 0) = false) :
    (addBlock s b c now).1.entries =
      s.entries.take pos ++ (⟨b.typ, b.fmt, (s.entries.getD pos unusedEntry).off, b.size, b.cdate, b.mdate, now, c⟩ : Entry)
        :: (s.entries.drop (pos + 1)).map (fun x => { x with off := (s.entries.getD pos unusedEntry).off + b.size }) := by
  unfold addBlock
  simp [hd, hf, hchk, hh]

theorem add_keeps_table_wf (n flen : Nat) (pre post : List Entry) (slot new : Entry) (off' : Int)
    (hslot : slot.typ = 0) (hnew : new.typ ≠ 0) (hoff : new.off = slot.off) (hsz : 0 ≤ new.size)
    (hpost : ∀ e ∈ post, e.typ = 0)
    (htab : (64 + 288 * n : Int) ≤ slot.off)
    (hend : ∀ e ∈ liveOf (pre ++ slot :: post), e.off + e.size ≤ slot.off)
    (hwf : WFTable n flen (pre ++ slot :: post)) :
    WFTable n (max flen (new.off + new.size).toNat) (pre ++ new :: post.map (fun x => { x with off := off' })) := by
  obtain ⟨hrange, hpair, hunused⟩ := hwf
  have hpostlive : liveOf post = [] := by
    apply List.filter_eq_nil_iff.mpr
    intro e he; simp [hpost e he]
  have hl : liveOf (pre ++ slot :: post) = liveOf pre := by
    simp [liveOf, List.filter_append, List.filter_cons, hslot] at hpostlive ⊢
    exact hpostlive
  have hpostlive' : liveOf (post.map (fun x => { x with off := off' })) = [] := by
    apply List.filter_eq_nil_iff.mpr
    intro e he
    obtain ⟨x, hx, rfl⟩ := List.mem_map.mp he
    simp [hpost x hx]
  have hl' : liveOf (pre ++ new :: post.map (fun x => { x with off := off' })) = liveOf pre ++ [new] := by
    simp [liveOf, List.filter_append, List.filter_cons, hnew] at hpostlive' ⊢
    exact hpostlive'
  rw [hl] at hrange hpair hend
  refine ⟨?_, ?_, ?_⟩
  · intro e he
    rw [hl'] at he
    rcases List.mem_append.mp he with he | he
    · have := hrange e he
      refine ⟨this.1, this.2.1, ?_⟩
      have h2 := this.2.2
      omega
    · simp at he; subst he
      refine ⟨by omega, hsz, ?_⟩
      omega
  · rw [hl', List.pairwise_append]
    refine ⟨hpair, by simp, ?_⟩
    intro a ha b' hb
    simp at hb; subst hb
    unfold Disjoint2
    have := hend a ha
    omega
  · intro e he ht
    rcases List.mem_append.mp he with he | he
    · exact hunused e (List.mem_append.mpr (Or.inl he)) ht
    · rcases List.mem_cons.mp he with rfl | he
      · exact absurd ht hnew
      · obtain ⟨x, hx, rfl⟩ := List.mem_map.mp he
        exact hunused x (List.mem_append.mpr (Or.inr (List.mem_cons_of_mem _ hx))) (hpost x hx)

/-! ### replace_block on ANY table: refused before anything is touched, or carried out -/

theorem eraseFirst_eq (p : Entry → Bool) (es : List Entry) (pos : Nat) (h : findIdxBy p es = some pos) :
    eraseFirst p es = es.take pos ++ es.drop (pos + 1) := by
  induction es generalizing pos with
  | nil => simp [findIdxBy] at h
  | cons x xs ih =>
    unfold findIdxBy at h
    unfold eraseFirst
    by_cases hx : p x = true
    · simp only [hx, if_true, Option.some.injEq] at h ⊢
      subst h; simp
    · simp only [hx, Bool.false_eq_true, if_false] at h ⊢
      cases hf : findIdxBy p xs with
      | none => simp [hf] at h
      | some j =>
        simp only [hf, Option.map_some, Option.some.injEq] at h
        subst h
        rw [ih j hf]
        simp

theorem find_some_findIdx (p : Entry → Bool) (es : List Entry) (old : Entry) (h : es.find? p = some old) :
    ∃ pos, findIdxBy p es = some pos := by
  induction es with
  | nil => simp at h
  | cons x xs ih =>
    unfold findIdxBy
    by_cases hx : p x = true
    · exact ⟨0, by simp [hx]⟩
    · simp only [List.find?_cons, hx] at h
      obtain ⟨j, hj⟩ := ih h
      exact ⟨j + 1, by simp [hx, hj]⟩

theorem findIdxBy_map_shift (old : Entry) (q : Nat → Bool) (es : List Entry) :
    findIdxBy (fun e => q e.typ) (es.map (shiftAfter old)) = findIdxBy (fun e => q e.typ) es := by
  induction es with
  | nil => rfl
  | cons x xs ih => simp only [List.map_cons, findIdxBy, shiftAfter_typ, ih]

theorem findIdxBy_append_fresh (p : Entry → Bool) (es : List Entry) (f : Entry) (hf : p f = true) :
    findIdxBy p (es ++ [f]) = some ((findIdxBy p es).getD es.length) := by
  induction es with
  | nil => simp [findIdxBy, hf]
  | cons x xs ih =>
    simp only [List.cons_append, findIdxBy]
    by_cases hx : p x = true
    · simp [hx]
    · simp only [hx, Bool.false_eq_true, if_false, ih, Option.map_some]
      cases hq : findIdxBy p xs with
      | none => simp
      | some j => simp

theorem addBlock_ok (s : TdfSt) (b : BlkArg) (c : Str) (now : Int) (pos : Nat) (pl : Bytes)
    (hd : hasType b.typ s.entries = false) (hf : firstUnused s.entries = some pos) (hchk : checkArg b c now = .ok pl)
    (hh : (s.entries.drop (pos + 1)).any (fun e => e.typ != 0) = false) :
    (addBlock s b c now).2 = .ok := by
  unfold addBlock
  simp [hd, hf, hchk, hh]

/-- on what a removal leaves (the remaining entries, moved, plus a fresh unused slot at the end) `add_block` succeeds whenever the
    remaining entries hold no block of that type and no live entry behind their first unused slot -/
theorem add_after_remove_ok (rest : List Entry) (oldE fresh : Entry) (hfr : fresh.typ = 0) (s1 : TdfSt)
    (hs1e : s1.entries = rest.map (shiftAfter oldE) ++ [fresh]) (b : BlkArg) (c : Str) (now : Int) (pl : Bytes)
    (hty : b.typ ≠ 0) (hone : hasType b.typ rest = false) (hhole' : holeIn rest = false)
    (hchk : checkArg b c now = .ok pl) : (addBlock s1 b c now).2 = .ok := by
  have hd1 : hasType b.typ s1.entries = false := by
    rw [hs1e]
    unfold hasType at hone ⊢
    rw [List.any_append]
    have h1 : (rest.map (shiftAfter oldE)).any (fun x => x.typ == b.typ) = false := by
      rw [List.any_map]
      simpa [Function.comp_def] using hone
    have h2 : ([fresh] : List Entry).any (fun x => x.typ == b.typ) = false := by
      simp [hfr]; exact fun hh => hty hh.symm
    simp [h1, h2]
  have hfu : firstUnused s1.entries = some ((firstUnused rest).getD rest.length) := by
    rw [hs1e]
    unfold firstUnused
    have := findIdxBy_append_fresh (fun e => e.typ == 0) (rest.map (shiftAfter oldE)) fresh (by simp [hfr])
    rw [this, findIdxBy_map_shift oldE (fun t => t == 0) rest]
    simp
  have hnh : (s1.entries.drop ((firstUnused rest).getD rest.length + 1)).any (fun e => e.typ != 0) = false := by
    rw [hs1e]
    unfold holeIn at hhole'
    cases hq : firstUnused rest with
    | none =>
      simp only [Option.getD_none]
      have : (rest.map (shiftAfter oldE) ++ [fresh]).drop (rest.length + 1) = [] := by
        apply List.drop_eq_nil_of_le; simp
      rw [this]; rfl
    | some q =>
      simp only [hq] at hhole'
      simp only [Option.getD_some]
      have hqlt : q < rest.length := by
        obtain ⟨x, hx, _, _⟩ := findIdxBy_some _ _ _ hq
        exact (List.getElem?_eq_some_iff.mp hx).1
      rw [List.drop_append_of_le_length (by simp; omega), List.any_append, ← List.map_drop, List.any_map]
      have : ((rest.drop (q + 1)).any ((fun e => e.typ != 0) ∘ shiftAfter oldE)) = (rest.drop (q + 1)).any (fun e => e.typ != 0) := by
        congr 1; funext x; simp
      rw [this, hhole']
      simp [hfr]
  exact addBlock_ok s1 b c now _ pl hd1 hfu hchk hnh

/-- EVERY state, any table (any order, gaps, unused slots anywhere): a replace that reports an error has touched neither the object nor
    the file, provided the type to replace occurs once. (The pre-check of `replace_block` anticipates everything `add_block` could
    refuse once the old block is gone.) -/
theorem replace_rejected_unchanged_any (s : TdfSt) (b : BlkArg) (c : Option Str) (now : Int) (e : Err)
    (hty : b.typ ≠ 0)
    (hone : hasType b.typ (eraseFirst (fun x => x.typ == b.typ) s.entries) = false)
    (h : (replaceBlock s b c now).2 = .err e) : (replaceBlock s b c now).1 = s := by
  unfold replaceBlock at h ⊢
  cases hfind : s.entries.find? (fun x => x.typ == b.typ) with
  | none => simp
  | some old =>
    simp only [hfind] at h ⊢
    cases hchk : checkArg b (c.getD old.comment) now with
    | error e' => simp
    | ok pl =>
      simp only [hchk] at h ⊢
      by_cases hhole : holeIn (eraseFirst (fun x => x.typ == b.typ) s.entries) = true
      · simp [hhole]
      · exfalso
        have hhole' : holeIn (eraseFirst (fun x => x.typ == b.typ) s.entries) = false := by simpa using hhole
        simp only [hhole', Bool.false_eq_true, if_false] at h
        obtain ⟨pos, hpos⟩ := find_some_findIdx _ _ _ hfind
        have hft : findType b.typ s.entries = some pos := hpos
        have hrest := eraseFirst_eq _ _ _ hpos
        have hent := removeBlock_entries s b.typ now pos hft
        have hs1 : removeBlock s b.typ now = ((removeBlock s b.typ now).1, .ok) := by
          unfold removeBlock; simp [hft]
        rw [hs1] at h
        simp only at h
        rw [← hrest] at hent
        have hok := add_after_remove_ok _ _ _ rfl _ hent b (c.getD old.comment) now pl hty hone hhole' hchk
        rw [hok] at h
        cases h

/-! ### an invariant of histories on foreign tables (table level) -/

/-- well-formed, and every unused slot points behind the jump table and behind all live data (C09's convention "unused slots carry
    the end-of-data offset", weakened to what `add_block` needs) -/
def ForeignInv (n flen : Nat) (es : List Entry) : Prop :=
  WFTable n flen es ∧ ∀ u ∈ es, u.typ = 0 → (64 + 288 * n : Int) ≤ u.off ∧ ∀ e ∈ liveOf es, e.off + e.size ≤ u.off

instance (n flen : Nat) (es : List Entry) : Decidable (ForeignInv n flen es) := by unfold ForeignInv; infer_instance

theorem foldl_max_ge (l : List Entry) (m : Int) :
    m ≤ l.foldl (fun m e => max m (e.off + e.size)) m ∧ ∀ e ∈ l, e.off + e.size ≤ l.foldl (fun m e => max m (e.off + e.size)) m := by
  induction l generalizing m with
  | nil => simp
  | cons x xs ih =>
    simp only [List.foldl_cons]
    have h := ih (max m (x.off + x.size))
    refine ⟨by omega, ?_⟩
    intro e he
    rcases List.mem_cons.mp he with rfl | he
    · omega
    · exact h.2 e he

theorem dataEnd_ge (es : List Entry) (n : Nat) :
    (64 + 288 * n : Int) ≤ dataEnd es n ∧ ∀ e ∈ liveOf es, e.off + e.size ≤ dataEnd es n := by
  unfold dataEnd
  exact foldl_max_ge (liveOf es) _

theorem remove_keeps_foreignInv (n flen : Nat) (pre post : List Entry) (old : Entry) (now : Int) (c : Str)
    (hlive : old.typ ≠ 0) (hinv : ForeignInv n flen (pre ++ old :: post)) :
    ForeignInv n (flen - old.size.toNat)
      ((pre ++ post).map (shiftAfter old) ++ [⟨0, 0, dataEnd ((pre ++ post).map (shiftAfter old)) n, 0, now, now, now, c⟩]) := by
  obtain ⟨hwf, hun⟩ := hinv
  refine ⟨remove_keeps_table_wf n flen pre post old _ hlive ⟨rfl, rfl⟩ hwf, ?_⟩
  obtain ⟨hrange, hpair, _⟩ := hwf
  have hl : liveOf (pre ++ old :: post) = liveOf pre ++ old :: liveOf post := by
    simp [liveOf, List.filter_append, hlive]
  have hold := hrange old (by rw [hl]; simp)
  have hmem : ∀ y ∈ liveOf pre ++ liveOf post, y ∈ liveOf (pre ++ old :: post) := by
    intro y hy; rw [hl]
    rcases List.mem_append.mp hy with h | h
    · exact List.mem_append.mpr (Or.inl h)
    · exact List.mem_append.mpr (Or.inr (List.mem_cons_of_mem _ h))
  have hdis : ∀ x ∈ liveOf pre ++ liveOf post, Disjoint2 old x := by
    intro x hx
    rw [hl, List.pairwise_append] at hpair
    obtain ⟨_, h2, h3⟩ := hpair
    rcases List.mem_append.mp hx with hx | hx
    · exact (h3 x hx old (by simp)).symm
    · exact (List.pairwise_cons.mp h2).1 x hx
  have hnewlive : liveOf ((pre ++ post).map (shiftAfter old) ++ [(⟨0, 0, dataEnd ((pre ++ post).map (shiftAfter old)) n, 0, now, now, now, c⟩ : Entry)])
      = (liveOf pre ++ liveOf post).map (shiftAfter old) := by
    have h1 : ∀ (l : List Entry) (f : Entry), f.typ = 0 → liveOf (l ++ [f]) = liveOf l := by
      intro l f hf; simp [liveOf, List.filter_append, hf]
    rw [h1 _ _ rfl, liveOf_map_shift]
    simp [liveOf, List.filter_append]
  intro u hu hut
  rcases List.mem_append.mp hu with hu | hu
  · obtain ⟨x, hx, rfl⟩ := List.mem_map.mp hu
    rw [shiftAfter_typ] at hut
    have hxin : x ∈ pre ++ old :: post := by
      rcases List.mem_append.mp hx with h | h
      · exact List.mem_append.mpr (Or.inl h)
      · exact List.mem_append.mpr (Or.inr (List.mem_cons_of_mem _ h))
    obtain ⟨hx1, hx2⟩ := hun x hxin hut
    have holdx := hx2 old (by rw [hl]; simp)
    refine ⟨?_, ?_⟩
    · unfold shiftAfter; split <;> first | omega | (simp only; omega)
    · intro e he
      rw [hnewlive] at he
      obtain ⟨y, hy, rfl⟩ := List.mem_map.mp he
      have hyx := hx2 y (hmem y hy)
      have hyr := hrange y (hmem y hy)
      have hd := hdis y hy
      unfold Disjoint2 at hd
      unfold shiftAfter
      split <;> split <;> first | omega | (simp only; omega)
  · have hu' := List.mem_singleton.mp hu
    subst hu'
    have hge := dataEnd_ge ((pre ++ post).map (shiftAfter old)) n
    refine ⟨hge.1, ?_⟩
    intro e he
    rw [hnewlive] at he
    show e.off + e.size ≤ dataEnd ((pre ++ post).map (shiftAfter old)) n
    apply hge.2
    rw [liveOf_map_shift]
    simpa [liveOf, List.filter_append] using he

theorem add_keeps_foreignInv (n flen : Nat) (pre post : List Entry) (slot new : Entry)
    (hslot : slot.typ = 0) (hpre : ∀ e ∈ pre, e.typ ≠ 0) (hpost : ∀ e ∈ post, e.typ = 0)
    (hnew : new.typ ≠ 0) (hoff : new.off = slot.off) (hsz : 0 ≤ new.size)
    (hinv : ForeignInv n flen (pre ++ slot :: post)) :
    ForeignInv n (max flen (new.off + new.size).toNat) (pre ++ new :: post.map (fun x => { x with off := slot.off + new.size })) := by
  obtain ⟨hwf, hun⟩ := hinv
  obtain ⟨hs1, hs2⟩ := hun slot (by simp) hslot
  refine ⟨add_keeps_table_wf n flen pre post slot new _ hslot hnew hoff hsz hpost hs1 hs2 hwf, ?_⟩
  have hprelive : liveOf pre = pre := List.filter_eq_self.mpr (by intro e he; simp [hpre e he])
  have hpostlive' : liveOf (post.map (fun x => { x with off := slot.off + new.size })) = [] := by
    apply List.filter_eq_nil_iff.mpr
    intro e he
    obtain ⟨x, hx, rfl⟩ := List.mem_map.mp he
    simp [hpost x hx]
  have hl' : liveOf (pre ++ new :: post.map (fun x => { x with off := slot.off + new.size })) = pre ++ [new] := by
    have : liveOf (pre ++ new :: post.map (fun x => { x with off := slot.off + new.size }))
        = liveOf pre ++ (new :: liveOf (post.map (fun x => { x with off := slot.off + new.size }))) := by
      simp [liveOf, List.filter_append, hnew]
    rw [this, hprelive, hpostlive']
  have hlold : ∀ e ∈ pre, e ∈ liveOf (pre ++ slot :: post) := by
    intro e he
    simp only [liveOf, List.filter_append, List.mem_append, List.mem_filter]
    exact Or.inl ⟨he, by simp [hpre e he]⟩
  intro u hu hut
  rcases List.mem_append.mp hu with hu | hu
  · exact absurd hut (hpre u hu)
  · rcases List.mem_cons.mp hu with rfl | hu
    · exact absurd hut hnew
    · obtain ⟨x, hx, rfl⟩ := List.mem_map.mp hu
      refine ⟨by simp only; omega, ?_⟩
      intro e he
      rw [hl'] at he
      rcases List.mem_append.mp he with he | he
      · have := hs2 e (hlold e he)
        simp only; omega
      · simp at he; subst he
        simp only; omega

theorem findIdxBy_before (p : Entry → Bool) (es : List Entry) (i : Nat) (h : findIdxBy p es = some i) :
    ∀ e ∈ es.take i, p e = false := by
  induction es generalizing i with
  | nil => simp [findIdxBy] at h
  | cons x xs ih =>
    unfold findIdxBy at h
    by_cases hx : p x = true
    · simp only [hx, if_true, Option.some.injEq] at h
      subst h; simp
    · simp only [hx, Bool.false_eq_true, if_false] at h
      cases hf : findIdxBy p xs with
      | none => simp [hf] at h
      | some j =>
        simp only [hf, Option.map_some, Option.some.injEq] at h
        subst h
        intro e he
        simp only [List.take_succ_cons, List.mem_cons] at he
        rcases he with rfl | he
        · simpa using hx
        · exact ih j hf e he

/-- one accepted or refused `remove_block` keeps the invariant (any table) -/
theorem foreign_remove_step (s : TdfSt) (t : Nat) (now : Int) (flen : Nat) (ht : t ≠ 0)
    (hinv : ForeignInv s.nEntries flen s.entries) :
    ∃ flen', ForeignInv (removeBlock s t now).1.nEntries flen' (removeBlock s t now).1.entries := by
  cases hfind : findType t s.entries with
  | none =>
    have : (removeBlock s t now).1 = s := by unfold removeBlock; simp [hfind]
    rw [this]; exact ⟨flen, hinv⟩
  | some pos =>
    have hn : (removeBlock s t now).1.nEntries = s.nEntries := by unfold removeBlock; simp [hfind]
    rw [hn, removeBlock_entries s t now pos hfind]
    obtain ⟨e, h1, h2, h3⟩ := findIdxBy_some _ _ _ hfind
    have hget : s.entries.getD pos unusedEntry = e := by simp [List.getD_eq_getElem?_getD, h1]
    rw [hget]
    have hlive : e.typ ≠ 0 := by
      have : e.typ = t := by simpa using h2
      rw [this]; exact ht
    rw [h3] at hinv
    exact ⟨_, remove_keeps_foreignInv _ _ _ _ e now defaultComment hlive hinv⟩

/-- one accepted or refused `add_block` keeps the invariant (any table) -/
theorem foreign_add_step (s : TdfSt) (b : BlkArg) (c : Str) (now : Int) (flen : Nat) (hty : b.typ ≠ 0)
    (hinv : ForeignInv s.nEntries flen s.entries) :
    ∃ flen', ForeignInv (addBlock s b c now).1.nEntries flen' (addBlock s b c now).1.entries := by
  by_cases hd : hasType b.typ s.entries = true
  · have : (addBlock s b c now).1 = s := by unfold addBlock; simp [hd]
    rw [this]; exact ⟨flen, hinv⟩
  · have hd' : hasType b.typ s.entries = false := by simpa using hd
    cases hf : firstUnused s.entries with
    | none =>
      have : (addBlock s b c now).1 = s := by unfold addBlock; simp [hd', hf]
      rw [this]; exact ⟨flen, hinv⟩
    | some pos =>
      cases hchk : checkArg b c now with
      | error e =>
        have : (addBlock s b c now).1 = s := by unfold addBlock; simp [hd', hf, hchk]
        rw [this]; exact ⟨flen, hinv⟩
      | ok pl =>
        by_cases hh : (s.entries.drop (pos + 1)).any (fun e => e.typ != 0) = true
        · have : (addBlock s b c now).1 = s := by unfold addBlock; simp [hd', hf, hchk, hh]
          rw [this]; exact ⟨flen, hinv⟩
        · have hh' : (s.entries.drop (pos + 1)).any (fun e => e.typ != 0) = false := by simpa using hh
          have hn : (addBlock s b c now).1.nEntries = s.nEntries := by unfold addBlock; simp [hd', hf, hchk, hh']
          rw [hn, addBlock_entries s b c now pos pl hd' hf hchk hh']
          obtain ⟨slot, h1, h2, h3⟩ := findIdxBy_some _ _ _ hf
          have hget : s.entries.getD pos unusedEntry = slot := by simp [List.getD_eq_getElem?_getD, h1]
          rw [hget]
          have hslot : slot.typ = 0 := by simpa using h2
          have hpre : ∀ e ∈ s.entries.take pos, e.typ ≠ 0 := by
            intro e he
            have := findIdxBy_before _ _ _ hf e he
            simpa using this
          have hpost : ∀ e ∈ s.entries.drop (pos + 1), e.typ = 0 := by
            intro e he
            have := List.any_eq_false.mp hh' e he
            simpa using this
          rw [h3] at hinv
          exact ⟨_, add_keeps_foreignInv _ _ _ _ slot ⟨b.typ, b.fmt, slot.off, b.size, b.cdate, b.mdate, now, c⟩ hslot hpre hpost hty rfl
            (Int.natCast_nonneg _) hinv⟩

theorem foreign_replace_step (s : TdfSt) (b : BlkArg) (c : Option Str) (now : Int) (flen : Nat) (hty : b.typ ≠ 0)
    (hinv : ForeignInv s.nEntries flen s.entries) :
    ∃ flen', ForeignInv (replaceBlock s b c now).1.nEntries flen' (replaceBlock s b c now).1.entries := by
  unfold replaceBlock
  cases hfind : s.entries.find? (fun e => e.typ == b.typ) with
  | none => exact ⟨flen, hinv⟩
  | some old =>
    simp only
    cases hchk : checkArg b (c.getD old.comment) now with
    | error e => exact ⟨flen, hinv⟩
    | ok pl =>
      simp only
      split
      · exact ⟨flen, hinv⟩
      · obtain ⟨f1, h1⟩ := foreign_remove_step s b.typ now flen hty hinv
        cases hr : removeBlock s b.typ now with
        | mk s1 o =>
          rw [hr] at h1
          cases o with
          | ok => exact foreign_add_step s1 b (c.getD old.comment) now f1 hty h1
          | err e => exact ⟨f1, h1⟩

theorem foreign_set_step (s : TdfSt) (b : BlkArg) (now : Int) (flen : Nat) (hty : b.typ ≠ 0)
    (hinv : ForeignInv s.nEntries flen s.entries) :
    ∃ flen', ForeignInv (setBlock s b now).1.nEntries flen' (setBlock s b now).1.entries := by
  unfold setBlock
  split
  · exact foreign_replace_step s b none now flen hty hinv
  · exact foreign_add_step s b defaultComment now flen hty hinv

/-- the operations the table-level statements speak about: everything but re-entering (which parses bytes), on real block types -/
def TableOp : Op → Prop
  | .add b _ _ => b.typ ≠ 0
  | .remove t _ => t ≠ 0
  | .replace b _ _ => b.typ ≠ 0
  | .set b _ => b.typ ≠ 0
  | .reopen => False

theorem foreign_history (s : TdfSt) (ops : List Op) (hops : ∀ op ∈ ops, TableOp op) (flen : Nat)
    (hinv : ForeignInv s.nEntries flen s.entries) :
    ∃ flen', ForeignInv (runOps s ops).nEntries flen' (runOps s ops).entries := by
  induction ops generalizing s flen with
  | nil => exact ⟨flen, hinv⟩
  | cons op ops ih =>
    have hop := hops op (by simp)
    have hstep : ∃ f1, ForeignInv (step s op).1.nEntries f1 (step s op).1.entries := by
      cases op with
      | add b c now => exact foreign_add_step s b c now flen hop hinv
      | remove t now => exact foreign_remove_step s t now flen hop hinv
      | replace b c now => exact foreign_replace_step s b c now flen hop hinv
      | set b now => exact foreign_set_step s b now flen hop hinv
      | reopen => exact absurd hop (by simp [TableOp])
    obtain ⟨f1, h1⟩ := hstep
    exact ih (step s op).1 (fun o ho => hops o (by simp [ho])) f1 h1

/-! ### frame condition on ANY table: what an operation on one type leaves of the entries of other types -/

/-- what C04 says must survive: type, format code, size, creation and modification date, comment -/
def Entry.meta (e : Entry) : Nat × Nat × Int × Int × Int × Str := (e.typ, e.fmt, e.size, e.cdate, e.mdate, e.comment)

@[simp] theorem shiftAfter_meta (old x : Entry) : (shiftAfter old x).meta = x.meta := by
  unfold shiftAfter Entry.meta; split <;> rfl

theorem remove_frame_any (s : TdfSt) (t : Nat) (now : Int) (x : Entry) (hx : x ∈ s.entries) (hxt : x.typ ≠ t) :
    ∃ x' ∈ (removeBlock s t now).1.entries, x'.meta = x.meta := by
  cases hfind : findType t s.entries with
  | none =>
    have : (removeBlock s t now).1 = s := by unfold removeBlock; simp [hfind]
    rw [this]; exact ⟨x, hx, rfl⟩
  | some pos =>
    rw [removeBlock_entries s t now pos hfind]
    obtain ⟨e, h1, h2, h3⟩ := findIdxBy_some _ _ _ hfind
    have het : e.typ = t := by simpa using h2
    rw [h3] at hx
    have hx' : x ∈ s.entries.take pos ++ s.entries.drop (pos + 1) := by
      rcases List.mem_append.mp hx with h | h
      · exact List.mem_append.mpr (Or.inl h)
      · rcases List.mem_cons.mp h with rfl | h
        · exact absurd het hxt
        · exact List.mem_append.mpr (Or.inr h)
    refine ⟨shiftAfter (s.entries.getD pos unusedEntry) x, ?_, shiftAfter_meta _ _⟩
    exact List.mem_append.mpr (Or.inl (List.mem_map.mpr ⟨x, hx', rfl⟩))

theorem add_frame_any (s : TdfSt) (b : BlkArg) (c : Str) (now : Int) (x : Entry) (hx : x ∈ s.entries) (hx0 : x.typ ≠ 0) :
    ∃ x' ∈ (addBlock s b c now).1.entries, x'.meta = x.meta := by
  by_cases hd : hasType b.typ s.entries = true
  · have : (addBlock s b c now).1 = s := by unfold addBlock; simp [hd]
    rw [this]; exact ⟨x, hx, rfl⟩
  · have hd' : hasType b.typ s.entries = false := by simpa using hd
    cases hf : firstUnused s.entries with
    | none =>
      have : (addBlock s b c now).1 = s := by unfold addBlock; simp [hd', hf]
      rw [this]; exact ⟨x, hx, rfl⟩
    | some pos =>
      cases hchk : checkArg b c now with
      | error e =>
        have : (addBlock s b c now).1 = s := by unfold addBlock; simp [hd', hf, hchk]
        rw [this]; exact ⟨x, hx, rfl⟩
      | ok pl =>
        by_cases hh : (s.entries.drop (pos + 1)).any (fun e => e.typ != 0) = true
        · have : (addBlock s b c now).1 = s := by unfold addBlock; simp [hd', hf, hchk, hh]
          rw [this]; exact ⟨x, hx, rfl⟩
        · have hh' : (s.entries.drop (pos + 1)).any (fun e => e.typ != 0) = false := by simpa using hh
          rw [addBlock_entries s b c now pos pl hd' hf hchk hh']
          obtain ⟨slot, h1, h2, h3⟩ := findIdxBy_some _ _ _ hf
          have hslot : slot.typ = 0 := by simpa using h2
          rw [h3] at hx
          rcases List.mem_append.mp hx with h | h
          · exact ⟨x, List.mem_append.mpr (Or.inl h), rfl⟩
          · rcases List.mem_cons.mp h with rfl | h
            · exact absurd hslot hx0
            · refine ⟨{ x with off := (s.entries.getD pos unusedEntry).off + b.size }, ?_, rfl⟩
              exact List.mem_append.mpr (Or.inr (List.mem_cons_of_mem _ (List.mem_map.mpr ⟨x, h, rfl⟩)))

/-- the type an operation is about -/
def Op.typ : Op → Nat
  | .add b _ _ => b.typ
  | .remove t _ => t
  | .replace b _ _ => b.typ
  | .set b _ => b.typ
  | .reopen => 0

theorem frame_step_any (s : TdfSt) (op : Op) (hop : TableOp op) (x : Entry) (hx : x ∈ s.entries) (hx0 : x.typ ≠ 0)
    (hxt : x.typ ≠ op.typ) : ∃ x' ∈ (step s op).1.entries, x'.meta = x.meta := by
  have hrepl : ∀ (b : BlkArg) (c : Option Str) (now : Int), x.typ ≠ b.typ →
      ∃ x' ∈ (replaceBlock s b c now).1.entries, x'.meta = x.meta := by
    intro b c now hb
    unfold replaceBlock
    cases hfind : s.entries.find? (fun e => e.typ == b.typ) with
    | none => exact ⟨x, hx, rfl⟩
    | some old =>
      simp only
      cases hchk : checkArg b (c.getD old.comment) now with
      | error e => exact ⟨x, hx, rfl⟩
      | ok pl =>
        simp only
        split
        · exact ⟨x, hx, rfl⟩
        · obtain ⟨x1, hx1, hm1⟩ := remove_frame_any s b.typ now x hx hb
          cases hr : removeBlock s b.typ now with
          | mk s1 o =>
            rw [hr] at hx1
            cases o with
            | ok =>
              have h10 : x1.typ ≠ 0 := by
                have : x1.typ = x.typ := by have := congrArg Prod.fst hm1; simpa [Entry.meta] using this
                rw [this]; exact hx0
              obtain ⟨x2, hx2, hm2⟩ := add_frame_any s1 b (c.getD old.comment) now x1 hx1 h10
              exact ⟨x2, hx2, hm2.trans hm1⟩
            | err e => exact ⟨x1, hx1, hm1⟩
  cases op with
  | add b c now => exact add_frame_any s b c now x hx hx0
  | remove t now => exact remove_frame_any s t now x hx hxt
  | replace b c now => exact hrepl b c now hxt
  | set b now =>
    show ∃ x' ∈ (setBlock s b now).1.entries, x'.meta = x.meta
    unfold setBlock
    split
    · exact hrepl b none now hxt
    · exact add_frame_any s b defaultComment now x hx hx0
  | reopen => exact absurd hop (by simp [TableOp])

/-- a block whose type no operation of the history is about keeps its format code, size, dates and comment — on ANY table -/
theorem frame_history_any (s : TdfSt) (ops : List Op) (hops : ∀ op ∈ ops, TableOp op) (x : Entry) (hx : x ∈ s.entries)
    (hx0 : x.typ ≠ 0) (hxt : ∀ op ∈ ops, x.typ ≠ op.typ) :
    ∃ x' ∈ (runOps s ops).entries, x'.meta = x.meta := by
  induction ops generalizing s x with
  | nil => exact ⟨x, hx, rfl⟩
  | cons op ops ih =>
    obtain ⟨x1, hx1, hm1⟩ := frame_step_any s op (hops op (by simp)) x hx hx0 (hxt op (by simp))
    have h10 : x1.typ ≠ 0 := by
      have : x1.typ = x.typ := by have := congrArg Prod.fst hm1; simpa [Entry.meta] using this
      rw [this]; exact hx0
    have h1t : ∀ o ∈ ops, x1.typ ≠ o.typ := by
      intro o ho
      have : x1.typ = x.typ := by have := congrArg Prod.fst hm1; simpa [Entry.meta] using this
      rw [this]; exact hxt o (by simp [ho])
    obtain ⟨x2, hx2, hm2⟩ := ih (step s op).1 (fun o ho => hops o (by simp [ho])) x1 hx1 h10 h1t
    exact ⟨x2, hx2, hm2.trans hm1⟩

/-! ### at most one block per type, on ANY table -/

def TypesNodup (es : List Entry) : Prop := ((liveOf es).map (·.typ)).Nodup

theorem liveOf_append (a b : List Entry) : liveOf (a ++ b) = liveOf a ++ liveOf b := by simp [liveOf, List.filter_append]

theorem remove_keeps_typesNodup (s : TdfSt) (t : Nat) (now : Int) (h : TypesNodup s.entries) :
    TypesNodup (removeBlock s t now).1.entries := by
  cases hfind : findType t s.entries with
  | none =>
    have : (removeBlock s t now).1 = s := by unfold removeBlock; simp [hfind]
    rw [this]; exact h
  | some pos =>
    rw [removeBlock_entries s t now pos hfind]
    obtain ⟨e, _, _, h3⟩ := findIdxBy_some _ _ _ hfind
    unfold TypesNodup at h ⊢
    rw [h3] at h
    have hfresh : ∀ (l : List Entry) (f : Entry), f.typ = 0 → liveOf (l ++ [f]) = liveOf l := by
      intro l f hf; simp [liveOf, List.filter_append, hf]
    rw [hfresh _ _ rfl, liveOf_map_shift, List.map_map]
    have hcomp : ((fun x : Entry => x.typ) ∘ shiftAfter (s.entries.getD pos unusedEntry)) = (fun x : Entry => x.typ) := by
      funext x; simp
    rw [hcomp]
    rw [liveOf_append] at h ⊢
    have hsub : (liveOf (s.entries.take pos) ++ liveOf (s.entries.drop (pos + 1))).Sublist
        (liveOf (s.entries.take pos) ++ liveOf (e :: s.entries.drop (pos + 1))) := by
      apply List.Sublist.append (List.Sublist.refl _)
      unfold liveOf
      exact List.Sublist.filter _ (List.sublist_cons_self _ _)
    exact (List.Sublist.map _ hsub).nodup h

theorem add_keeps_typesNodup (s : TdfSt) (b : BlkArg) (c : Str) (now : Int) (h : TypesNodup s.entries) :
    TypesNodup (addBlock s b c now).1.entries := by
  by_cases hd : hasType b.typ s.entries = true
  · have : (addBlock s b c now).1 = s := by unfold addBlock; simp [hd]
    rw [this]; exact h
  · have hd' : hasType b.typ s.entries = false := by simpa using hd
    cases hf : firstUnused s.entries with
    | none =>
      have : (addBlock s b c now).1 = s := by unfold addBlock; simp [hd', hf]
      rw [this]; exact h
    | some pos =>
      cases hchk : checkArg b c now with
      | error e =>
        have : (addBlock s b c now).1 = s := by unfold addBlock; simp [hd', hf, hchk]
        rw [this]; exact h
      | ok pl =>
        by_cases hh : (s.entries.drop (pos + 1)).any (fun e => e.typ != 0) = true
        · have : (addBlock s b c now).1 = s := by unfold addBlock; simp [hd', hf, hchk, hh]
          rw [this]; exact h
        · have hh' : (s.entries.drop (pos + 1)).any (fun e => e.typ != 0) = false := by simpa using hh
          rw [addBlock_entries s b c now pos pl hd' hf hchk hh']
          obtain ⟨slot, _, h2, h3⟩ := findIdxBy_some _ _ _ hf
          have hslot : slot.typ = 0 := by simpa using h2
          have hpost : ∀ e ∈ s.entries.drop (pos + 1), e.typ = 0 := by
            intro e he
            have := List.any_eq_false.mp hh' e he
            simpa using this
          unfold TypesNodup at h ⊢
          rw [h3] at h
          have hlp : liveOf (s.entries.drop (pos + 1)) = [] := by
            apply List.filter_eq_nil_iff.mpr
            intro e he; simp [hpost e he]
          have hlp' : liveOf ((s.entries.drop (pos + 1)).map (fun x => { x with off := (s.entries.getD pos unusedEntry).off + b.size })) = [] := by
            apply List.filter_eq_nil_iff.mpr
            intro e he
            obtain ⟨x, hx, rfl⟩ := List.mem_map.mp he
            simp [hpost x hx]
          have hold : liveOf (s.entries.take pos ++ slot :: s.entries.drop (pos + 1)) = liveOf (s.entries.take pos) := by
            rw [liveOf_append]
            have : liveOf (slot :: s.entries.drop (pos + 1)) = [] := by
              simp only [liveOf, List.filter_cons, hslot] at hlp ⊢
              simpa using hlp
            rw [this, List.append_nil]
          rw [hold] at h
          by_cases hb0 : b.typ = 0
          · -- a block of type 0 is an unused slot for every reader: nothing live is added
            have : liveOf (s.entries.take pos ++ (⟨b.typ, b.fmt, (s.entries.getD pos unusedEntry).off, b.size, b.cdate, b.mdate, now, c⟩ : Entry)
                  :: (s.entries.drop (pos + 1)).map (fun x => { x with off := (s.entries.getD pos unusedEntry).off + b.size }))
                = liveOf (s.entries.take pos) := by
              rw [liveOf_append]
              have : liveOf ((⟨b.typ, b.fmt, (s.entries.getD pos unusedEntry).off, b.size, b.cdate, b.mdate, now, c⟩ : Entry)
                  :: (s.entries.drop (pos + 1)).map (fun x => { x with off := (s.entries.getD pos unusedEntry).off + b.size })) = [] := by
                simp only [liveOf, List.filter_cons, hb0] at hlp' ⊢
                simpa using hlp'
              rw [this, List.append_nil]
            rw [this]; exact h
          · have hnew : liveOf (s.entries.take pos ++ (⟨b.typ, b.fmt, (s.entries.getD pos unusedEntry).off, b.size, b.cdate, b.mdate, now, c⟩ : Entry)
                  :: (s.entries.drop (pos + 1)).map (fun x => { x with off := (s.entries.getD pos unusedEntry).off + b.size }))
                = liveOf (s.entries.take pos) ++ [⟨b.typ, b.fmt, (s.entries.getD pos unusedEntry).off, b.size, b.cdate, b.mdate, now, c⟩] := by
              rw [liveOf_append]
              have : liveOf ((⟨b.typ, b.fmt, (s.entries.getD pos unusedEntry).off, b.size, b.cdate, b.mdate, now, c⟩ : Entry)
                  :: (s.entries.drop (pos + 1)).map (fun x => { x with off := (s.entries.getD pos unusedEntry).off + b.size }))
                  = [⟨b.typ, b.fmt, (s.entries.getD pos unusedEntry).off, b.size, b.cdate, b.mdate, now, c⟩] := by
                simp only [liveOf, List.filter_cons, hb0] at hlp' ⊢
                simp [hb0]
                simpa using hlp'
              rw [this]
            rw [hnew, List.map_append, List.nodup_append]
            refine ⟨h, by simp, ?_⟩
            intro a ha a' ha'
            simp at ha'
            subst ha'
            intro heq
            obtain ⟨y, hy, hyt⟩ := List.mem_map.mp ha
            have hyin : y ∈ s.entries := by
              have : y ∈ s.entries.take pos := (List.mem_filter.mp hy).1
              exact List.mem_of_mem_take this
            have : hasType b.typ s.entries = true := by
              unfold hasType
              exact List.any_eq_true.mpr ⟨y, hyin, by simp [hyt, heq]⟩
            rw [hd'] at this; cases this

theorem step_keeps_typesNodup (s : TdfSt) (op : Op) (hop : TableOp op) (h : TypesNodup s.entries) : TypesNodup (step s op).1.entries := by
  have hrepl : ∀ (b : BlkArg) (c : Option Str) (now : Int), TypesNodup (replaceBlock s b c now).1.entries := by
    intro b c now
    unfold replaceBlock
    cases hfind : s.entries.find? (fun e => e.typ == b.typ) with
    | none => exact h
    | some old =>
      simp only
      cases hchk : checkArg b (c.getD old.comment) now with
      | error e => exact h
      | ok pl =>
        simp only
        split
        · exact h
        · have h1 := remove_keeps_typesNodup s b.typ now h
          cases hr : removeBlock s b.typ now with
          | mk s1 o =>
            rw [hr] at h1
            cases o with
            | ok => exact add_keeps_typesNodup s1 b (c.getD old.comment) now h1
            | err e => exact h1
  cases op with
  | add b c now => exact add_keeps_typesNodup s b c now h
  | remove t now => exact remove_keeps_typesNodup s t now h
  | replace b c now => exact hrepl b c now
  | set b now =>
    show TypesNodup (setBlock s b now).1.entries
    unfold setBlock
    split
    · exact hrepl b none now
    · exact add_keeps_typesNodup s b defaultComment now h
  | reopen => exact absurd hop (by simp [TableOp])

theorem history_keeps_typesNodup (s : TdfSt) (ops : List Op) (hops : ∀ op ∈ ops, TableOp op) (h : TypesNodup s.entries) :
    TypesNodup (runOps s ops).entries := by
  induction ops generalizing s with
  | nil => exact h
  | cons op ops ih =>
    exact ih (step s op).1 (fun o ho => hops o (by simp [ho])) (step_keeps_typesNodup s op (hops op (by simp)) h)

end Tdf
