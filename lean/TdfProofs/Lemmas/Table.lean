import TdfModel.Spec
import TdfProofs.Lemmas.Entry
namespace Tdf

/-! ### bytes of a table of valid entries -/
def TableValid (es : List Entry) : Prop := ∀ e ∈ es, e.valid = true

theorem table_bytes_length (es : List Entry) (h : TableValid es) :
    (es.flatMap Entry.enc).length = 288 * es.length := by
  have := flatMap_length_const Entry.enc 288 es (fun e he => Entry.enc_length e (h e he))
  omega

theorem TableValid.append {a b : List Entry} (ha : TableValid a) (hb : TableValid b) : TableValid (a ++ b) := by
  intro e he; simp at he; rcases he with h | h; exact ha e h; exact hb e h
theorem TableValid.left {a b : List Entry} (h : TableValid (a ++ b)) : TableValid a :=
  fun e he => h e (by simp [he])
theorem TableValid.right {a b : List Entry} (h : TableValid (a ++ b)) : TableValid b :=
  fun e he => h e (by simp [he])

/-- rewriting a run of slots in place: the rest of the file is untouched -/
theorem writeAt_table (hdr data : Bytes) (pre mid mid' post : List Entry)
    (hh : hdr.length = 64) (hpre : TableValid pre) (hmid : TableValid mid) (hmid' : TableValid mid')
    (hl : mid'.length = mid.length) :
    writeAt (hdr ++ (pre ++ mid ++ post).flatMap Entry.enc ++ data) (slotPos pre.length) (mid'.flatMap Entry.enc)
      = hdr ++ (pre ++ mid' ++ post).flatMap Entry.enc ++ data := by
  have e1 : hdr ++ (pre ++ mid ++ post).flatMap Entry.enc ++ data
      = (hdr ++ pre.flatMap Entry.enc) ++ mid.flatMap Entry.enc ++ (post.flatMap Entry.enc ++ data) := by
    simp [List.flatMap_append, List.append_assoc]
  have e2 : hdr ++ (pre ++ mid' ++ post).flatMap Entry.enc ++ data
      = (hdr ++ pre.flatMap Entry.enc) ++ mid'.flatMap Entry.enc ++ (post.flatMap Entry.enc ++ data) := by
    simp [List.flatMap_append, List.append_assoc]
  have e3 : slotPos pre.length = (hdr ++ pre.flatMap Entry.enc).length := by
    simp [slotPos, hh, table_bytes_length pre hpre]
  rw [e1, e2, e3]
  exact writeAt_mid _ _ _ _ (by rw [table_bytes_length mid hmid, table_bytes_length mid' hmid', hl])

/-- the per-slot loop of add_block equals one rewrite of the run of slots -/
theorem writeEntries_table (hdr data : Bytes) (pre mid mid' post : List Entry)
    (hh : hdr.length = 64) (hpre : TableValid pre) (hmid : TableValid mid) (hmid' : TableValid mid')
    (hl : mid'.length = mid.length) :
    writeEntries (hdr ++ (pre ++ mid ++ post).flatMap Entry.enc ++ data) pre.length mid'
      = hdr ++ (pre ++ mid' ++ post).flatMap Entry.enc ++ data := by
  induction mid' generalizing pre mid with
  | nil =>
    have : mid = [] := by cases mid <;> simp_all
    subst this; simp [writeEntries]
  | cons e es ih =>
    cases mid with
    | nil => simp at hl
    | cons m ms =>
      simp only [writeEntries]
      have he : e.valid = true := hmid' e (by simp)
      have hm : m.valid = true := hmid m (by simp)
      have w := writeAt_table hdr data pre [m] [e] (ms ++ post) hh hpre
        (by intro x hx; simp at hx; subst hx; exact hm) (by intro x hx; simp at hx; subst hx; exact he) rfl
      simp only [List.flatMap_cons, List.flatMap_nil, List.append_nil] at w
      have e1 : pre ++ m :: ms ++ post = pre ++ [m] ++ (ms ++ post) := by simp
      rw [e1, w]
      have e2 : pre ++ [e] ++ (ms ++ post) = (pre ++ [e]) ++ ms ++ post := by simp
      have e3 : pre.length + 1 = (pre ++ [e]).length := by simp
      rw [e2, e3]
      rw [ih (pre ++ [e]) ms (TableValid.append hpre (by intro x hx; simp at hx; subst hx; exact he))
        (fun x hx => hmid x (by simp [hx])) (fun x hx => hmid' x (by simp [hx])) (by simpa using hl)]
      simp

/-- overwrite-then-truncate keeps the prefix and the new bytes -/
theorem truncate_writeAt (v new : Bytes) (off : Nat) (h : off ≤ v.length) :
    truncateAt (writeAt v off new) (off + new.length) = v.take off ++ new := by
  unfold truncateAt writeAt
  rw [if_pos h]
  have : (v.take off ++ new).length = off + new.length := by simp; omega
  rw [List.append_assoc, ← List.append_assoc, List.take_append_of_le_length (by omega), List.take_of_length_le (by omega)]

/-! ### searching the table -/
theorem findIdxBy_append_left (p : Entry → Bool) (a b : List Entry) (h : ∀ e ∈ a, p e = false) :
    findIdxBy p (a ++ b) = (findIdxBy p b).map (· + a.length) := by
  induction a with
  | nil => simp
  | cons x xs ih =>
    have hx : p x = false := h x (by simp)
    simp only [List.cons_append, findIdxBy, hx, Bool.false_eq_true, if_false, List.length_cons]
    rw [ih (fun e he => h e (by simp [he]))]
    cases findIdxBy p b <;> simp; omega

theorem findIdxBy_head (p : Entry → Bool) (x : Entry) (xs : List Entry) (h : p x = true) :
    findIdxBy p (x :: xs) = some 0 := by simp [findIdxBy, h]

theorem findIdxBy_none (p : Entry → Bool) (a : List Entry) (h : ∀ e ∈ a, p e = false) :
    findIdxBy p a = none := by
  induction a with
  | nil => rfl
  | cons x xs ih => simp [findIdxBy, h x (by simp), ih (fun e he => h e (by simp [he]))]

/-! ### the layout function -/
theorem liveEntries_append (s : Nat) (a b : List LBlock) :
    liveEntries s (a ++ b) = liveEntries s a ++ liveEntries (s + (dataOf a).length) b := by
  induction a generalizing s with
  | nil => simp [liveEntries, dataOf]
  | cons x xs ih =>
    simp only [List.cons_append, liveEntries, dataOf, List.flatMap_cons, List.length_append]
    rw [ih]; simp [dataOf, Nat.add_assoc]

@[simp] theorem liveEntries_length (s : Nat) (a : List LBlock) : (liveEntries s a).length = a.length := by
  induction a generalizing s with
  | nil => rfl
  | cons x xs ih => simp [liveEntries, ih]

@[simp] theorem freeEntries_length (e : Nat) (fs : List FreeMeta) : (freeEntries e fs).length = fs.length := by
  simp [freeEntries]

theorem liveEntries_typ (s : Nat) (a : List LBlock) : ∀ e ∈ liveEntries s a, ∃ b ∈ a, e.typ = b.typ := by
  induction a generalizing s with
  | nil => simp [liveEntries]
  | cons x xs ih =>
    intro e he; simp only [liveEntries, List.mem_cons] at he
    rcases he with rfl | he
    · exact ⟨x, by simp, rfl⟩
    · obtain ⟨b, hb, h⟩ := ih _ e he; exact ⟨b, by simp [hb], h⟩

theorem freeEntries_typ (e : Nat) (fs : List FreeMeta) : ∀ x ∈ freeEntries e fs, x.typ = 0 := by
  intro x hx; simp [freeEntries] at hx; obtain ⟨f, _, rfl⟩ := hx; rfl

theorem dataOf_append (a b : List LBlock) : dataOf (a ++ b) = dataOf a ++ dataOf b := by
  simp [dataOf, List.flatMap_append]

/-- shifting the offsets of later live entries down by the size of a removed block -/
theorem liveEntries_shift (s k : Nat) (a : List LBlock) :
    (liveEntries (s + k) a).map (fun x => { x with off := x.off - (k : Int) }) = liveEntries s a := by
  induction a generalizing s with
  | nil => rfl
  | cons x xs ih =>
    simp only [liveEntries, List.map_cons]
    have e1 : s + k + x.payload.length = (s + x.payload.length) + k := by omega
    rw [e1, ih]
    congr 1
    simp only [liveEntry, Entry.mk.injEq, and_true, true_and]
    omega

theorem freeEntries_shift (e k : Nat) (fs : List FreeMeta) (h : k ≤ e) :
    (freeEntries e fs).map (fun x => { x with off := x.off - (k : Int) }) = freeEntries (e - k) fs := by
  simp only [freeEntries, List.map_map]
  congr 1; funext f
  simp only [Function.comp, freeEntry, Entry.mk.injEq, and_true, true_and]
  omega

theorem freeEntries_setOff (e e' : Nat) (fs : List FreeMeta) :
    (freeEntries e fs).map (fun x => { x with off := (e' : Int) }) = freeEntries e' fs := by
  simp only [freeEntries, List.map_map]
  congr 1

/-- the last entry of a compact table ends at the end of the data -/
theorem liveEntries_last_end (s : Nat) (a : List LBlock) (l : Entry)
    (h : (liveEntries s a).getLast? = some l) : l.off + l.size = ((s + (dataOf a).length : Nat) : Int) := by
  induction a generalizing s with
  | nil => simp [liveEntries] at h
  | cons x xs ih =>
    cases xs with
    | nil =>
      simp [liveEntries] at h; subst h
      simp [liveEntry, dataOf]
    | cons y ys =>
      simp only [liveEntries, List.getLast?_cons_cons] at h
      have := ih (s + x.payload.length) (by simpa [liveEntries] using h)
      rw [this]; simp [dataOf, List.flatMap_cons]; omega

theorem liveEntries_range (s : Nat) (bs : List LBlock) :
    ∀ e ∈ liveEntries s bs, (s : Int) ≤ e.off ∧ 0 ≤ e.size ∧ e.off + e.size ≤ ((s + (dataOf bs).length : Nat) : Int) := by
  induction bs generalizing s with
  | nil => simp [liveEntries]
  | cons b bs ih =>
    intro e he
    have hlen : (dataOf (b :: bs)).length = b.payload.length + (dataOf bs).length := by
      simp [dataOf, List.flatMap_cons]
    simp only [liveEntries, List.mem_cons] at he
    rcases he with rfl | he
    · simp only [liveEntry, hlen]; omega
    · have := ih (s + b.payload.length) e he
      rw [hlen]; omega

end Tdf
