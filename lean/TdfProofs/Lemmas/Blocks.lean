import TdfModel.Blocks
import TdfProofs.Lemmas.Rle
import TdfProofs.Lemmas.Str
namespace Tdf

/-- one decoding step: rewrite `(p >>= f).run (enc ++ rest)` with a lemma about `p` -/
macro "step " t:term : tactic => `(tactic| rw [D.bind_run_of _ _ _ _ _ $t])

theorem inI16_iff (z : Int) : inI16 z = true ↔ -32768 ≤ z ∧ z < 32768 := by simp [inI16]
theorem inI32_iff (z : Int) : inI32 z = true ↔ -2147483648 ≤ z ∧ z < 2147483648 := by simp [inI32]

theorem validFrames_iff (k n : Nat) (fs : List (Option Frame)) :
    validFrames k n fs = true ↔ fs.length = n ∧ ∀ fr, some fr ∈ fs → fr.length = k := by
  simp only [validFrames, Bool.and_eq_true, beq_iff_eq, List.all_eq_true]
  constructor
  · rintro ⟨h1, h2⟩
    exact ⟨h1, fun fr hfr => by simpa using h2 _ hfr⟩
  · rintro ⟨h1, h2⟩
    refine ⟨h1, fun f hf => ?_⟩
    cases f with
    | none => rfl
    | some fr => simpa using h2 fr hf

theorem f32s_run (n : Nat) (l : List UInt32) (rest : Bytes) (h : l.length = n) :
    (D.f32s n).run (encF32s l ++ rest) = some (l, rest) := by
  subst h; exact D.rep_run D.f32 f32le l rest (fun x _ r => f32_run x r)

theorem f64s_run (n : Nat) (l : List UInt64) (rest : Bytes) (h : l.length = n) :
    (D.f64s n).run (encF64s l ++ rest) = some (l, rest) := by
  subst h; exact D.rep_run D.f64 f64le l rest (fun x _ r => f64_run x r)

theorem i16s_run (n : Nat) (l : List Int) (rest : Bytes) (h : l.length = n)
    (hr : l.all inI16 = true) : (D.rep n D.i16).run (encI16s l ++ rest) = some (l, rest) := by
  subst h
  refine D.rep_run D.i16 i16le l rest (fun x hx r => ?_)
  have := (inI16_iff x).mp (List.all_eq_true.mp hr x hx)
  exact D.i16_run x r this.1 this.2

theorem i32s_run (n : Nat) (l : List Int) (rest : Bytes) (h : l.length = n)
    (hr : l.all inI32 = true) : (D.rep n D.i32).run (encI32s l ++ rest) = some (l, rest) := by
  subst h
  refine D.rep_run D.i32 i32le l rest (fun x hx r => ?_)
  have := (inI32_iff x).mp (List.all_eq_true.mp hr x hx)
  exact D.i32_run x r this.1 this.2

theorem u16s_run (n : Nat) (l : List Nat) (rest : Bytes) (h : l.length = n)
    (hr : l.all (· < 65536) = true) : (D.rep n D.u16).run (encU16s l ++ rest) = some (l, rest) := by
  subst h
  refine D.rep_run D.u16 u16le l rest (fun x hx r => ?_)
  have := List.all_eq_true.mp hr x hx
  exact D.u16_run x r (by simpa using this)

theorem encF32s_length (l : List UInt32) : (encF32s l).length = 4 * l.length := by
  have := flatMap_length_const f32le 4 l (fun _ _ => by simp)
  simp [encF32s, this]; omega
theorem encF64s_length (l : List UInt64) : (encF64s l).length = 8 * l.length := by
  have := flatMap_length_const f64le 8 l (fun _ _ => by simp)
  simp [encF64s, this]; omega
theorem encI16s_length (l : List Int) : (encI16s l).length = 2 * l.length := by
  have := flatMap_length_const i16le 2 l (fun _ _ => by simp [i16le])
  simp [encI16s, this]; omega
theorem encI32s_length (l : List Int) : (encI32s l).length = 4 * l.length := by
  have := flatMap_length_const i32le 4 l (fun _ _ => by simp [i32le])
  simp [encI32s, this]; omega
theorem encU16s_length (l : List Nat) : (encU16s l).length = 2 * l.length := by
  have := flatMap_length_const u16le 2 l (fun _ _ => by simp [u16le])
  simp [encU16s, this]; omega

theorem sumBy_eq (f : α → Nat) (l : List α) : sumBy f l = (l.map f).sum := by
  simp [sumBy, foldl_add_eq]

theorem flatMap_length_sumBy (e : α → Bytes) (g : α → Nat) (l : List α)
    (h : ∀ a ∈ l, (e a).length = g a) : (l.flatMap e).length = sumBy g l := by
  rw [sumBy_eq]; exact flatMap_length_eq e g l h

/-! ### tracks -/
theorem track_run (k n : Nat) (t : Track) (rest : Bytes) (h : validTrack k n t = true)
    (hn : n < 2147483648) : (decTrack k n).run (encTrack t ++ rest) = some (t, rest) := by
  simp only [validTrack, Bool.and_eq_true] at h
  obtain ⟨hl, hf⟩ := h
  obtain ⟨hlen, hk⟩ := (validFrames_iff k n t.frames).mp hf
  unfold decTrack encTrack
  simp only [D.bind_eq, List.append_assoc]
  rw [text_step' 256 t.label _ _ hl]
  subst hlen
  step (decRuns_run k t.frames rest hk hn)
  rfl

theorem track_length (k n : Nat) (t : Track) (h : validTrack k n t = true) :
    (encTrack t).length = sizeTrack k t := by
  simp only [validTrack, Bool.and_eq_true] at h
  obtain ⟨hl, hf⟩ := h
  obtain ⟨_, hk⟩ := (validFrames_iff k n t.frames).mp hf
  simp [encTrack, sizeTrack, strBytes_length 256 t.label hl, encRuns_length k t.frames hk]

theorem tracks_run (k n : Nat) (ts : List Track) (rest : Bytes)
    (h : ts.all (validTrack k n) = true) (hn : n < 2147483648) :
    (D.rep ts.length (decTrack k n)).run (ts.flatMap encTrack ++ rest) = some (ts, rest) :=
  D.rep_run _ encTrack ts rest (fun t ht r => track_run k n t r (List.all_eq_true.mp h t ht) hn)

theorem tracks_length (k n : Nat) (ts : List Track) (h : ts.all (validTrack k n) = true) :
    (ts.flatMap encTrack).length = sumBy (sizeTrack k) ts :=
  flatMap_length_sumBy _ _ ts (fun t ht => track_length k n t (List.all_eq_true.mp h t ht))

end Tdf
