import TdfProofs.Lemmas.Blocks
namespace Tdf

/-! ### EMG -/
theorem EMG.dec_enc (x : EMG) (h : x.valid = true) (rest : Bytes) :
    (EMG.dec 1).run (x.enc ++ rest) = some (x, rest) := by
  simp only [EMG.valid, Bool.and_eq_true, decide_eq_true_eq, beq_iff_eq] at h
  obtain ⟨⟨⟨⟨⟨⟨⟨hfreq, hns1⟩, hns2⟩, hcl⟩, hnt⟩, hch⟩, hnd⟩, htr⟩ := h
  have hfreq := (inI32_iff _).mp hfreq
  unfold EMG.dec EMG.enc
  simp only [D.bind_eq, List.append_assoc]
  step (D.guard_run _ _ (by decide))
  step (nat32_run _ _ hnt)
  step (D.i32_run _ _ hfreq.1 hfreq.2)
  step (f32_run _ _)
  step (D.i32_run _ _ (by omega) (by omega))
  have e : ((x.nSamples : Int) - 49 + 49).toNat = x.nSamples := by omega
  rw [e]
  step (D.guard_run _ _ (by simp <;> omega))
  step (i16s_run _ _ _ hcl hch)
  step (tracks_run 1 x.nSamples x.tracks _ htr (by omega))
  step (D.guard_run _ _ hnd)
  rfl

theorem EMG.enc_length (x : EMG) (h : x.valid = true) : x.enc.length = x.size := by
  simp only [EMG.valid, Bool.and_eq_true, decide_eq_true_eq, beq_iff_eq] at h
  obtain ⟨⟨⟨⟨⟨⟨⟨hfreq, hns1⟩, hns2⟩, hcl⟩, hnt⟩, hch⟩, hnd⟩, htr⟩ := h
  simp only [EMG.enc, EMG.size, List.length_append, i32le, leBytes_length, f32le_length,
    encI16s_length, tracks_length 1 x.nSamples x.tracks htr]
  omega

/-! ### 3D markers -/
theorem link_run (l : Nat × Nat) (rest : Bytes) (h1 : l.1 < 4294967296) (h2 : l.2 < 4294967296) :
    (do let a ← D.u32; let b ← D.u32; pure (a, b) : D (Nat × Nat)).run (encLink l ++ rest) = some (l, rest) := by
  simp only [D.bind_eq, encLink, List.append_assoc]
  step (D.u32_run _ _ h1)
  step (D.u32_run _ _ h2)
  rfl

theorem decLinks_run (fmt : Nat) (links : List (Nat × Nat)) (rest : Bytes)
    (hlk : fmt = 1 ∨ links = []) (hlkn : links.length < 2147483648)
    (hlka : (links.all fun l => decide (l.fst < 4294967296) && decide (l.snd < 4294967296)) = true) :
    (decLinks fmt).run (encLinks fmt links ++ rest) = some (links, rest) := by
  unfold decLinks encLinks
  by_cases hf : fmt = 1
  · simp only [hf, if_true, D.bind_eq, List.append_assoc]
    step (nat32_run _ _ hlkn)
    step (D.pad_run 4 _)
    exact D.rep_run _ encLink links _ (fun l hl r => by
      have := List.all_eq_true.mp hlka l hl
      simp at this
      exact link_run l r this.1 this.2)
  · have hl : links = [] := by
      rcases hlk with h | h
      · exact absurd h hf
      · exact h
    simp [hf, hl, D.run]

theorem Data3D.dec_enc (x : Data3D) (h : x.valid = true) (rest : Bytes) :
    (Data3D.dec x.fmt).run (x.enc ++ rest) = some (x, rest) := by
  simp only [Data3D.valid, Bool.and_eq_true, Bool.or_eq_true, decide_eq_true_eq, beq_iff_eq,
    List.isEmpty_iff] at h
  obtain ⟨⟨⟨⟨⟨⟨⟨⟨⟨⟨⟨⟨hfmt, hn1⟩, hn2⟩, hfreq⟩, hvol⟩, hrot⟩, htr⟩, hflag⟩, hlk⟩, hlkn⟩, hlka⟩, hnt⟩, htracks⟩ := h
  have hfreq := (inI32_iff _).mp hfreq
  unfold Data3D.dec Data3D.enc
  simp only [D.bind_eq, List.append_assoc]
  step (D.guard_run _ _ (by rcases hfmt with h | h <;> simp [h]))
  step (nat32_run _ _ hn2)
  step (D.i32_run _ _ hfreq.1 hfreq.2)
  step (f32_run _ _)
  step (D.u32_run _ _ hnt)
  step (f32s_run 3 _ _ hvol)
  step (f32s_run 9 _ _ hrot)
  step (f32s_run 3 _ _ htr)
  step (D.u32_run _ _ (by omega))
  step (D.guard_run _ _ (by simpa using hflag))
  step (decLinks_run x.fmt x.links _ hlk hlkn hlka)
  step (tracks_run 3 x.nFrames x.tracks _ htracks hn2)
  rfl

theorem Data3D.enc_length (x : Data3D) (h : x.valid = true) : x.enc.length = x.size := by
  simp only [Data3D.valid, Bool.and_eq_true, Bool.or_eq_true, decide_eq_true_eq, beq_iff_eq,
    List.isEmpty_iff] at h
  obtain ⟨⟨⟨⟨⟨⟨⟨⟨⟨⟨⟨⟨hfmt, hn1⟩, hn2⟩, hfreq⟩, hvol⟩, hrot⟩, htr⟩, hflag⟩, hlk⟩, hlkn⟩, hlka⟩, hnt⟩, htracks⟩ := h
  have hl : (x.links.flatMap encLink).length = x.links.length * 8 :=
    flatMap_length_const encLink 8 x.links (fun _ _ => by simp [encLink, u32le])
  simp only [Data3D.enc, Data3D.size, encLinks, List.length_append, i32le, u32le, leBytes_length, f32le_length,
    encF32s_length, hvol, hrot, htr, tracks_length 3 x.nFrames x.tracks htracks]
  split <;> simp [hl, i32le] <;> omega

/-! ### force / torque -/
theorem Force3D.dec_enc (x : Force3D) (h : x.valid = true) (rest : Bytes) :
    (Force3D.dec 1).run (x.enc ++ rest) = some (x, rest) := by
  simp only [Force3D.valid, Bool.and_eq_true, decide_eq_true_eq, beq_iff_eq] at h
  obtain ⟨⟨⟨⟨⟨⟨⟨hfreq, hn1⟩, hn2⟩, hvol⟩, hrot⟩, htr⟩, hnt⟩, htracks⟩ := h
  have hfreq := (inI32_iff _).mp hfreq
  unfold Force3D.dec Force3D.enc
  simp only [D.bind_eq, List.append_assoc]
  step (D.guard_run _ _ (by decide))
  have e : u32le x.tracks.length = i32le (x.tracks.length : Int) := by
    simp only [u32le, i32le, toTwos]
    congr 1
    have : ((x.tracks.length : Int) % ((256 ^ 4 : Nat) : Int)) = (x.tracks.length : Int) :=
      Int.emod_eq_of_lt (by omega) (by simp; omega)
    rw [this]; simp
  rw [e]
  step (nat32_run _ _ hnt)
  step (D.i32_run _ _ hfreq.1 hfreq.2)
  step (f32_run _ _)
  have e2 : i32le (x.nFrames : Int) = u32le x.nFrames := by
    simp only [u32le, i32le, toTwos]
    congr 1
    have : ((x.nFrames : Int) % ((256 ^ 4 : Nat) : Int)) = (x.nFrames : Int) :=
      Int.emod_eq_of_lt (by omega) (by simp; omega)
    rw [this]; simp
  rw [e2]
  step (D.u32_run _ _ (by omega))
  step (f32s_run 3 _ _ hvol)
  step (f32s_run 9 _ _ hrot)
  step (f32s_run 3 _ _ htr)
  step (D.pad_run 4 _)
  step (tracks_run 9 x.nFrames x.tracks _ htracks hn2)
  rfl

theorem Force3D.enc_length (x : Force3D) (h : x.valid = true) : x.enc.length = x.size := by
  simp only [Force3D.valid, Bool.and_eq_true, decide_eq_true_eq, beq_iff_eq] at h
  obtain ⟨⟨⟨⟨⟨⟨⟨hfreq, hn1⟩, hn2⟩, hvol⟩, hrot⟩, htr⟩, hnt⟩, htracks⟩ := h
  simp only [Force3D.enc, Force3D.size, List.length_append, i32le, u32le, leBytes_length, f32le_length,
    encF32s_length, hvol, hrot, htr, zeros_length, tracks_length 9 x.nFrames x.tracks htracks]

/-! ### force-platform data -/
theorem PlatData.dec_enc (x : PlatData) (h : x.valid = true) (rest : Bytes) :
    (PlatData.dec 1).run (x.enc ++ rest) = some (x, rest) := by
  simp only [PlatData.valid, Bool.and_eq_true, decide_eq_true_eq, beq_iff_eq] at h
  obtain ⟨⟨⟨⟨⟨⟨⟨hfreq, hn1⟩, hn2⟩, hcl⟩, hnp⟩, hch⟩, hnd⟩, hpl⟩ := h
  have hfreq := (inI32_iff _).mp hfreq
  unfold PlatData.dec PlatData.enc
  simp only [D.bind_eq, List.append_assoc]
  step (D.guard_run _ _ (by decide))
  step (nat32_run _ _ hnp)
  step (D.i32_run _ _ hfreq.1 hfreq.2)
  step (f32_run _ _)
  step (nat32_run _ _ hn2)
  step (u16s_run _ _ _ hcl hch)
  step (D.rep_run (decRuns 6 x.nFrames) encRuns x.plats _ (fun fs hfs r => by
    obtain ⟨hl, hk⟩ := (validFrames_iff 6 x.nFrames fs).mp (List.all_eq_true.mp hpl fs hfs)
    rw [← hl]
    exact decRuns_run 6 fs r hk (by omega)))
  step (D.guard_run _ _ hnd)
  rfl

theorem PlatData.enc_length (x : PlatData) (h : x.valid = true) : x.enc.length = x.size := by
  simp only [PlatData.valid, Bool.and_eq_true, decide_eq_true_eq, beq_iff_eq] at h
  obtain ⟨⟨⟨⟨⟨⟨⟨hfreq, hn1⟩, hn2⟩, hcl⟩, hnp⟩, hch⟩, hnd⟩, hpl⟩ := h
  have := flatMap_length_sumBy encRuns (sizeRuns 6) x.plats (fun fs hfs =>
    encRuns_length 6 fs ((validFrames_iff 6 x.nFrames fs).mp (List.all_eq_true.mp hpl fs hfs)).2)
  simp only [PlatData.enc, PlatData.size, List.length_append, i32le, leBytes_length, f32le_length,
    encU16s_length, this]
  omega

/-! ### force-platform calibration -/
theorem PlatInfo.dec_enc (p : PlatInfo) (h : p.valid = true) (rest : Bytes) :
    PlatInfo.dec.run (p.enc ++ rest) = some (p, rest) := by
  simp only [PlatInfo.valid, Bool.and_eq_true, beq_iff_eq] at h
  obtain ⟨⟨hl, hs⟩, hp⟩ := h
  unfold PlatInfo.dec PlatInfo.enc
  simp only [D.bind_eq, List.append_assoc]
  rw [text_step' 256 p.label _ _ hl]
  step (f32s_run 2 _ _ hs)
  step (f32s_run 12 _ _ hp)
  step (D.pad_run 256 _)
  rfl

theorem PlatInfo.enc_length (p : PlatInfo) (h : p.valid = true) : p.enc.length = PlatInfo.nBytes := by
  simp only [PlatInfo.valid, Bool.and_eq_true, beq_iff_eq] at h
  obtain ⟨⟨hl, hs⟩, hp⟩ := h
  simp [PlatInfo.enc, PlatInfo.nBytes, strBytes_length 256 p.label hl, encF32s_length, hs, hp]

theorem PlatCalib.dec_enc (x : PlatCalib) (h : x.valid = true) (rest : Bytes) :
    (PlatCalib.dec 2).run (x.enc ++ rest) = some (x, rest) := by
  simp only [PlatCalib.valid, Bool.and_eq_true, decide_eq_true_eq, beq_iff_eq] at h
  obtain ⟨⟨⟨⟨hcl, hnp⟩, hch⟩, hnd⟩, hpl⟩ := h
  unfold PlatCalib.dec PlatCalib.enc
  simp only [D.bind_eq, List.append_assoc]
  step (D.guard_run _ _ (by decide))
  step (nat32_run _ _ hnp)
  step (D.pad_run 4 _)
  step (i16s_run _ _ _ hcl hch)
  step (D.rep_run PlatInfo.dec PlatInfo.enc x.plats _ (fun p hp r =>
    PlatInfo.dec_enc p (List.all_eq_true.mp hpl p hp) r))
  step (D.guard_run _ _ hnd)
  rfl

theorem PlatCalib.enc_length (x : PlatCalib) (h : x.valid = true) : x.enc.length = x.size := by
  simp only [PlatCalib.valid, Bool.and_eq_true, decide_eq_true_eq, beq_iff_eq] at h
  obtain ⟨⟨⟨⟨hcl, hnp⟩, hch⟩, hnd⟩, hpl⟩ := h
  have := flatMap_length_sumBy PlatInfo.enc (fun _ => PlatInfo.nBytes) x.plats (fun p hp =>
    PlatInfo.enc_length p (List.all_eq_true.mp hpl p hp))
  simp only [PlatCalib.enc, PlatCalib.size, List.length_append, i32le, leBytes_length, zeros_length,
    encI16s_length, this]

/-! ### camera calibration -/
theorem Cam.dec_enc (fmt : Nat) (c : Cam) (h : c.valid fmt = true) (rest : Bytes) :
    (Cam.dec fmt).run (c.enc ++ rest) = some (c, rest) := by
  simp only [Cam.valid, Bool.and_eq_true, beq_iff_eq] at h
  obtain ⟨⟨hfl, hvl⟩, hvr⟩ := h
  unfold Cam.dec Cam.enc
  simp only [D.bind_eq, List.append_assoc]
  step (f64s_run _ _ _ hfl)
  step (i32s_run 4 _ _ hvl hvr)
  rfl

theorem Cam.enc_length (fmt : Nat) (c : Cam) (h : c.valid fmt = true) : c.enc.length = Cam.nBytes fmt := by
  simp only [Cam.valid, Bool.and_eq_true, beq_iff_eq] at h
  obtain ⟨⟨hfl, hvl⟩, hvr⟩ := h
  simp only [Cam.enc, Cam.nBytes, List.length_append, encF64s_length, encI32s_length, hfl, hvl, camFloats]
  split <;> omega

theorem Calib.dec_enc (x : Calib) (h : x.valid = true) (rest : Bytes) :
    (Calib.dec x.fmt).run (x.enc ++ rest) = some (x, rest) := by
  simp only [Calib.valid, Bool.and_eq_true, Bool.or_eq_true, decide_eq_true_eq, beq_iff_eq] at h
  obtain ⟨⟨⟨⟨⟨⟨⟨⟨⟨hfmt, hd0⟩, hd3⟩, hvol⟩, hrot⟩, htr⟩, hml⟩, hnc⟩, hmr⟩, hcams⟩ := h
  unfold Calib.dec Calib.enc
  simp only [D.bind_eq, List.append_assoc]
  step (D.guard_run _ _ (by rcases hfmt with h | h <;> simp [h]))
  step (nat32_run _ _ hnc)
  step (D.i32_run _ _ (by omega) (by omega))
  step (D.guard_run _ _ (by simp; omega))
  step (f32s_run 3 _ _ hvol)
  step (f32s_run 9 _ _ hrot)
  step (f32s_run 3 _ _ htr)
  step (i16s_run _ _ _ hml hmr)
  step (D.rep_run (Cam.dec x.fmt) Cam.enc x.cams _ (fun c hc r =>
    Cam.dec_enc x.fmt c (List.all_eq_true.mp hcams c hc) r))
  rfl

theorem Calib.enc_length (x : Calib) (h : x.valid = true) : x.enc.length = x.size := by
  simp only [Calib.valid, Bool.and_eq_true, Bool.or_eq_true, decide_eq_true_eq, beq_iff_eq] at h
  obtain ⟨⟨⟨⟨⟨⟨⟨⟨⟨hfmt, hd0⟩, hd3⟩, hvol⟩, hrot⟩, htr⟩, hml⟩, hnc⟩, hmr⟩, hcams⟩ := h
  have := flatMap_length_sumBy Cam.enc (fun _ => Cam.nBytes x.fmt) x.cams (fun c hc =>
    Cam.enc_length x.fmt c (List.all_eq_true.mp hcams c hc))
  simp only [Calib.enc, Calib.size, List.length_append, i32le, leBytes_length, encF32s_length,
    encI16s_length, hvol, hrot, htr, hml, this]

/-! ### optical setup -/
theorem OptChan.dec_enc (c : OptChan) (h : c.valid = true) (rest : Bytes) :
    OptChan.dec.run (c.enc ++ rest) = some (c, rest) := by
  simp only [OptChan.valid, Bool.and_eq_true, beq_iff_eq] at h
  obtain ⟨⟨⟨⟨⟨hidx, hlens⟩, htype⟩, hname⟩, hvl⟩, hvr⟩ := h
  have hidx := (inI32_iff _).mp hidx
  unfold OptChan.dec OptChan.enc
  simp only [D.bind_eq, List.append_assoc]
  step (D.i32_run _ _ hidx.1 hidx.2)
  step (D.pad_run 4 _)
  rw [text_step' 32 c.lens _ _ hlens]
  rw [text_step' 32 c.camType _ _ htype]
  rw [text_step' 32 c.name _ _ hname]
  step (i32s_run 4 _ _ hvl hvr)
  rfl

theorem OptChan.enc_length (c : OptChan) (h : c.valid = true) : c.enc.length = OptChan.nBytes := by
  simp only [OptChan.valid, Bool.and_eq_true, beq_iff_eq] at h
  obtain ⟨⟨⟨⟨⟨hidx, hlens⟩, htype⟩, hname⟩, hvl⟩, hvr⟩ := h
  simp [OptChan.enc, OptChan.nBytes, i32le, strBytes_length 32 _ hlens, strBytes_length 32 _ htype,
    strBytes_length 32 _ hname, encI32s_length, hvl]

theorem Optical.dec_enc (x : Optical) (h : x.valid = true) (rest : Bytes) :
    (Optical.dec x.fmt).run (x.enc ++ rest) = some (x, rest) := by
  simp only [Optical.valid, Bool.and_eq_true, decide_eq_true_eq] at h
  obtain ⟨⟨hfmt, hn⟩, hch⟩ := h
  unfold Optical.dec Optical.enc
  simp only [D.bind_eq, List.append_assoc]
  step (D.guard_run _ _ (by simpa using hfmt))
  step (nat32_run _ _ hn)
  step (D.pad_run 4 _)
  step (D.rep_run OptChan.dec OptChan.enc x.chans _ (fun c hc r =>
    OptChan.dec_enc c (List.all_eq_true.mp hch c hc) r))
  rfl

theorem Optical.enc_length (x : Optical) (h : x.valid = true) : x.enc.length = x.size := by
  simp only [Optical.valid, Bool.and_eq_true, decide_eq_true_eq] at h
  obtain ⟨⟨hfmt, hn⟩, hch⟩ := h
  have := flatMap_length_sumBy OptChan.enc (fun _ => OptChan.nBytes) x.chans (fun c hc =>
    OptChan.enc_length c (List.all_eq_true.mp hch c hc))
  simp only [Optical.enc, Optical.size, List.length_append, i32le, leBytes_length, zeros_length, this]

/-! ### events -/
theorem Event.dec_enc (e : Event) (h : e.valid = true) (rest : Bytes) :
    Event.dec.run (e.enc ++ rest) = some (e, rest) := by
  simp only [Event.valid, Bool.and_eq_true, Bool.or_eq_true, decide_eq_true_eq, beq_iff_eq] at h
  obtain ⟨⟨⟨hl, hk⟩, hn⟩, hs⟩ := h
  unfold Event.dec Event.enc
  simp only [D.bind_eq, List.append_assoc]
  rw [text_step' 256 e.label _ _ hl]
  step (D.u32_run _ _ (by omega))
  step (D.guard_run _ _ (by simpa using hk))
  have e2 : u32le e.values.length = i32le (e.values.length : Int) := by
    simp only [u32le, i32le, toTwos]
    congr 1
    have : ((e.values.length : Int) % ((256 ^ 4 : Nat) : Int)) = (e.values.length : Int) :=
      Int.emod_eq_of_lt (by omega) (by simp; omega)
    rw [this]; simp
  rw [e2]
  step (nat32_run _ _ hn)
  step (f32s_run _ _ _ rfl)
  step (D.guard_run _ _ (by simpa using hs))
  rfl

theorem Event.enc_length (e : Event) (h : e.valid = true) : e.enc.length = e.size := by
  simp only [Event.valid, Bool.and_eq_true, Bool.or_eq_true, decide_eq_true_eq, beq_iff_eq] at h
  obtain ⟨⟨⟨hl, hk⟩, hn⟩, hs⟩ := h
  simp [Event.enc, Event.size, u32le, strBytes_length 256 _ hl, encF32s_length]; omega

theorem Events.dec_enc (x : Events) (h : x.valid = true) (rest : Bytes) :
    (Events.dec x.fmt).run (x.enc ++ rest) = some (x, rest) := by
  simp only [Events.valid, Bool.and_eq_true, decide_eq_true_eq] at h
  obtain ⟨⟨hfmt, hn⟩, hev⟩ := h
  unfold Events.dec Events.enc
  simp only [D.bind_eq, List.append_assoc]
  step (D.guard_run _ _ (by simpa using hfmt))
  step (nat32_run _ _ hn)
  step (f32_run _ _)
  step (D.rep_run Event.dec Event.enc x.events _ (fun e he r =>
    Event.dec_enc e (List.all_eq_true.mp hev e he) r))
  rfl

theorem Events.enc_length (x : Events) (h : x.valid = true) : x.enc.length = x.size := by
  simp only [Events.valid, Bool.and_eq_true, decide_eq_true_eq] at h
  obtain ⟨⟨hfmt, hn⟩, hev⟩ := h
  have := flatMap_length_sumBy Event.enc Event.size x.events (fun e he =>
    Event.enc_length e (List.all_eq_true.mp hev e he))
  simp only [Events.enc, Events.size, List.length_append, i32le, leBytes_length, f32le_length, this]

end Tdf
