import TdfModel.Dec
import TdfProofs.Lemmas.Bytes
namespace Tdf
namespace D

@[simp] theorem pure_eq (a : α) : (Pure.pure a : D α) = D.pure a := rfl
@[simp] theorem bind_eq (p : D α) (f : α → D β) : (p >>= f) = D.bind p f := rfl

theorem short_eq (n : Nat) (bs : Bytes) : short n bs = decide (bs.length < n) := by
  induction n generalizing bs with
  | zero => simp [short]
  | succ n ih =>
    cases bs with
    | nil => simp [short]
    | cons b bs => simp [short, ih]

theorem run_bind (p : D α) (f : α → D β) (bs : Bytes) :
    (p.bind f).run bs = match p.run bs with
      | none => none
      | some (a, r) => (f a).run r := by
  induction p generalizing bs with
  | pure a => simp [bind, run]
  | fail => simp [bind, run]
  | take n k ih => simp only [bind, run, short_eq, decide_eq_true_eq]; split <;> simp [ih]
  | skip n k ih => simp only [bind, run, short_eq, decide_eq_true_eq]; split <;> simp [ih]
  | str n k ih => simp only [bind, run, short_eq, decide_eq_true_eq]; split <;> simp [ih]

/-- the instrumented interpreter computes the same value and rest as the plain one -/
theorem run_eq_runM (p : D α) (bs : Bytes) :
    p.run bs = (p.runM bs).map (fun x => (x.1, x.2.2)) := by
  induction p generalizing bs with
  | pure a => simp [run, runM]
  | fail => simp [run, runM]
  | take n k ih =>
    simp only [run, runM, short_eq, decide_eq_true_eq]; split
    · simp
    · rw [ih]; cases (k (List.take n bs)).runM (List.drop n bs) <;> simp
  | skip n k ih =>
    simp only [run, runM, short_eq, decide_eq_true_eq]; split
    · simp
    · rw [ih]; cases k.runM (List.drop n bs) <;> simp
  | str n k ih =>
    simp only [run, runM, short_eq, decide_eq_true_eq]; split
    · simp
    · rw [ih]; cases (k (cutNul (List.take n bs))).runM (List.drop n bs) <;> simp

@[simp] theorem strMask_length (bs : Bytes) : (strMask bs).length = bs.length := by
  induction bs with
  | nil => rfl
  | cons b bs ih => simp only [strMask]; split <;> simp [ih]

/-- what is consumed is a prefix, and the mask has one flag per consumed byte -/
theorem runM_prefix (p : D α) (bs : Bytes) (a : α) (m : List Bool) (r : Bytes)
    (h : p.runM bs = some (a, m, r)) : ∃ c, bs = c ++ r ∧ c.length = m.length := by
  induction p generalizing bs m with
  | pure a' => simp [runM] at h; obtain ⟨_, rfl, rfl⟩ := h; exact ⟨[], by simp⟩
  | fail => simp [runM] at h
  | take n k ih =>
    simp only [runM, short_eq, decide_eq_true_eq] at h
    split at h
    · simp at h
    · rename_i hn
      split at h
      · simp at h
      · rename_i a' m' r' heq
        simp at h; obtain ⟨rfl, rfl, rfl⟩ := h
        obtain ⟨c, hc, hl⟩ := ih _ _ _ heq
        refine ⟨bs.take n ++ c, ?_, ?_⟩
        · rw [List.append_assoc, ← hc, List.take_append_drop]
        · simp [hl] <;> omega
  | skip n k ih =>
    simp only [runM, short_eq, decide_eq_true_eq] at h
    split at h
    · simp at h
    · rename_i hn
      split at h
      · simp at h
      · rename_i a' m' r' heq
        simp at h; obtain ⟨rfl, rfl, rfl⟩ := h
        obtain ⟨c, hc, hl⟩ := ih _ _ heq
        refine ⟨bs.take n ++ c, ?_, ?_⟩
        · rw [List.append_assoc, ← hc, List.take_append_drop]
        · simp [hl] <;> omega
  | str n k ih =>
    simp only [runM, short_eq, decide_eq_true_eq] at h
    split at h
    · simp at h
    · rename_i hn
      split at h
      · simp at h
      · rename_i a' m' r' heq
        simp at h; obtain ⟨rfl, rfl, rfl⟩ := h
        obtain ⟨c, hc, hl⟩ := ih _ _ _ heq
        refine ⟨bs.take n ++ c, ?_, ?_⟩
        · rw [List.append_assoc, ← hc, List.take_append_drop]
        · simp [hl] <;> omega

/-- two byte strings agree wherever the mask says "care" -/
def AgreeOn (m : List Bool) (c c' : Bytes) : Prop :=
  ∀ i : Nat, m[i]? = some true → c'[i]? = c[i]?

theorem agreeOn_append_left {m1 m2 : List Bool} {c1 c2 c1' c2' : Bytes}
    (h1 : c1.length = m1.length) (h1' : c1'.length = m1.length)
    (h : AgreeOn (m1 ++ m2) (c1 ++ c2) (c1' ++ c2')) : AgreeOn m1 c1 c1' := by
  intro i hi
  have hlt : i < m1.length := by
    rcases Nat.lt_or_ge i m1.length with h | h
    · exact h
    · rw [List.getElem?_eq_none h] at hi
      exact absurd hi (by simp)
  have := h i (by rw [List.getElem?_append_left hlt]; exact hi)
  rwa [List.getElem?_append_left (by omega), List.getElem?_append_left (by omega)] at this

theorem agreeOn_append_right {m1 m2 : List Bool} {c1 c2 c1' c2' : Bytes}
    (h1 : c1.length = m1.length) (h1' : c1'.length = m1.length)
    (h : AgreeOn (m1 ++ m2) (c1 ++ c2) (c1' ++ c2')) : AgreeOn m2 c2 c2' := by
  intro i hi
  have := h (m1.length + i) (by rw [List.getElem?_append_right (by omega)]; simpa using hi)
  rw [List.getElem?_append_right (by omega), List.getElem?_append_right (by omega)] at this
  simpa [h1, h1'] using this

theorem agreeOn_all_true {c c' : Bytes} (n : Nat) (h : c.length = n) (h' : c'.length = n)
    (ha : AgreeOn (List.replicate n true) c c') : c' = c := by
  apply List.ext_getElem?
  intro i
  rcases Nat.lt_or_ge i n with hi | hi
  · exact ha i (by simp [hi])
  · rw [List.getElem?_eq_none (by omega), List.getElem?_eq_none (by omega)]

/-- text fields: agreeing up to and including the first NUL means the same cut and the same mask -/
theorem cutNul_of_agree (c c' : Bytes) (hl : c'.length = c.length)
    (ha : AgreeOn (strMask c) c c') : cutNul c' = cutNul c ∧ strMask c' = strMask c := by
  induction c generalizing c' with
  | nil => cases c' <;> simp_all [cutNul, strMask]
  | cons b bs ih =>
    cases c' with
    | nil => simp at hl
    | cons b' bs' =>
      have h0 : b' = b := by
        have := ha 0 (by simp only [strMask]; split <;> simp)
        simpa using this
      subst h0
      simp only [cutNul, strMask]
      by_cases hb : b' = 0
      · simp [hb] at hl ⊢; omega
      · simp only [hb, if_false]
        have hl' : bs'.length = bs.length := by simpa using hl
        have := ih bs' hl' (by
          intro i hi
          have := ha (i+1) (by simp only [strMask, hb, if_false]; simpa using hi)
          simpa using this)
        simp [this.1, this.2]

/-- Non-interference: bytes not marked "care" cannot influence value, mask or consumption.
    Holds for EVERY decoder program. -/
theorem ni (p : D α) (c r : Bytes) (a : α) (m : List Bool)
    (h : p.runM (c ++ r) = some (a, m, r)) (hc : c.length = m.length)
    (c' r' : Bytes) (hc' : c'.length = m.length) (ha : AgreeOn m c c') :
    p.runM (c' ++ r') = some (a, m, r') := by
  induction p generalizing c c' m with
  | pure a' =>
    simp [runM] at h; obtain ⟨rfl, rfl, h3⟩ := h
    simp at hc hc'; subst hc; subst hc'; simp [runM]
  | fail => simp [runM] at h
  | take n k ih =>
    simp only [runM, short_eq, decide_eq_true_eq] at h
    split at h
    · simp at h
    · rename_i hn
      split at h
      · simp at h
      · rename_i a' m' r'' heq
        simp at h; obtain ⟨rfl, rfl, rfl⟩ := h
        simp at hc hc'
        have hnc : n ≤ c.length := by omega
        have hnc' : n ≤ c'.length := by omega
        have e1 : c = c.take n ++ c.drop n := (List.take_append_drop n c).symm
        have e1' : c' = c'.take n ++ c'.drop n := (List.take_append_drop n c').symm
        have hagree : AgreeOn (List.replicate n true ++ m') (c.take n ++ c.drop n) (c'.take n ++ c'.drop n) := by
          rw [← e1, ← e1']; exact ha
        have hA := agreeOn_append_left (m1 := List.replicate n true) (by simp; omega) (by simp; omega) hagree
        have hB := agreeOn_append_right (m1 := List.replicate n true) (by simp; omega) (by simp; omega) hagree
        have htake : c'.take n = c.take n := agreeOn_all_true n (by simp; omega) (by simp; omega) hA
        have hT : (c ++ r'').take n = c.take n := by rw [List.take_append_of_le_length hnc]
        have hD : (c ++ r'').drop n = c.drop n ++ r'' := by rw [List.drop_append_of_le_length hnc]
        have hT' : (c' ++ r').take n = c'.take n := by rw [List.take_append_of_le_length hnc']
        have hD' : (c' ++ r').drop n = c'.drop n ++ r' := by rw [List.drop_append_of_le_length hnc']
        rw [hT, hD] at heq
        have := ih _ (c.drop n) _ heq (by simp; omega) (c'.drop n) (by simp; omega) hB
        simp only [runM, short_eq, decide_eq_true_eq]
        rw [if_neg (by simp; omega), hT', hD', htake, this]
  | skip n k ih =>
    simp only [runM, short_eq, decide_eq_true_eq] at h
    split at h
    · simp at h
    · rename_i hn
      split at h
      · simp at h
      · rename_i a' m' r'' heq
        simp at h; obtain ⟨rfl, rfl, rfl⟩ := h
        simp at hc hc'
        have hnc : n ≤ c.length := by omega
        have hnc' : n ≤ c'.length := by omega
        have e1 : c = c.take n ++ c.drop n := (List.take_append_drop n c).symm
        have e1' : c' = c'.take n ++ c'.drop n := (List.take_append_drop n c').symm
        have hagree : AgreeOn (List.replicate n false ++ m') (c.take n ++ c.drop n) (c'.take n ++ c'.drop n) := by
          rw [← e1, ← e1']; exact ha
        have hB := agreeOn_append_right (m1 := List.replicate n false) (by simp; omega) (by simp; omega) hagree
        have hD : (c ++ r'').drop n = c.drop n ++ r'' := by rw [List.drop_append_of_le_length hnc]
        have hD' : (c' ++ r').drop n = c'.drop n ++ r' := by rw [List.drop_append_of_le_length hnc']
        rw [hD] at heq
        have := ih (c.drop n) _ heq (by simp; omega) (c'.drop n) (by simp; omega) hB
        simp only [runM, short_eq, decide_eq_true_eq]
        rw [if_neg (by simp; omega), hD', this]
  | str n k ih =>
    simp only [runM, short_eq, decide_eq_true_eq] at h
    split at h
    · simp at h
    · rename_i hn
      split at h
      · simp at h
      · rename_i a' m' r'' heq
        simp at h; obtain ⟨rfl, rfl, rfl⟩ := h
        simp at hc hc'
        have hnc : n ≤ c.length := by simp at hn; omega
        have hT : (c ++ r'').take n = c.take n := by rw [List.take_append_of_le_length hnc]
        have hD : (c ++ r'').drop n = c.drop n ++ r'' := by rw [List.drop_append_of_le_length hnc]
        rw [hT] at ha
        have hnc' : n ≤ c'.length := by omega
        have hT' : (c' ++ r').take n = c'.take n := by rw [List.take_append_of_le_length hnc']
        have hD' : (c' ++ r').drop n = c'.drop n ++ r' := by rw [List.drop_append_of_le_length hnc']
        have e1 : c = c.take n ++ c.drop n := (List.take_append_drop n c).symm
        have e1' : c' = c'.take n ++ c'.drop n := (List.take_append_drop n c').symm
        have hagree : AgreeOn (strMask (c.take n) ++ m') (c.take n ++ c.drop n) (c'.take n ++ c'.drop n) := by
          rw [← e1, ← e1']; exact ha
        have hA := agreeOn_append_left (m1 := strMask (c.take n)) (by simp) (by simp; omega) hagree
        have hB := agreeOn_append_right (m1 := strMask (c.take n)) (by simp) (by simp; omega) hagree
        have hcut := cutNul_of_agree (c.take n) (c'.take n) (by simp; omega) hA
        rw [hT, hD] at heq
        have := ih _ (c.drop n) _ heq (by simp at hc ⊢; omega) (c'.drop n) (by simp at hc' ⊢; omega) hB
        simp only [runM, short_eq, decide_eq_true_eq]
        rw [if_neg (by simp; omega), hT', hD', hcut.1, hcut.2, this, hT]

end D
end Tdf

/-! ### step lemmas: how each primitive reader consumes what the matching writer produced -/
namespace Tdf
namespace D

theorem run_pure (a : α) (bs : Bytes) : (D.pure a).run bs = some (a, bs) := rfl

theorem take_run (n : Nat) (k : Bytes → D α) (b rest : Bytes) (h : b.length = n) :
    (D.take n k).run (b ++ rest) = (k b).run rest := by
  simp only [run, short_eq, decide_eq_true_eq]
  rw [if_neg (by simp; omega), List.take_append_of_le_length (by omega),
      List.drop_append_of_le_length (by omega), List.take_of_length_le (by omega),
      List.drop_eq_nil_of_le (by omega)]
  simp

theorem skip_run (n : Nat) (k : D α) (b rest : Bytes) (h : b.length = n) :
    (D.skip n k).run (b ++ rest) = k.run rest := by
  simp only [run, short_eq, decide_eq_true_eq]
  rw [if_neg (by simp; omega), List.drop_append_of_le_length (by omega),
      List.drop_eq_nil_of_le (by omega)]
  simp

theorem u16_run (n : Nat) (rest : Bytes) (h : n < 65536) :
    D.u16.run (u16le n ++ rest) = some (n, rest) := by
  unfold D.u16 u16le
  rw [take_run _ _ _ _ (by simp)]
  simp [run, leNat_leBytes 2 n (by omega)]

theorem u32_run (n : Nat) (rest : Bytes) (h : n < 4294967296) :
    D.u32.run (u32le n ++ rest) = some (n, rest) := by
  unfold D.u32 u32le
  rw [take_run _ _ _ _ (by simp)]
  simp [run, leNat_leBytes 4 n (by omega)]

theorem i16_run (z : Int) (rest : Bytes) (h1 : -32768 ≤ z) (h2 : z < 32768) :
    D.i16.run (i16le z ++ rest) = some (z, rest) := by
  unfold D.i16 i16le
  rw [take_run _ _ _ _ (by simp)]
  simp only [run]
  rw [leNat_leBytes 2 _ (toTwos_lt 2 z), ofTwos_toTwos 2 z (by omega) (by simp; omega) (by simp; omega)]

theorem i32_run (z : Int) (rest : Bytes) (h1 : -2147483648 ≤ z) (h2 : z < 2147483648) :
    D.i32.run (i32le z ++ rest) = some (z, rest) := by
  unfold D.i32 i32le
  rw [take_run _ _ _ _ (by simp)]
  simp only [run]
  rw [leNat_leBytes 4 _ (toTwos_lt 4 z), ofTwos_toTwos 4 z (by omega) (by simp; omega) (by simp; omega)]

theorem pad_run (n : Nat) (rest : Bytes) : (D.pad n).run (zeros n ++ rest) = some ((), rest) := by
  unfold D.pad
  rw [skip_run _ _ _ _ (by simp)]
  rfl

theorem raw_run (b rest : Bytes) : (D.raw b.length).run (b ++ rest) = some (b, rest) := by
  unfold D.raw
  rw [take_run _ _ _ _ rfl]
  rfl

theorem guard_true_run (bs : Bytes) : (D.guard true).run bs = some ((), bs) := rfl

/-- sequencing: if `p` reads `x` off the front, `p >>= f` continues with `f x` -/
theorem bind_run_of (p : D α) (f : α → D β) (bs r : Bytes) (x : α)
    (h : p.run bs = some (x, r)) : (p.bind f).run bs = (f x).run r := by
  rw [run_bind, h]

theorem repK_run (p : D α) (e : α → Bytes) (xs : List α) (k : List α → D β) (rest : Bytes)
    (hp : ∀ x ∈ xs, ∀ r, p.run (e x ++ r) = some (x, r)) :
    (D.repK xs.length p k).run (xs.flatMap e ++ rest) = (k xs).run rest := by
  induction xs generalizing k rest with
  | nil => simp [repK]
  | cons x xs ih =>
    simp only [List.length_cons, repK, List.flatMap_cons, List.append_assoc]
    rw [bind_run_of _ _ _ _ x (hp x (by simp) _)]
    exact ih _ _ (fun y hy r => hp y (by simp [hy]) r)

theorem rep_run (p : D α) (e : α → Bytes) (xs : List α) (rest : Bytes)
    (hp : ∀ x ∈ xs, ∀ r, p.run (e x ++ r) = some (x, r)) :
    (D.rep xs.length p).run (xs.flatMap e ++ rest) = some (xs, rest) := by
  unfold rep; rw [repK_run p e xs _ rest hp]; rfl

theorem forK_run (f : γ → D α) (e : α → Bytes) (arg : α → γ) (xs : List α) (k : List α → D β)
    (rest : Bytes) (hp : ∀ x ∈ xs, ∀ r, (f (arg x)).run (e x ++ r) = some (x, r)) :
    (D.forK (xs.map arg) f k).run (xs.flatMap e ++ rest) = (k xs).run rest := by
  induction xs generalizing k rest with
  | nil => simp [forK]
  | cons x xs ih =>
    simp only [List.map_cons, forK, List.flatMap_cons, List.append_assoc]
    rw [bind_run_of _ _ _ _ x (hp x (by simp) _)]
    exact ih _ _ (fun y hy r => hp y (by simp [hy]) r)

/-- a loop whose body depends on an argument taken from a list (`for seg in segments: read …`) -/
theorem forM'_run (f : γ → D α) (e : α → Bytes) (arg : α → γ) (xs : List α) (rest : Bytes)
    (hp : ∀ x ∈ xs, ∀ r, (f (arg x)).run (e x ++ r) = some (x, r)) :
    (D.forM' (xs.map arg) f).run (xs.flatMap e ++ rest) = some (xs, rest) := by
  unfold forM'; rw [forK_run f e arg xs _ rest hp]; rfl

end D
end Tdf

namespace Tdf
theorem D.guard_run (c : Bool) (bs : Bytes) (h : c = true) : (D.guard c).run bs = some ((), bs) := by
  subst h; rfl
end Tdf
