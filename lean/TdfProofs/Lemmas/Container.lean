import TdfProofs.Lemmas.Table
namespace Tdf

/-- a well-formed layout: 64 header bytes, exactly n slots, encodable metadata, file below 2 GiB,
    no live block of type 0, at most one block per type -/
structure Lay.Ok (l : Lay) : Prop where
  hdr_len : l.hdr.length = 64
  count : l.bs.length + l.fs.length = l.n
  blocks_ok : ∀ b ∈ l.bs, b.fieldsOk = true
  frees_ok : ∀ f ∈ l.fs, f.fieldsOk = true
  fits : l.eod < 2147483648
  live : ∀ b ∈ l.bs, b.typ ≠ 0
  nodup : (l.bs.map (·.typ)).Nodup
  hdr_parse : ∃ h : Header, h.nEntries = (l.n : Int) ∧ ∀ rest, Header.dec.run (l.hdr ++ rest) = some (h, rest)

theorem inI32_nat (n : Nat) (h : n < 2147483648) : inI32 (n : Int) = true := by
  simp [inI32]; omega

theorem liveEntries_valid (s : Nat) (bs : List LBlock) (hb : ∀ b ∈ bs, b.fieldsOk = true)
    (hfit : s + (dataOf bs).length < 2147483648) : TableValid (liveEntries s bs) := by
  induction bs generalizing s with
  | nil => intro e he; simp [liveEntries] at he
  | cons b bs ih =>
    have hlen : (dataOf (b :: bs)).length = b.payload.length + (dataOf bs).length := by
      simp [dataOf, List.flatMap_cons]
    rw [hlen] at hfit
    intro e he
    simp only [liveEntries, List.mem_cons] at he
    rcases he with rfl | he
    · have := hb b (by simp)
      simp only [LBlock.fieldsOk, Bool.and_eq_true] at this
      obtain ⟨⟨⟨⟨⟨h1, h2⟩, h3⟩, h4⟩, h5⟩, h6⟩ := this
      simp only [Entry.valid, liveEntry, Bool.and_eq_true]
      exact ⟨⟨⟨⟨⟨⟨⟨h1, h2⟩, inI32_nat _ (by omega)⟩, inI32_nat _ (by omega)⟩, h3⟩, h4⟩, h5⟩, h6⟩
    · exact ih (s + b.payload.length) (fun x hx => hb x (by simp [hx])) (by omega) e he

theorem freeEntries_valid (e : Nat) (fs : List FreeMeta) (hf : ∀ f ∈ fs, f.fieldsOk = true)
    (he : e < 2147483648) : TableValid (freeEntries e fs) := by
  intro x hx
  simp only [freeEntries, List.mem_map] at hx
  obtain ⟨f, hf', rfl⟩ := hx
  have := hf f hf'
  simp only [FreeMeta.fieldsOk, Bool.and_eq_true] at this
  obtain ⟨⟨⟨⟨h2, h3⟩, h4⟩, h5⟩, h6⟩ := this
  simp only [Entry.valid, freeEntry, Bool.and_eq_true]
  exact ⟨⟨⟨⟨⟨⟨⟨by simp, h2⟩, inI32_nat _ he⟩, by simp [inI32]⟩, h3⟩, h4⟩, h5⟩, h6⟩

theorem Lay.Ok.valid {l : Lay} (ok : l.Ok) : TableValid l.table :=
  TableValid.append (liveEntries_valid _ _ ok.blocks_ok ok.fits) (freeEntries_valid _ _ ok.frees_ok ok.fits)

theorem valid_setOff (e : Entry) (o : Int) (h : e.valid = true) (ho : inI32 o = true) :
    ({ e with off := o } : Entry).valid = true := by
  simp only [Entry.valid, Bool.and_eq_true] at h ⊢
  obtain ⟨⟨⟨⟨⟨⟨⟨h1, h2⟩, _⟩, h4⟩, h5⟩, h6⟩, h7⟩, h8⟩ := h
  exact ⟨⟨⟨⟨⟨⟨⟨h1, h2⟩, ho⟩, h4⟩, h5⟩, h6⟩, h7⟩, h8⟩

theorem Lay.image_length (l : Lay) (ok : l.Ok) : l.image.length = l.eod := by
  have ht : l.table.length = l.n := by simp [Lay.table, ok.count]
  simp only [Lay.image, List.length_append, ok.hdr_len, table_bytes_length l.table ok.valid, ht, Lay.eod, tableStart]

theorem hasType_table (l : Lay) (t : Nat) (ht : t ≠ 0) : hasType t l.table = l.hasType t := by
  simp only [hasType, Lay.table, List.any_append, Lay.hasType]
  have h2 : (freeEntries l.eod l.fs).any (fun e => e.typ == t) = false := by
    apply List.any_eq_false.mpr
    intro x hx; rw [freeEntries_typ _ _ x hx]; simp; exact fun h => ht h.symm
  rw [h2, Bool.or_false]
  generalize tableStart l.n = s
  induction l.bs generalizing s with
  | nil => rfl
  | cons b bs ih => simp [liveEntries, liveEntry, ih]

theorem freeEntries_valid_setOff (e e' : Nat) (fs : List FreeMeta)
    (h : TableValid (freeEntries e fs)) (he' : e' < 2147483648) : TableValid (freeEntries e' fs) := by
  intro x hx
  simp only [freeEntries, List.mem_map] at hx
  obtain ⟨f, hf, rfl⟩ := hx
  have := h (freeEntry e f) (by simp [freeEntries]; exact ⟨f, hf, rfl⟩)
  exact valid_setOff (freeEntry e f) e' this (inI32_nat e' he')

/-- ADD refines "append to the list of blocks, consume one unused slot" -/
theorem add_sim (l : Lay) (ok : l.Ok) (b : BlkArg) (c : Str) (now : Int) (pl : Bytes)
    (hne : l.fs ≠ []) (hdup : l.hasType b.typ = false) (h0 : b.typ ≠ 0)
    (hchk : checkArg b c now = .ok pl) (hsz : pl.length = b.size) (hfit : l.eod + b.size < 2147483648) :
    addBlock l.state b c now = ((l.add b pl c now).state, .ok) ∧ (l.add b pl c now).Ok := by
  obtain ⟨hdr, n, bs, fs⟩ := l
  cases fs with
  | nil => exact absurd rfl hne
  | cons f fs' =>
  -- names
  let l0 : Lay := ⟨hdr, n, bs, f :: fs'⟩
  have hl0 : l0 = ⟨hdr, n, bs, f :: fs'⟩ := rfl
  let start := tableStart n
  let eod := start + (dataOf bs).length
  have heod : l0.eod = eod := rfl
  let live := liveEntries start bs
  have hT : l0.table = live ++ [freeEntry eod f] ++ freeEntries eod fs' := by
    simp [Lay.table, freeEntries, live, l0, Lay.eod, eod, start]
  have hvT := ok.valid
  rw [hT] at hvT
  have hvlive : TableValid live := hvT.left.left
  have hvfe : TableValid [freeEntry eod f] := hvT.left.right
  have hvfs : TableValid (freeEntries eod fs') := hvT.right
  have heod_lt : eod < 2147483648 := by simp only [Lay.eod] at hfit; omega
  -- the new entry
  obtain ⟨plb, hplb⟩ : ∃ p, b.payload = some p := by
    unfold checkArg at hchk; cases hp : b.payload with
    | none => simp [hp] at hchk
    | some p => exact ⟨p, rfl⟩
  have hpl : plb = pl ∧ (⟨b.typ, b.fmt, 0, b.size, b.cdate, b.mdate, now, c⟩ : Entry).valid = true := by
    unfold checkArg at hchk; simp only [hplb] at hchk
    split at hchk
    · rename_i hv; injection hchk with h; exact ⟨h, hv⟩
    · cases hchk
  let e : Entry := ⟨b.typ, b.fmt, (eod : Int), b.size, b.cdate, b.mdate, now, c⟩
  have hve : e.valid = true := valid_setOff _ (eod : Int) hpl.2 (inI32_nat eod heod_lt)
  have hvlater : TableValid (freeEntries (eod + b.size) fs') :=
    freeEntries_valid_setOff eod _ fs' hvfs (by simp only [Lay.eod] at hfit; omega)
  have hlivetyp : ∀ x ∈ live, (x.typ == 0) = false := by
    intro x hx
    obtain ⟨bb, hbb, ht⟩ := liveEntries_typ _ _ x hx
    simp [ht, ok.live bb hbb]
  -- the searches
  have h1 : hasType b.typ l0.table = false := by rw [hasType_table l0 b.typ h0]; exact hdup
  have h2 : firstUnused l0.table = some bs.length := by
    rw [hT, List.append_assoc]
    unfold firstUnused
    rw [findIdxBy_append_left _ _ _ hlivetyp]
    simp [findIdxBy, freeEntry, live]
  have hdrop : l0.table.drop (bs.length + 1) = freeEntries eod fs' := by
    rw [hT]
    have : (live ++ [freeEntry eod f]).length = bs.length + 1 := by simp [live]
    rw [← this, List.drop_left]
  have htake : l0.table.take bs.length = live := by
    rw [hT, List.append_assoc]
    have : live.length = bs.length := by simp [live]
    rw [← this, List.take_left]
  have hget : l0.table.getD bs.length unusedEntry = freeEntry eod f := by
    rw [hT, List.append_assoc, List.getD_eq_getElem?_getD]
    have : live.length = bs.length := by simp [live]
    rw [← this, List.getElem?_append_right (by omega)]
    simp
  have h3 : (l0.table.drop (bs.length + 1)).any (fun e => e.typ != 0) = false := by
    rw [hdrop]; apply List.any_eq_false.mpr
    intro x hx; simp [freeEntries_typ _ _ x hx]
  have hlater : (freeEntries eod fs').map (fun x => { x with off := (eod : Int) + (b.size : Int) })
      = freeEntries (eod + b.size) fs' := by
    have := freeEntries_setOff eod (eod + b.size) fs'
    simpa using this
  -- the writes
  have himg : l0.image = hdr ++ (live ++ [freeEntry eod f] ++ freeEntries eod fs').flatMap Entry.enc ++ dataOf bs := by
    simp only [Lay.image, hT]; rfl
  have hw1 : writeAt l0.image (slotPos bs.length) e.enc
      = hdr ++ (live ++ [e] ++ freeEntries eod fs').flatMap Entry.enc ++ dataOf bs := by
    rw [himg]
    have := writeAt_table hdr (dataOf bs) live [freeEntry eod f] [e] (freeEntries eod fs') ok.hdr_len hvlive hvfe
      (by intro x hx; simp at hx; subst hx; exact hve) rfl
    simpa [live] using this
  have hw2 : writeEntries (hdr ++ (live ++ [e] ++ freeEntries eod fs').flatMap Entry.enc ++ dataOf bs) (bs.length + 1)
        (freeEntries (eod + b.size) fs')
      = hdr ++ (live ++ [e] ++ freeEntries (eod + b.size) fs').flatMap Entry.enc ++ dataOf bs := by
    have := writeEntries_table hdr (dataOf bs) (live ++ [e]) (freeEntries eod fs') (freeEntries (eod + b.size) fs') []
      ok.hdr_len (TableValid.append hvlive (by intro x hx; simp at hx; subst hx; exact hve)) hvfs hvlater (by simp)
    simpa [live] using this
  have hnewT : (Lay.add l0 b pl c now).table = live ++ [e] ++ freeEntries (eod + b.size) fs' := by
    simp only [Lay.add, Lay.table, Lay.eod, List.tail_cons, l0]
    rw [liveEntries_append, dataOf_append]
    simp [liveEntries, liveEntry, newBlock, dataOf, hsz, live, e, eod, start, Nat.add_assoc]
  have hnewOk : (Lay.add l0 b pl c now).Ok := by
    refine ⟨ok.hdr_len, ?_, ?_, ?_, ?_, ?_, ?_, ok.hdr_parse⟩
    · have := ok.count; simp [Lay.add, l0] at this ⊢; omega
    · intro x hx; simp [Lay.add, l0] at hx
      rcases hx with hx | rfl
      · exact ok.blocks_ok x hx
      · have := hpl.2
        simp only [Entry.valid, Bool.and_eq_true] at this
        obtain ⟨⟨⟨⟨⟨⟨⟨h1, h2⟩, _⟩, _⟩, h5⟩, h6⟩, h7⟩, h8⟩ := this
        simp only [LBlock.fieldsOk, newBlock, Bool.and_eq_true]
        exact ⟨⟨⟨⟨⟨h1, h2⟩, h5⟩, h6⟩, h7⟩, h8⟩
    · intro x hx; simp [Lay.add, l0] at hx
      exact ok.frees_ok x (by simp [hx])
    · have hd : (dataOf (bs ++ [newBlock b pl c now])).length = (dataOf bs).length + b.size := by
        rw [dataOf_append]; simp [dataOf, newBlock, hsz]
      simp only [Lay.add, Lay.eod, l0, hd]
      simp only [Lay.eod] at hfit
      omega
    · intro x hx; simp [Lay.add, l0] at hx
      rcases hx with hx | rfl
      · exact ok.live x hx
      · exact h0
    · simp only [Lay.add, l0, List.map_append, List.map_cons, List.map_nil]
      have hnd := ok.nodup
      rw [List.nodup_append]
      refine ⟨hnd, by simp, ?_⟩
      intro a ha a' ha'
      simp at ha'
      subst ha'
      intro heq; subst heq
      simp only [Lay.hasType, List.any_eq_false, beq_iff_eq] at hdup
      simp at ha
      obtain ⟨bb, hbb, hty⟩ := ha
      exact hdup bb hbb hty
  refine ⟨?_, hnewOk⟩
  -- evaluate addBlock
  have h3' : (freeEntries eod fs').any (fun e => e.typ != 0) = false := by rw [← hdrop]; exact h3
  have hoff : ((eod : Int)).toNat = eod := by simp
  have hlen : (hdr ++ (live ++ [e] ++ freeEntries (eod + b.size) fs').flatMap Entry.enc ++ dataOf bs).length = eod := by
    have hv : TableValid (live ++ [e] ++ freeEntries (eod + b.size) fs') :=
      TableValid.append (TableValid.append hvlive (by intro x hx; simp at hx; subst hx; exact hve)) hvlater
    have hc := ok.count
    simp only [List.length_append, ok.hdr_len, table_bytes_length _ hv, List.length_cons, List.length_nil,
      liveEntries_length, freeEntries_length, live] at hc ⊢
    simp only [eod, start, tableStart]
    omega
  have hwend : writeAt (hdr ++ (live ++ [e] ++ freeEntries (eod + b.size) fs').flatMap Entry.enc ++ dataOf bs) eod pl
      = hdr ++ (live ++ [e] ++ freeEntries (eod + b.size) fs').flatMap Entry.enc ++ dataOf bs ++ pl := by
    have := writeAt_end (hdr ++ (live ++ [e] ++ freeEntries (eod + b.size) fs').flatMap Entry.enc ++ dataOf bs) pl
    rw [hlen] at this; exact this
  have himg' : (Lay.add l0 b pl c now).image
      = hdr ++ (live ++ [e] ++ freeEntries (eod + b.size) fs').flatMap Entry.enc ++ dataOf bs ++ pl := by
    simp only [Lay.image, hnewT]
    simp [Lay.add, l0, dataOf_append, dataOf, newBlock, List.append_assoc]
  show addBlock l0.state b c now = ((Lay.add l0 b pl c now).state, Outcome.ok)
  unfold addBlock
  simp only [Lay.state, h1, Bool.false_eq_true, if_false, h2, hchk, hdrop, h3', hget, htake, freeEntry, hlater,
    hoff]
  rw [hw1, hw2, hwend, hnewT, himg']
  simp [Lay.add, l0, e]

theorem removeType_split (t : Nat) (pre post : List LBlock) (x : LBlock)
    (hx : x.typ = t) (hpre : ∀ b ∈ pre, b.typ ≠ t) : removeType t (pre ++ x :: post) = pre ++ post := by
  induction pre with
  | nil => simp [removeType, hx]
  | cons p ps ih =>
    have hp : ¬ p.typ = t := hpre p (by simp)
    simp [removeType, hp, ih (fun b hb => hpre b (by simp [hb]))]

theorem foldl_max_liveEntries (s : Nat) (bs : List LBlock) :
    (liveEntries s bs).foldl (fun (m : Int) e => max m (e.off + e.size)) (s : Int) = ((s + (dataOf bs).length : Nat) : Int) := by
  induction bs generalizing s with
  | nil => simp [liveEntries, dataOf]
  | cons b bs ih =>
    have hlen : (dataOf (b :: bs)).length = b.payload.length + (dataOf bs).length := by
      simp [dataOf, List.flatMap_cons]
    simp only [liveEntries, List.foldl_cons, liveEntry]
    have : max (s : Int) ((s : Int) + (b.payload.length : Int)) = ((s + b.payload.length : Nat) : Int) := by omega
    rw [this, ih, hlen]
    congr 1; omega

theorem liveOf_layout (s e : Nat) (bs : List LBlock) (fs : List FreeMeta) (hl : ∀ b ∈ bs, b.typ ≠ 0) :
    liveOf (liveEntries s bs ++ freeEntries e fs) = liveEntries s bs := by
  unfold liveOf
  rw [List.filter_append]
  have h1 : (liveEntries s bs).filter (fun e => e.typ != 0) = liveEntries s bs := by
    apply List.filter_eq_self.mpr
    intro x hx
    obtain ⟨b, hb, ht⟩ := liveEntries_typ _ _ x hx
    simp [ht, hl b hb]
  have h2 : (freeEntries e fs).filter (fun e => e.typ != 0) = [] := by
    apply List.filter_eq_nil_iff.mpr
    intro x hx
    simp only [freeEntries, List.mem_map] at hx
    obtain ⟨f, _, rfl⟩ := hx
    simp [freeEntry]
  rw [h1, h2, List.append_nil]

/-- the offset given to the slot appended by remove_block: end of the (already shifted) data -/
theorem compact_data_end (n e : Nat) (bs : List LBlock) (fs : List FreeMeta) (hl : ∀ b ∈ bs, b.typ ≠ 0) :
    dataEnd (liveEntries (tableStart n) bs ++ freeEntries e fs) n
    = ((tableStart n + (dataOf bs).length : Nat) : Int) := by
  unfold dataEnd
  rw [liveOf_layout _ _ _ _ hl]
  have := foldl_max_liveEntries (tableStart n) bs
  simpa [tableStart] using this

/-- on entries stored before the removed block the shift is the identity, on entries stored after it it subtracts -/
theorem shiftAfter_before (old : Entry) (es : List Entry) (h : ∀ e ∈ es, e.off ≤ old.off) : es.map (shiftAfter old) = es := by
  induction es with
  | nil => rfl
  | cons x xs ih =>
    have hx : ¬ x.off > old.off := by have := h x (by simp); omega
    simp only [List.map_cons, shiftAfter, hx, if_false]
    rw [show xs.map (shiftAfter old) = xs from ih (fun e he => h e (by simp [he]))]

theorem shiftAfter_after (old : Entry) (es : List Entry) (h : ∀ e ∈ es, old.off + old.size ≤ e.off) (hs : 0 ≤ old.size) :
    es.map (shiftAfter old) = es.map (fun e => { e with off := e.off - old.size }) := by
  apply List.map_congr_left
  intro x hx
  have := h x hx
  unfold shiftAfter
  by_cases h0 : old.size = 0
  · split
    · rfl
    · simp [h0]
  · have : x.off > old.off := by omega
    simp [this]

theorem defaultComment_ok : strOk 256 defaultComment = true := by decide

/-- remove_block's tail move + truncate, in right-nested normal form -/
theorem tail_move (H T P X Q : Bytes) (offx sz : Nat) (h1 : (H ++ T ++ P).length = offx) (h2 : X.length = sz) :
    truncateAt (writeAt (H ++ (T ++ (P ++ (X ++ Q)))) offx ((H ++ (T ++ (P ++ (X ++ Q)))).drop (offx + sz)))
        (offx + ((H ++ (T ++ (P ++ (X ++ Q)))).drop (offx + sz)).length)
      = H ++ (T ++ (P ++ Q)) := by
  have e1 : H ++ (T ++ (P ++ (X ++ Q))) = (H ++ T ++ P ++ X) ++ Q := by simp [List.append_assoc]
  have e2 : (H ++ T ++ P ++ X).length = offx + sz := by simp only [List.length_append] at h1 ⊢; omega
  have hd : (H ++ (T ++ (P ++ (X ++ Q)))).drop (offx + sz) = Q := by rw [e1, ← e2, List.drop_left]
  have e3 : H ++ (T ++ (P ++ (X ++ Q))) = (H ++ T ++ P) ++ (X ++ Q) := by simp [List.append_assoc]
  have ht : (H ++ (T ++ (P ++ (X ++ Q)))).take offx = H ++ T ++ P := by rw [e3, ← h1, List.take_left]
  rw [hd, truncate_writeAt _ _ _ (by simp only [List.length_append] at h1 ⊢; omega), ht]
  simp [List.append_assoc]

/-- REMOVE refines "erase the block of that type from the list, gain one unused slot" -/
theorem remove_sim (l : Lay) (ok : l.Ok) (t : Nat) (now : Int) (pre post : List LBlock) (x : LBlock)
    (hbs : l.bs = pre ++ x :: post) (hx : x.typ = t) (hpre : ∀ b ∈ pre, b.typ ≠ t)
    (hnow : inI32 now = true) :
    removeBlock l.state t now = ((l.remove t now).state, .ok) ∧ (l.remove t now).Ok := by
  obtain ⟨hdr, n, bs, fs⟩ := l
  simp only at hbs; subst hbs
  let l0 : Lay := ⟨hdr, n, pre ++ x :: post, fs⟩
  let start := tableStart n
  let offx := start + (dataOf pre).length
  let sz := x.payload.length
  let eod := offx + sz + (dataOf post).length
  let eod' := offx + (dataOf post).length
  have heod : l0.eod = eod := by
    simp [Lay.eod, l0, eod, offx, sz, start, dataOf, List.flatMap_cons]; omega
  have hfits : eod < 2147483648 := by have := ok.fits; rw [heod] at this; exact this
  let livePre := liveEntries start pre
  let ex := liveEntry offx x
  let livePost := liveEntries (offx + sz) post
  let frees := freeEntries eod fs
  have hT : l0.table = livePre ++ ([ex] ++ livePost ++ frees) := by
    simp only [Lay.table, heod, l0]
    rw [liveEntries_append]
    simp [liveEntries, livePre, ex, livePost, frees, offx, sz, start]
  have hvT := ok.valid
  rw [hT] at hvT
  have hvPre : TableValid livePre := hvT.left
  have hvMid : TableValid ([ex] ++ livePost ++ frees) := hvT.right
  -- the new layout and its validity
  have hrm : removeType t (pre ++ x :: post) = pre ++ post := removeType_split t pre post x hx hpre
  have hnewbs : (Lay.remove l0 t now).bs = pre ++ post := by simp [Lay.remove, l0, hrm]
  have hnewfs : (Lay.remove l0 t now).fs = fs ++ [freshMeta now] := by simp [Lay.remove, l0]
  have hnewn : (Lay.remove l0 t now).n = n := rfl
  have hneweod : (Lay.remove l0 t now).eod = eod' := by
    simp [Lay.eod, hnewbs, hnewn, dataOf_append, eod', offx, start]; omega
  have hnewOk : (Lay.remove l0 t now).Ok := by
    refine ⟨ok.hdr_len, ?_, ?_, ?_, ?_, ?_, ?_, ok.hdr_parse⟩
    · have := ok.count; simp [hnewbs, hnewfs, hnewn, l0] at this ⊢; omega
    · rw [hnewbs]; intro b hb; exact ok.blocks_ok b (by simp at hb ⊢; rcases hb with h | h <;> simp [h])
    · rw [hnewfs]; intro f hf; simp at hf
      rcases hf with hf | rfl
      · exact ok.frees_ok f hf
      · simp [FreeMeta.fieldsOk, freshMeta, hnow, defaultComment_ok]
    · rw [hneweod]; simp only [eod', eod] at hfits ⊢; omega
    · rw [hnewbs]; intro b hb; exact ok.live b (by simp at hb ⊢; rcases hb with h | h <;> simp [h])
    · rw [hnewbs]
      have hnd := ok.nodup
      simp only [l0, List.map_append, List.map_cons] at hnd ⊢
      exact (List.nodup_append.mp hnd).1 |> fun h1 =>
        List.nodup_append.mpr ⟨h1, (List.nodup_cons.mp (List.nodup_append.mp hnd).2.1).2, fun a ha b hb =>
          (List.nodup_append.mp hnd).2.2 a ha b (by simp [hb])⟩
  have hnewT : (Lay.remove l0 t now).table
      = livePre ++ (liveEntries offx post ++ freeEntries eod' fs ++ [freeEntry eod' (freshMeta now)]) := by
    simp only [Lay.table, hneweod, hnewbs, hnewfs, hnewn]
    rw [liveEntries_append]
    simp [freeEntries, livePre, offx, start, List.append_assoc]
  have hvNew := hnewOk.valid
  rw [hnewT] at hvNew
  have hvNewMid : TableValid (liveEntries offx post ++ freeEntries eod' fs ++ [freeEntry eod' (freshMeta now)]) := hvNew.right
  -- searches
  have hpretyp : ∀ e ∈ livePre, (e.typ == t) = false := by
    intro e he
    obtain ⟨bb, hbb, hty⟩ := liveEntries_typ _ _ e he
    simp [hty, hpre bb hbb]
  have h1 : findType t l0.table = some pre.length := by
    rw [hT]; unfold findType
    rw [findIdxBy_append_left _ _ _ hpretyp]
    simp [findIdxBy, ex, liveEntry, hx, livePre]
  have hget : l0.table.getD pre.length unusedEntry = ex := by
    rw [hT, List.getD_eq_getElem?_getD]
    have : livePre.length = pre.length := by simp [livePre]
    rw [← this, List.getElem?_append_right (by omega)]
    simp
  have hdrop : l0.table.drop (pre.length + 1) = livePost ++ frees := by
    rw [hT]
    have e1 : livePre ++ ([ex] ++ livePost ++ frees) = (livePre ++ [ex]) ++ (livePost ++ frees) := by simp
    have : (livePre ++ [ex]).length = pre.length + 1 := by simp [livePre]
    rw [e1, ← this, List.drop_left]
  have htake : l0.table.take pre.length = livePre := by
    rw [hT]
    have : livePre.length = pre.length := by simp [livePre]
    rw [← this, List.take_left]
  have hexsz : ex.size = (sz : Int) := rfl
  have hexo : ex.off = (offx : Int) := rfl
  have hshiftPre : livePre.map (shiftAfter ex) = livePre := by
    apply shiftAfter_before
    intro e he
    have := liveEntries_range start pre e he
    rw [hexo]; simp only [offx]; omega
  have hshiftPost : (livePost ++ frees).map (shiftAfter ex) = liveEntries offx post ++ freeEntries eod' fs := by
    rw [shiftAfter_after ex _ _ (by rw [hexsz]; omega)]
    · rw [hexsz, List.map_append, liveEntries_shift offx sz post, freeEntries_shift eod sz fs (by simp only [eod]; omega)]
      have : eod - sz = eod' := by simp only [eod, eod']; omega
      rw [this]
    · intro e he
      rw [hexo, hexsz]
      simp only [List.mem_append] at he
      rcases he with he | he
      · have := liveEntries_range (offx + sz) post e he
        omega
      · simp only [frees, freeEntries, List.mem_map] at he
        obtain ⟨f, _, rfl⟩ := he
        simp only [freeEntry, eod]; omega
  have hshift : (livePre ++ (livePost ++ frees)).map (shiftAfter ex)
      = livePre ++ (liveEntries offx post ++ freeEntries eod' fs) := by
    rw [List.map_append, hshiftPre, hshiftPost]
  have hlast : dataEnd (livePre ++ (liveEntries offx post ++ freeEntries eod' fs)) n = (eod' : Int) := by
    have := compact_data_end n eod' (pre ++ post) fs (by
      intro b hb; exact ok.live b (by simp at hb ⊢; rcases hb with h | h <;> simp [h]))
    rw [liveEntries_append] at this
    have e1 : tableStart n + (dataOf (pre ++ post)).length = eod' := by
      simp [dataOf_append, eod', offx, start]; omega
    rw [e1] at this
    simpa [livePre, offx, start, List.append_assoc] using this
  -- the writes
  have himg : l0.image = hdr ++ (livePre ++ ([ex] ++ livePost ++ frees) ++ []).flatMap Entry.enc
      ++ (dataOf pre ++ x.payload ++ dataOf post) := by
    simp only [Lay.image, hT, List.append_nil]
    simp [l0, dataOf_append, dataOf, List.flatMap_cons, List.append_assoc]
  have hw1 : writeAt l0.image (slotPos 0)
        ((livePre ++ (liveEntries offx post ++ freeEntries eod' fs ++ [freeEntry eod' (freshMeta now)])).flatMap Entry.enc)
      = hdr ++ (livePre ++ (liveEntries offx post ++ freeEntries eod' fs ++ [freeEntry eod' (freshMeta now)])).flatMap Entry.enc
        ++ (dataOf pre ++ x.payload ++ dataOf post) := by
    rw [himg]
    have := writeAt_table hdr (dataOf pre ++ x.payload ++ dataOf post) [] (livePre ++ ([ex] ++ livePost ++ frees))
      (livePre ++ (liveEntries offx post ++ freeEntries eod' fs ++ [freeEntry eod' (freshMeta now)])) [] ok.hdr_len
      (by intro e he; simp at he) (TableValid.append hvPre hvMid) (TableValid.append hvPre hvNewMid)
      (by simp [livePost, frees, livePre]; omega)
    simpa using this
  let tbl' := (livePre ++ (liveEntries offx post ++ freeEntries eod' fs ++ [freeEntry eod' (freshMeta now)])).flatMap Entry.enc
  have htl : (hdr ++ tbl').length = start := by
    have hc := ok.count
    simp only [tbl', List.length_append, ok.hdr_len, table_bytes_length _ hvNew, List.length_cons, List.length_nil,
      liveEntries_length, freeEntries_length, livePre, l0] at hc ⊢
    simp only [start, tableStart]; omega
  have himg' : (Lay.remove l0 t now).image = hdr ++ tbl' ++ dataOf pre ++ dataOf post := by
    simp only [Lay.image, hnewT, hnewbs, dataOf_append, tbl']
    simp [Lay.remove, l0, List.append_assoc]
  refine ⟨?_, hnewOk⟩
  show removeBlock l0.state t now = ((Lay.remove l0 t now).state, Outcome.ok)
  unfold removeBlock
  simp only [Lay.state, h1, hget, hdrop, htake, hshift]
  have hexoff : (ex.off + ex.size).toNat = offx + sz := by simp [ex, liveEntry, sz]; omega
  have hexoff' : ex.off.toNat = offx := by simp [ex, liveEntry]
  have hfresh : (⟨0, 0, (eod' : Int), 0, now, now, now, defaultComment⟩ : Entry) = freeEntry eod' (freshMeta now) := rfl
  simp only [show l0.n = n from rfl, List.append_assoc] at hlast ⊢
  rw [hlast, hfresh]
  simp only [← List.append_assoc] at hw1 ⊢
  rw [hw1, hexoff, hexoff']
  simp only [List.append_assoc]
  have htm := tail_move hdr tbl' (dataOf pre) x.payload (dataOf post) offx sz (by
    simp only [List.length_append] at htl ⊢; simp only [offx]; omega) rfl
  simp only [tbl', List.append_assoc] at htm
  rw [htm, hnewT, himg']
  simp [tbl', List.append_assoc, hnewn]

/-! ### every operation, including the rejected ones -/

/-- what the container needs from a block argument: a real block type, an honest size (C02) and a
    result that stays below 2 GiB -/
structure ArgOk (l : Lay) (b : BlkArg) : Prop where
  typ : b.typ ≠ 0
  honest : ∀ pl, b.payload = some pl → pl.length = b.size
  fits : l.eod + b.size < 2147483648

def OpOk (l : Lay) : Op → Prop
  | .add b _ _ => ArgOk l b
  | .remove t now => t ≠ 0 ∧ inI32 now = true
  | .replace b _ now => ArgOk l b ∧ inI32 now = true
  | .set b now => ArgOk l b ∧ inI32 now = true
  | .reopen => True

theorem checkArg_payload (b : BlkArg) (c : Str) (now : Int) (pl : Bytes) (h : checkArg b c now = .ok pl) :
    b.payload = some pl := by
  unfold checkArg at h
  cases hp : b.payload with
  | none => simp [hp] at h
  | some p =>
    simp only [hp] at h
    split at h
    · injection h with h; rw [h]
    · cases h

theorem firstUnused_full (l : Lay) (ok : l.Ok) (h : l.fs = []) : firstUnused l.table = none := by
  unfold firstUnused
  apply findIdxBy_none
  intro e he
  simp only [Lay.table, h, freeEntries, List.map_nil, List.append_nil] at he
  obtain ⟨b, hb, ht⟩ := liveEntries_typ _ _ e he
  simp [ht, ok.live b hb]

theorem add_step (l : Lay) (ok : l.Ok) (b : BlkArg) (c : Str) (now : Int) (ha : ArgOk l b) :
    addBlock l.state b c now = ((l.specStep (.add b c now)).1.state, (l.specStep (.add b c now)).2)
    ∧ (l.specStep (.add b c now)).1.Ok := by
  simp only [Lay.specStep]
  by_cases hd : l.hasType b.typ = true
  · simp only [hd, if_true]
    refine ⟨?_, ok⟩
    unfold addBlock
    simp [Lay.state, hasType_table l b.typ ha.typ, hd]
  · have hd' : l.hasType b.typ = false := by simpa using hd
    simp only [hd', Bool.false_eq_true, if_false]
    by_cases hf : l.fs = []
    · simp only [hf, if_true]
      refine ⟨?_, ok⟩
      unfold addBlock
      simp [Lay.state, hasType_table l b.typ ha.typ, hd', firstUnused_full l ok hf]
    · simp only [hf, if_false]
      cases hc : checkArg b c now with
      | error e =>
        refine ⟨?_, ok⟩
        unfold addBlock
        have hfu : ∃ pos, firstUnused l.table = some pos := by
          cases hfs : l.fs with
          | nil => exact absurd hfs hf
          | cons f fs' =>
            refine ⟨l.bs.length, ?_⟩
            unfold firstUnused
            simp only [Lay.table, hfs, freeEntries, List.map_cons]
            rw [findIdxBy_append_left]
            · simp [findIdxBy, freeEntry]
            · intro e he
              obtain ⟨bb, hb, ht⟩ := liveEntries_typ _ _ e he
              simp [ht, ok.live bb hb]
        obtain ⟨pos, hpos⟩ := hfu
        simp [Lay.state, hasType_table l b.typ ha.typ, hd', hpos, hc]
      | ok pl =>
        have := add_sim l ok b c now pl hf hd' ha.typ hc (ha.honest pl (checkArg_payload b c now pl hc)) ha.fits
        exact ⟨this.1, this.2⟩

theorem split_of_hasType (t : Nat) (bs : List LBlock) (h : bs.any (fun b => b.typ == t) = true) :
    ∃ pre x post, bs = pre ++ x :: post ∧ x.typ = t ∧ ∀ b ∈ pre, b.typ ≠ t := by
  induction bs with
  | nil => simp at h
  | cons b bs ih =>
    by_cases hb : b.typ = t
    · exact ⟨[], b, bs, rfl, hb, by simp⟩
    · have : bs.any (fun b => b.typ == t) = true := by simpa [hb] using h
      obtain ⟨pre, x, post, h1, h2, h3⟩ := ih this
      refine ⟨b :: pre, x, post, by simp [h1], h2, ?_⟩
      intro y hy; simp at hy
      rcases hy with rfl | hy
      · exact hb
      · exact h3 y hy

theorem remove_step (l : Lay) (ok : l.Ok) (t : Nat) (now : Int) (ht : t ≠ 0) (hnow : inI32 now = true) :
    removeBlock l.state t now = ((l.specStep (.remove t now)).1.state, (l.specStep (.remove t now)).2)
    ∧ (l.specStep (.remove t now)).1.Ok := by
  simp only [Lay.specStep]
  by_cases hd : l.hasType t = true
  · simp only [hd, if_true]
    obtain ⟨pre, x, post, h1, h2, h3⟩ := split_of_hasType t l.bs hd
    exact remove_sim l ok t now pre post x h1 h2 h3 hnow
  · have hd' : l.hasType t = false := by simpa using hd
    simp only [hd', Bool.false_eq_true, if_false]
    refine ⟨?_, ok⟩
    unfold removeBlock
    have : findType t l.table = none := by
      unfold findType
      apply findIdxBy_none
      intro e he
      have hh := hasType_table l t ht
      rw [hd'] at hh
      simp only [hasType, List.any_eq_false] at hh
      simpa using hh e he
    simp [Lay.state, this]

theorem find_table_none (s e : Nat) (bs : List LBlock) (fs : List FreeMeta) (t : Nat) (ht : t ≠ 0)
    (h : bs.find? (fun x => x.typ == t) = none) :
    (liveEntries s bs ++ freeEntries e fs).find? (fun x => x.typ == t) = none := by
  rw [List.find?_eq_none] at h ⊢
  intro x hx
  simp only [List.mem_append] at hx
  rcases hx with hx | hx
  · obtain ⟨b, hb, hty⟩ := liveEntries_typ _ _ x hx
    rw [hty]; exact h b hb
  · rw [freeEntries_typ _ _ x hx]; simp; exact fun h' => ht h'.symm

theorem find_table_some (s e : Nat) (bs : List LBlock) (fs : List FreeMeta) (t : Nat) (x : LBlock)
    (h : bs.find? (fun x => x.typ == t) = some x) :
    ∃ o, (liveEntries s bs ++ freeEntries e fs).find? (fun x => x.typ == t) = some (liveEntry o x) := by
  induction bs generalizing s with
  | nil => simp at h
  | cons b bs ih =>
    simp only [List.find?_cons] at h
    by_cases hb : (b.typ == t) = true
    · simp only [hb] at h
      injection h with h; subst h
      exact ⟨s, by simp [liveEntries, liveEntry, List.find?_cons, hb]⟩
    · simp only [hb] at h
      obtain ⟨o, ho⟩ := ih (s + b.payload.length) h
      refine ⟨o, ?_⟩
      simp only [Bool.not_eq_true] at hb
      have hh : ((liveEntry s b).typ == t) = false := by simpa [liveEntry] using hb
      simp only [liveEntries, List.cons_append, List.find?_cons, hh]
      exact ho

theorem hasType_iff_find (l : Lay) (t : Nat) :
    l.hasType t = (l.bs.find? (fun x => x.typ == t)).isSome := by
  simp only [Lay.hasType]
  induction l.bs with
  | nil => rfl
  | cons b bs ih =>
    by_cases hb : (b.typ == t) = true
    · simp [List.find?_cons, hb]
    · simp only [Bool.not_eq_true] at hb
      simp [List.find?_cons, hb, ih]

theorem removeType_no_type (t : Nat) (bs : List LBlock) (h : (bs.map (·.typ)).Nodup) :
    (removeType t bs).any (fun b => b.typ == t) = false := by
  induction bs with
  | nil => rfl
  | cons b bs ih =>
    simp only [List.map_cons, List.nodup_cons] at h
    by_cases hb : b.typ = t
    · simp only [removeType, hb, if_true]
      apply List.any_eq_false.mpr
      intro x hx hxt
      simp at hxt
      exact h.1 (by rw [hb, ← hxt]; exact List.mem_map_of_mem hx)
    · simp [removeType, hb, ih h.2]

theorem removeType_data_le (t : Nat) (bs : List LBlock) :
    (dataOf (removeType t bs)).length ≤ (dataOf bs).length := by
  induction bs with
  | nil => simp [removeType]
  | cons b bs ih =>
    simp only [removeType]
    split
    · simp [dataOf, List.flatMap_cons]
    · simp only [dataOf, List.flatMap_cons, List.length_append] at ih ⊢; omega

/-- a table without a hole: live entries first, then only unused ones -/
def NoHole (es : List Entry) : Prop := ∃ a f, es = a ++ f ∧ (∀ e ∈ a, e.typ ≠ 0) ∧ (∀ e ∈ f, e.typ = 0)

theorem eraseFirst_subset (p : Entry → Bool) (es : List Entry) : ∀ e ∈ eraseFirst p es, e ∈ es := by
  induction es with
  | nil => simp [eraseFirst]
  | cons x xs ih =>
    intro e he
    unfold eraseFirst at he
    split at he
    · exact List.mem_cons_of_mem _ he
    · rcases List.mem_cons.mp he with rfl | he
      · simp
      · exact List.mem_cons_of_mem _ (ih e he)

theorem noHole_eraseFirst (p : Entry → Bool) (es : List Entry) (h : NoHole es) : NoHole (eraseFirst p es) := by
  obtain ⟨a, f, rfl, ha, hf⟩ := h
  induction a with
  | nil =>
    exact ⟨[], eraseFirst p f, by simp, by simp, fun e he => hf e (eraseFirst_subset p f e (by simpa using he))⟩
  | cons x a' ih =>
    simp only [List.cons_append]
    unfold eraseFirst
    split
    · exact ⟨a', f, rfl, fun e he => ha e (List.mem_cons_of_mem _ he), hf⟩
    · obtain ⟨a'', f'', h1, h2, h3⟩ := ih (fun e he => ha e (List.mem_cons_of_mem _ he))
      refine ⟨x :: a'', f'', by simp [h1], ?_, h3⟩
      intro e he
      rcases List.mem_cons.mp he with rfl | he
      · exact ha _ (by simp)
      · exact h2 e he

theorem holeIn_of_noHole (es : List Entry) (h : NoHole es) : holeIn es = false := by
  obtain ⟨a, f, rfl, ha, hf⟩ := h
  unfold holeIn firstUnused
  rw [findIdxBy_append_left _ _ _ (by intro e he; simp [ha e he])]
  cases f with
  | nil => simp [findIdxBy]
  | cons x f' =>
    have hx : x.typ = 0 := hf x (by simp)
    simp only [findIdxBy, hx, beq_self_eq_true, if_true, Option.map_some, Nat.zero_add]
    have : (a ++ x :: f').drop (a.length + 1) = f' := by
      have e1 : a ++ x :: f' = (a ++ [x]) ++ f' := by simp
      have e2 : (a ++ [x]).length = a.length + 1 := by simp
      rw [e1, ← e2, List.drop_left]
    rw [this]
    apply List.any_eq_false.mpr
    intro e he
    simp [hf e (List.mem_cons_of_mem _ he)]

theorem noHole_table (l : Lay) (ok : l.Ok) : NoHole l.table := by
  refine ⟨liveEntries (tableStart l.n) l.bs, freeEntries l.eod l.fs, rfl, ?_, ?_⟩
  · intro e he
    obtain ⟨b, hb, ht⟩ := liveEntries_typ _ _ e he
    rw [ht]; exact ok.live b hb
  · intro e he; exact freeEntries_typ _ _ e he

theorem replace_step (l : Lay) (ok : l.Ok) (b : BlkArg) (c : Option Str) (now : Int) (ha : ArgOk l b)
    (hnow : inI32 now = true) :
    replaceBlock l.state b c now = ((l.specStep (.replace b c now)).1.state, (l.specStep (.replace b c now)).2)
    ∧ (l.specStep (.replace b c now)).1.Ok := by
  simp only [Lay.specStep]
  cases hf : l.bs.find? (fun x => x.typ == b.typ) with
  | none =>
    dsimp only
    refine ⟨?_, ok⟩
    unfold replaceBlock
    have := find_table_none (tableStart l.n) l.eod l.bs l.fs b.typ ha.typ hf
    simp only [Lay.state]
    simp only [Lay.table] at this ⊢
    rw [this]
  | some x =>
    obtain ⟨o, ho⟩ := find_table_some (tableStart l.n) l.eod l.bs l.fs b.typ x hf
    have hcom : (liveEntry o x).comment = x.comment := rfl
    dsimp only
    cases hc : checkArg b (c.getD x.comment) now with
    | error e =>
      dsimp only
      refine ⟨?_, ok⟩
      unfold replaceBlock
      simp only [Lay.state]
      simp only [Lay.table] at ho ⊢
      rw [ho]; simp only [hcom, hc]
    | ok pl =>
      dsimp only
      have hhas : l.hasType b.typ = true := by rw [hasType_iff_find, hf]; rfl
      obtain ⟨pre, y, post, h1, h2, h3⟩ := split_of_hasType b.typ l.bs hhas
      have hrem := remove_sim l ok b.typ now pre post y h1 h2 h3 hnow
      have hno : (l.remove b.typ now).hasType b.typ = false := by
        simp only [Lay.hasType, Lay.remove]
        exact removeType_no_type b.typ l.bs ok.nodup
      have hfit : (l.remove b.typ now).eod + b.size < 2147483648 := by
        have := removeType_data_le b.typ l.bs
        have := ha.fits
        simp only [Lay.eod, Lay.remove] at *
        omega
      have hadd := add_sim (l.remove b.typ now) hrem.2 b (c.getD x.comment) now pl (by simp [Lay.remove]) hno ha.typ hc
        (ha.honest pl (checkArg_payload b _ now pl hc)) hfit
      refine ⟨?_, hadd.2⟩
      have hnohole : holeIn (eraseFirst (fun e => e.typ == b.typ) l.table) = false :=
        holeIn_of_noHole _ (noHole_eraseFirst _ _ (noHole_table l ok))
      unfold replaceBlock
      simp only [Lay.state]
      simp only [Lay.table] at ho hnohole ⊢
      rw [ho]; simp only [hcom, hc, hnohole, Bool.false_eq_true, if_false]
      have hr := hrem.1
      simp only [Lay.state, Lay.table] at hr
      rw [hr]
      exact hadd.1

theorem set_spec (l : Lay) (b : BlkArg) (now : Int) :
    l.specStep (.set b now) =
      if l.hasType b.typ then l.specStep (.replace b none now) else l.specStep (.add b defaultComment now) := by
  simp only [Lay.specStep, hasType_iff_find]
  cases hf : l.bs.find? (fun x => x.typ == b.typ) with
  | none => simp [hf]
  | some x => simp [hf]

theorem set_step (l : Lay) (ok : l.Ok) (b : BlkArg) (now : Int) (ha : ArgOk l b) (hnow : inI32 now = true) :
    setBlock l.state b now = ((l.specStep (.set b now)).1.state, (l.specStep (.set b now)).2)
    ∧ (l.specStep (.set b now)).1.Ok := by
  rw [set_spec]
  unfold setBlock
  have : hasType b.typ l.state.entries = l.hasType b.typ := hasType_table l b.typ ha.typ
  rw [this]
  by_cases hd : l.hasType b.typ = true
  · simp only [hd, if_true]; exact replace_step l ok b none now ha hnow
  · have hd' : l.hasType b.typ = false := by simpa using hd
    simp only [hd', Bool.false_eq_true, if_false]; exact add_step l ok b defaultComment now ha

/-- reopening: what `__enter__` parses from the disk is exactly the table the object already had -/
theorem reopen_same (l : Lay) (ok : l.Ok) : openFile l.state.disk = some l.state := by
  obtain ⟨h, hn, hp⟩ := ok.hdr_parse
  have hlen : l.table.length = l.n := by simp [Lay.table, ok.count]
  have hdec : decTable.run l.image = some ((h, l.table), dataOf l.bs) := by
    unfold decTable Lay.image
    simp only [D.bind_eq, List.append_assoc]
    rw [D.bind_run_of _ _ _ _ _ (hp _)]
    have hneg : ¬ (h.nEntries < 0) := by rw [hn]; omega
    simp only [hneg, if_false]
    have : h.nEntries.toNat = l.table.length := by rw [hn, hlen]; simp
    rw [this]
    rw [D.bind_run_of _ _ _ _ _ (D.rep_run Entry.dec Entry.enc l.table _ (fun e he r => Entry.dec_enc e (ok.valid e he) r))]
    rfl
  unfold openFile
  simp only [Lay.state, hdec]
  simp [hn]

theorem step_sim (l : Lay) (ok : l.Ok) (op : Op) (hop : OpOk l op) :
    step l.state op = ((l.specStep op).1.state, (l.specStep op).2) ∧ (l.specStep op).1.Ok := by
  cases op with
  | add b c now => exact add_step l ok b c now hop
  | remove t now => exact remove_step l ok t now hop.1 hop.2
  | replace b c now => exact replace_step l ok b c now hop.1 hop.2
  | set b now => exact set_step l ok b now hop.1 hop.2
  | reopen =>
    refine ⟨?_, ok⟩
    simp [step, reopen_same l ok, Lay.specStep]

def Lay.specRun (l : Lay) : List Op → Lay
  | [] => l
  | op :: ops => Lay.specRun (l.specStep op).1 ops

/-- the hypotheses of a history: each operation is acceptable in the state it is applied to -/
def OpsOk (l : Lay) : List Op → Prop
  | [] => True
  | op :: ops => OpOk l op ∧ OpsOk (l.specStep op).1 ops

/-- REFINEMENT: any history on a well-formed layout behaves like the list specification, and ends
    in a well-formed layout — for every table length n ≥ 0, every number of blocks -/
theorem run_sim (l : Lay) (ok : l.Ok) (ops : List Op) (hops : OpsOk l ops) :
    runOps l.state ops = (l.specRun ops).state ∧ (l.specRun ops).Ok := by
  induction ops generalizing l with
  | nil => exact ⟨rfl, ok⟩
  | cons op ops ih =>
    have hs := step_sim l ok op hops.1
    simp only [runOps, Lay.specRun]
    rw [hs.1]
    exact ih _ hs.2 hops.2

end Tdf
