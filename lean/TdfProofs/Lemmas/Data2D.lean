import TdfProofs.Lemmas.RoundTrip
namespace Tdf

/-- loop over indices `s, s+1, …` reading the items of `xs` -/
theorem D.forK_range'_run (f : Nat → D α) (e : α → Bytes) (xs : List α) (s : Nat)
    (k : List α → D β) (rest : Bytes)
    (hp : ∀ i (h : i < xs.length), ∀ r, (f (s + i)).run (e xs[i] ++ r) = some (xs[i], r)) :
    (D.forK (List.range' s xs.length) f k).run (xs.flatMap e ++ rest) = (k xs).run rest := by
  induction xs generalizing s k rest with
  | nil => simp [D.forK]
  | cons x xs ih =>
    simp only [List.length_cons, List.range'_succ, D.forK, List.flatMap_cons, List.append_assoc]
    have h0 := hp 0 (by simp) (xs.flatMap e ++ rest)
    simp at h0
    rw [D.bind_run_of _ _ _ _ x h0]
    refine ih (s+1) _ _ (fun i hi r => ?_)
    have := hp (i+1) (by simp; omega) r
    have e1 : s + (i + 1) = s + 1 + i := by omega
    simpa [e1] using this

theorem D.forM'_range_run (f : Nat → D α) (e : α → Bytes) (xs : List α) (rest : Bytes)
    (hp : ∀ i (h : i < xs.length), ∀ r, (f i).run (e xs[i] ++ r) = some (xs[i], r)) :
    (D.forM' (List.range xs.length) f).run (xs.flatMap e ++ rest) = some (xs, rest) := by
  unfold D.forM'
  rw [List.range_eq_range']
  rw [D.forK_range'_run f e xs 0 _ rest (fun i hi r => by simpa using hp i hi r)]
  rfl

/-- indexing into the concatenation of rows of equal width -/
theorem getElem?_flatten_uniform {β : Type} (rows : List (List β)) (w c f : Nat)
    (hw : ∀ r ∈ rows, r.length = w) (hc : c < rows.length) (hf : f < w) :
    rows.flatten[c * w + f]? = (rows[c]'hc)[f]? := by
  induction rows generalizing c with
  | nil => simp at hc
  | cons r rs ih =>
    have hr : r.length = w := hw r (by simp)
    cases c with
    | zero =>
      simp only [List.flatten_cons, Nat.zero_mul, Nat.zero_add, List.getElem_cons_zero]
      rw [List.getElem?_append_left (by omega)]
    | succ c =>
      simp only [List.flatten_cons, List.getElem_cons_succ]
      rw [List.getElem?_append_right (by rw [hr, Nat.succ_mul]; omega)]
      have e1 : (c + 1) * w + f - r.length = c * w + f := by rw [hr, Nat.succ_mul]; omega
      rw [e1]
      exact ih c (fun r' hr' => hw r' (by simp [hr'])) (by simpa using hc)

theorem i16le_ofNat (n : Nat) (h : n < 32768) : i16le (Int.ofNat n) = u16le n := by
  simp only [u16le, i16le, toTwos]
  congr 1
  have : ((n : Int) % ((256 ^ 2 : Nat) : Int)) = (n : Int) :=
    Int.emod_eq_of_lt (by omega) (by simp; omega)
  show ((n : Int) % ((256 ^ 2 : Nat) : Int)).toNat = n
  rw [this]; simp

theorem camMap_enc (l : List Nat) (h : l.all (· < 32768) = true) :
    encI16s (l.map Int.ofNat) = encU16s l := by
  induction l with
  | nil => rfl
  | cons a l ih =>
    simp only [List.all_cons, Bool.and_eq_true, decide_eq_true_eq] at h
    simp only [encI16s, encU16s, List.map_cons, List.flatMap_cons] at ih ⊢
    rw [ih h.2, i16le_ofNat a h.1]

theorem validCell_iff (c : Option (List Frame)) :
    validCell c = true ↔ (c = none ∨ ∃ pts, c = some pts ∧ 1 ≤ pts.length ∧ pts.length < 65536 ∧ ∀ p ∈ pts, p.length = 2) := by
  cases c with
  | none => simp [validCell]
  | some pts =>
    simp only [validCell, Bool.and_eq_true, decide_eq_true_eq, List.all_eq_true, beq_iff_eq]
    constructor
    · rintro ⟨⟨h1, h2⟩, h3⟩; exact Or.inr ⟨pts, rfl, h1, h2, h3⟩
    · rintro (h | ⟨pts', h, h1, h2, h3⟩)
      · cases h
      · cases h; exact ⟨⟨h1, h2⟩, h3⟩

theorem decCell_run (c : Option (List Frame)) (rest : Bytes) (h : validCell c = true) :
    (decCell (cellCount c)).run (encCell c ++ rest) = some (c, rest) := by
  rcases (validCell_iff c).mp h with rfl | ⟨pts, rfl, h1, h2, h3⟩
  · simp [decCell, cellCount, encCell, D.run]
  · have hne : ¬ pts.length = 0 := by omega
    simp only [decCell, cellCount, encCell, hne, if_false, D.bind_eq]
    step (frames_run 2 pts rest h3)
    rfl

theorem encCell_length (c : Option (List Frame)) (h : validCell c = true) :
    (encCell c).length = 8 * cellCount c := by
  rcases (validCell_iff c).mp h with rfl | ⟨pts, rfl, h1, h2, h3⟩
  · simp [encCell, cellCount]
  · simp [encCell, cellCount, encFrames_length 2 pts h3]; omega

theorem flatMap_rows (l : List Nat) (g : Nat → List Nat) (u : Nat → Bytes) :
    l.flatMap (fun c => (g c).flatMap u) = ((l.map g).flatten).flatMap u := by
  induction l with
  | nil => rfl
  | cons a l ih => simp [List.flatMap_cons, List.flatMap_append, ih]

theorem flatten_length_uniform {β : Type} (rows : List (List β)) (w : Nat)
    (h : ∀ r ∈ rows, r.length = w) : rows.flatten.length = rows.length * w := by
  induction rows with
  | nil => simp
  | cons r rs ih =>
    simp only [List.flatten_cons, List.length_append, List.length_cons]
    rw [h r (by simp), ih (fun r' hr' => h r' (by simp [hr'])), Nat.succ_mul]; omega

/-- the camera-major count table written before the frame-major point lists -/
def countRows (x : Data2D) : List (List Nat) :=
  (List.range x.nCams).map (fun c => x.cells.map (fun row => cellCount (row.getD c none)))

theorem countRows_lookup (x : Data2D) (c f : Nat) (hc : c < x.nCams) (hf : f < x.cells.length)
    (hrow : (x.cells[f]'hf).length = x.nCams) :
    (countRows x).flatten.getD (c * x.cells.length + f) 0
      = cellCount ((x.cells[f]'hf)[c]'(by omega)) := by
  have hw : ∀ r ∈ countRows x, r.length = x.cells.length := by
    intro r hr; simp [countRows] at hr; obtain ⟨a, _, rfl⟩ := hr; simp
  have hcl : c < (countRows x).length := by simp [countRows, hc]
  rw [List.getD_eq_getElem?_getD, getElem?_flatten_uniform (countRows x) x.cells.length c f hw hcl hf]
  have hc' : c < (x.cells[f]'hf).length := by omega
  simp [countRows, List.getD_eq_getElem?_getD, List.getElem?_eq_getElem hf, List.getElem?_eq_getElem hc']

theorem Data2D.dec_enc (x : Data2D) (h : x.valid = true) (rest : Bytes) :
    (Data2D.dec 2).run (x.enc ++ rest) = some (x, rest) := by
  simp only [Data2D.valid, Bool.and_eq_true, decide_eq_true_eq, beq_iff_eq] at h
  obtain ⟨⟨⟨⟨⟨⟨⟨hnc, hnf⟩, hfreq⟩, hfl⟩, hml⟩, hmr⟩, hcl⟩, hcells⟩ := h
  have hfreq := (inI32_iff _).mp hfreq
  have hrows : ∀ row ∈ x.cells, row.length = x.nCams ∧ ∀ c ∈ row, validCell c = true := by
    intro row hr
    have := List.all_eq_true.mp hcells row hr
    simp only [Bool.and_eq_true, beq_iff_eq, List.all_eq_true] at this
    exact this
  unfold Data2D.dec Data2D.enc
  simp only [D.bind_eq, List.append_assoc]
  step (D.guard_run _ _ (by decide))
  step (nat32_run _ _ hnc)
  step (nat32_run _ _ hnf)
  step (D.i32_run _ _ hfreq.1 hfreq.2)
  step (f32_run _ _)
  step (D.u32_run _ _ (by omega))
  step (D.guard_run _ _ (by simpa using hfl))
  rw [camMap_enc x.camMap hmr]
  step (u16s_run _ _ _ hml (by
    apply List.all_eq_true.mpr; intro a ha
    have := List.all_eq_true.mp hmr a ha; simp at this ⊢; omega))
  -- the count table
  have hcnt : ((List.range x.nCams).flatMap fun c => x.cells.flatMap fun row => u16le (cellCount (row.getD c none)))
      = encU16s (countRows x).flatten := by
    rw [encU16s, countRows, ← flatMap_rows]
    congr 1; funext c
    simp [List.flatMap_def, List.map_map, Function.comp_def]
  rw [hcnt]
  have hcl2 : (countRows x).flatten.length = x.nCams * x.nFrames := by
    rw [flatten_length_uniform (countRows x) x.cells.length (by
      intro r hr; simp [countRows] at hr; obtain ⟨a, _, rfl⟩ := hr; simp)]
    simp [countRows, hcl]
  step (u16s_run _ _ _ hcl2 (by
    apply List.all_eq_true.mpr; intro a ha
    simp only [countRows, List.mem_flatten, List.mem_map, List.mem_range] at ha
    obtain ⟨l, ⟨c, _, rfl⟩, ha⟩ := ha
    simp only [List.mem_map] at ha
    obtain ⟨row, hrow, rfl⟩ := ha
    have hv := (hrows row hrow).2
    simp only [decide_eq_true_eq]
    rw [List.getD_eq_getElem?_getD]
    cases hg : row[c]? with
    | none => simp [cellCount]
    | some cell =>
      have := hv cell (List.mem_of_getElem? hg)
      rcases (validCell_iff cell).mp this with rfl | ⟨pts, rfl, _, h2, _⟩
      · simp [cellCount]
      · simpa [cellCount] using h2))
  rw [← hcl]
  have hnc' : ∀ row ∈ x.cells, x.nCams = row.length := fun row hr => ((hrows row hr).1).symm
  step (D.forM'_range_run _ (fun row : List (Option (List Frame)) => row.flatMap encCell) x.cells _ (by
    intro f hf r
    have hrl := (hrows x.cells[f] (List.getElem_mem hf)).1
    rw [← hrl]
    refine D.forM'_range_run _ encCell x.cells[f] r (fun c hc rr => ?_)
    have hlk := countRows_lookup x c f (by omega) hf hrl
    rw [hlk]
    exact decCell_run _ rr ((hrows x.cells[f] (List.getElem_mem hf)).2 _ (List.getElem_mem hc))))
  simp [D.run, hcl]

theorem Data2D.enc_length (x : Data2D) (h : x.valid = true) : x.enc.length = x.size := by
  simp only [Data2D.valid, Bool.and_eq_true, decide_eq_true_eq, beq_iff_eq] at h
  obtain ⟨⟨⟨⟨⟨⟨⟨hnc, hnf⟩, hfreq⟩, hfl⟩, hml⟩, hmr⟩, hcl⟩, hcells⟩ := h
  have hrows : ∀ row ∈ x.cells, row.length = x.nCams ∧ ∀ c ∈ row, validCell c = true := by
    intro row hr
    have := List.all_eq_true.mp hcells row hr
    simp only [Bool.and_eq_true, beq_iff_eq, List.all_eq_true] at this
    exact this
  have h1 : ((List.range x.nCams).flatMap fun c => x.cells.flatMap fun row => u16le (cellCount (row.getD c none))).length
      = x.nCams * (x.nFrames * 2) := by
    have := flatMap_length_const (fun c => x.cells.flatMap fun row => u16le (cellCount (row.getD c none)))
      (x.nFrames * 2) (List.range x.nCams) (fun c _ => by
        rw [flatMap_length_const _ 2 x.cells (fun _ _ => by simp [u16le]), hcl])
    simpa using this
  have h2 : (x.cells.flatMap fun row => row.flatMap encCell).length
      = sumBy (fun row => sumBy (fun c => 8 * cellCount c) row) x.cells :=
    flatMap_length_sumBy _ _ x.cells (fun row hr =>
      flatMap_length_sumBy encCell _ row (fun c hc => encCell_length c ((hrows row hr).2 c hc)))
  simp only [Data2D.enc, Data2D.size, List.length_append, i32le, u32le, leBytes_length, f32le_length,
    encI16s_length, List.length_map, hml, h1, h2]
  rw [Nat.mul_comm x.nFrames 2, ← Nat.mul_assoc, Nat.mul_comm x.nCams 2]
  omega

end Tdf
