/-
  C13 — Fixed-width text fields: exact width, lossless for valid text, else refused.
  Model: TdfModel/Str.lean (`strWrite` ≙ BTSString.write, `strRead` ≙ BTSString.read),
         TdfModel/Cp1252.lean (Python's windows-1252 codec, strict).
  Quantifiers: every string (list of code points, any length, any code point incl. NUL and
  surrogates), every width w ≥ 0, every byte string on the read side.
-/
import TdfProofs.Lemmas.Str
namespace Tdf.C13

/-- a successful write is exactly `w` bytes -/
theorem width (w : Nat) (s : List Nat) (bs : Bytes) (h : strWrite w s = .ok bs) :
    bs.length = w := strWrite_length w s bs h

/-- … and is: the encoded text (one byte per character), one NUL, zero padding -/
theorem layout (w : Nat) (s : List Nat) (bs : Bytes) (h : strWrite w s = .ok bs) :
    ∃ e, encStr s = some e ∧ e.length = s.length ∧ s.length < w ∧
         bs = e ++ 0 :: zeros (w - (s.length + 1)) := by
  obtain ⟨e, he, hw, rfl⟩ := strWrite_ok w s bs h
  have hl := encStr_length s e he
  exact ⟨e, he, hl, by omega, by rw [hl]⟩

/-- a write succeeds exactly for strings that are cp1252-encodable and shorter than the field:
    never truncated, never unterminated, never spilling -/
theorem ok_iff (w : Nat) (s : List Nat) :
    (∃ bs, strWrite w s = .ok bs) ↔ ((∀ c ∈ s, (encCp c).isSome) ∧ s.length < w) := by
  constructor
  · rintro ⟨bs, h⟩
    obtain ⟨e, he, hw, _⟩ := strWrite_ok w s bs h
    have hl := encStr_length s e he
    refine ⟨(encStr_isSome_iff s).mp (by simp [he]), by omega⟩
  · rintro ⟨henc, hlen⟩
    have := (encStr_isSome_iff s).mpr henc
    cases he : encStr s with
    | none => simp [he] at this
    | some e =>
      have hl := encStr_length s e he
      refine ⟨e ++ 0 :: zeros (w - (e.length + 1)), ?_⟩
      simp only [strWrite, he]
      rw [if_neg (by omega)]

/-- everything else is refused (ValueError family): unencodable text is reported as such even
    when it is also too long; encodable over-long text as too long -/
theorem refused (w : Nat) (s : List Nat) :
    (¬ (∀ c ∈ s, (encCp c).isSome) → strWrite w s = .error .notEncodable) ∧
    ((∀ c ∈ s, (encCp c).isSome) → w ≤ s.length → strWrite w s = .error .tooLong) := by
  constructor
  · intro h
    have : ¬ (encStr s).isSome := fun hs => h ((encStr_isSome_iff s).mp hs)
    cases he : encStr s with
    | none => simp [strWrite, he]
    | some e => simp [he] at this
  · intro h hw
    have := (encStr_isSome_iff s).mpr h
    cases he : encStr s with
    | none => simp [he] at this
    | some e =>
      have hl := encStr_length s e he
      simp only [strWrite, he]
      rw [if_pos (by omega)]

/-- reading back what was written returns the identical string (NUL-free strings) -/
theorem lossless (w : Nat) (s : List Nat) (bs : Bytes)
    (h : strWrite w s = .ok bs) (hs : 0 ∉ s) : strRead w bs = some s := by
  obtain ⟨e, he, hw, rfl⟩ := strWrite_ok w s bs h
  have hlen : (e ++ 0 :: zeros (w - (e.length + 1))).length = w := by simp; omega
  simp only [strRead, hlen, ne_eq, not_true_eq_false, if_false]
  rw [cutNul_append_zero e _ (encStr_nulfree s e he hs), decStr_encStr s e he]

/-- read side, all byte strings: whatever follows the first NUL never matters -/
theorem read_ignores_tail (e t1 t2 : Bytes) (h : (0 : UInt8) ∉ e) :
    strRead (e.length + 1 + t1.length) (e ++ 0 :: t1) = strRead (e.length + 1 + t2.length) (e ++ 0 :: t2) := by
  have l1 : (e ++ 0 :: t1).length = e.length + 1 + t1.length := by simp; omega
  have l2 : (e ++ 0 :: t2).length = e.length + 1 + t2.length := by simp; omega
  simp only [strRead, l1, l2, ne_eq, not_true_eq_false, if_false]
  rw [cutNul_append_zero e _ h, cutNul_append_zero e _ h]

/-- read side: a field with no NUL at all is decoded whole (BTSString.read's except branch) -/
theorem read_unterminated (bs : Bytes) (h : (0 : UInt8) ∉ bs) :
    strRead bs.length bs = decStr bs := by
  simp [strRead, cutNul_nulfree bs h]

/-- the codec itself: one byte per accepted code point, injective both ways -/
theorem codec_inverse (c : Nat) (b : UInt8) : encCp c = some b ↔ decByte b = some c :=
  ⟨encCp_decByte c b, decByte_encCp b c⟩

/-- anything the reader returns can be written back and yields the same text bytes -/
theorem read_then_write (w : Nat) (bs : Bytes) (s : List Nat) (h : strRead w bs = some s) :
    encStr s = some (D.cutNul bs) := by
  unfold strRead at h
  split at h
  · cases h
  · exact encStr_decStr _ _ h

/-! non-vacuity: concrete instances of the hypotheses -/
example : strWrite 8 [0x63, 0x37, 0x20AC] = .ok [0x63, 0x37, 0x80, 0, 0, 0, 0, 0] := by rfl
example : strWrite 3 [0x63, 0x37, 0x20AC] = .error .tooLong := by rfl
example : strWrite 3 [0x63, 0x37, 0x20AC, 0x3B1] = .error .notEncodable := by rfl
example : strRead 4 [0x80, 0, 0x81, 0x9D] = some [0x20AC] := by decide
example : strRead 2 [0x81, 0] = none := by decide

end Tdf.C13
