/-
  C15 — Channel numbers stay attached to their items through edits.
-/
import TdfModel.ChanMap
namespace Tdf.C15

/-- aligned and unique -/
def Inv (s : CM) : Prop := s.chans.length = s.items.length ∧ s.chans.Nodup

theorem foldl_max_ge (c : Int) (cs : List Int) : c ≤ cs.foldl max c ∧ ∀ x ∈ cs, x ≤ cs.foldl max c := by
  induction cs generalizing c with
  | nil => simp
  | cons d ds ih =>
    simp only [List.foldl_cons, List.mem_cons]
    have := ih (max c d)
    refine ⟨by omega, ?_⟩
    intro x hx
    rcases hx with rfl | hx
    · have := this.1; omega
    · exact this.2 x hx

/-- an automatic channel is one not in use -/
theorem auto_is_fresh (chans : List Int) : autoChan chans ∉ chans := by
  cases chans with
  | nil => simp
  | cons c cs =>
    intro h
    simp only [autoChan, List.mem_cons] at h
    have := foldl_max_ge c cs
    rcases h with h | h
    · omega
    · have := this.2 _ h; omega

theorem inv_empty : Inv CM.empty := by simp [Inv, CM.empty]

theorem inv_addAuto (s : CM) (it : Nat) (h : Inv s) : Inv (s.addAuto it) := by
  refine ⟨by simp [CM.addAuto, h.1], ?_⟩
  simp only [CM.addAuto]
  rw [List.nodup_append]
  refine ⟨h.2, by simp, ?_⟩
  intro a ha b hb
  simp at hb; subst hb
  intro heq; subst heq
  exact auto_is_fresh s.chans ha

theorem inv_addExplicit (s : CM) (it : Nat) (c : Int) (h : Inv s) : Inv (s.addExplicit it c).1 := by
  simp only [CM.addExplicit]
  split
  · exact h
  · rename_i hc
    refine ⟨by simp [h.1], ?_⟩
    simp only []
    rw [List.nodup_append]
    refine ⟨h.2, by simp, ?_⟩
    intro a ha b hb
    simp at hb; subst hb
    intro heq; subst heq
    simp at hc; exact hc ha

theorem inv_add (s : CM) (it : Nat) (c : Option Int) (h : Inv s) : Inv (s.add it c).1 := by
  cases c with
  | none => exact inv_addAuto s it h
  | some c => exact inv_addExplicit s it c h

theorem nodup_eraseIdx {α : Type} (l : List α) (i : Nat) (h : l.Nodup) : (l.eraseIdx i).Nodup :=
  List.Sublist.nodup (List.eraseIdx_sublist l i) h

theorem inv_removeAt (s : CM) (i : Nat) (h : Inv s) : Inv (s.removeAt i).1 := by
  simp only [CM.removeAt]
  split
  · rename_i hi
    refine ⟨?_, nodup_eraseIdx _ _ h.2⟩
    simp only [List.length_eraseIdx, h.1]
  · exact h

theorem inv_removeFirst (s : CM) (p : Nat → Bool) (h : Inv s) : Inv (s.removeFirst p).1 := by
  simp only [CM.removeFirst]
  split
  · exact inv_removeAt s _ h
  · exact h

theorem inv_removeIndex (s : CM) (i : Int) (h : Inv s) : Inv (s.removeIndex i).1 := by
  simp only [CM.removeIndex]
  repeat' split
  all_goals first | exact h | exact inv_removeAt s _ h

theorem inv_addMany (s : CM) (l : List (Nat × Option Int)) (h : Inv s) : Inv (s.addMany l).1 := by
  induction l generalizing s with
  | nil => exact h
  | cons x xs ih =>
    obtain ⟨it, c⟩ := x
    simp only [CM.addMany]
    have := inv_add s it c h
    split
    · rename_i s' heq; rw [heq] at this; exact ih s' this
    · rename_i s' heq; rw [heq] at this; exact this

theorem inv_construct (items : List Nat) : Inv (CM.construct items) := inv_addMany _ _ inv_empty
theorem inv_assignPairs (ps : List (Int × Nat)) : Inv (CM.assignPairs ps).1 := inv_addMany _ _ inv_empty
theorem inv_assignItems (s : CM) (items : List Nat) (bad : Bool) (h : Inv s) : Inv (s.assignItems items bad).1 := by
  simp only [CM.assignItems]; split
  · exact h
  · exact inv_construct items
theorem inv_decode (chans : List Int) (items : List Nat) (s : CM) (h : CM.decode chans items = some s) : Inv s := by
  simp only [CM.decode] at h
  split at h
  · cases h
  · injection h with h; subst h; exact inv_addMany _ _ inv_empty

/-- one edit of any of the three block kinds -/
inductive Edit where
  | add (it : Nat) (c : Option Int)
  | removeFirst (p : Nat → Bool)
  | removeIndex (i : Int)
  | addMany (l : List (Nat × Option Int))
  | removeMany (is : List Int)
  | assignPairs (ps : List (Int × Nat))
  | assignItems (items : List Nat) (bad : Bool)

def apply (s : CM) : Edit → CM × Bool
  | .add it c => s.add it c
  | .removeFirst p => s.removeFirst p
  | .removeIndex i => s.removeIndex i
  | .addMany l => s.addMany l
  | .removeMany is => s.removeMany is
  | .assignPairs ps => CM.assignPairs ps
  | .assignItems items bad => s.assignItems items bad

theorem inv_removeMany (s : CM) (is : List Int) (h : Inv s) : Inv (s.removeMany is).1 := by
  induction is generalizing s with
  | nil => exact h
  | cons i is ih =>
    simp only [CM.removeMany]
    have := inv_removeIndex s i h
    split
    · rename_i s' heq; rw [heq] at this; exact ih s' this
    · rename_i s' heq; rw [heq] at this; exact this

theorem inv_apply (s : CM) (e : Edit) (h : Inv s) : Inv (apply s e).1 := by
  cases e with
  | add it c => exact inv_add s it c h
  | removeFirst p => exact inv_removeFirst s p h
  | removeIndex i => exact inv_removeIndex s i h
  | addMany l => exact inv_addMany s l h
  | removeMany is => exact inv_removeMany s is h
  | assignPairs ps => exact inv_assignPairs ps
  | assignItems items bad => exact inv_assignItems s items bad h

/-- after ANY sequence of edits — from an empty block, a constructor-filled block or a decoded
    block — the two lists have the same length and the channels are unique -/
theorem inv_history (s : CM) (es : List Edit) (h : Inv s) : Inv (es.foldl (fun st e => (apply st e).1) s) := by
  induction es generalizing s with
  | nil => exact h
  | cons e es ih => exact ih _ (inv_apply s e h)

/-- surviving items keep the channel they were given: removal erases exactly one PAIR -/
theorem survivors_keep_channel (s : CM) (i : Nat) (h : Inv s) (hi : i < s.items.length) :
    (s.removeAt i).1.pairs = s.pairs.eraseIdx i := by
  simp only [CM.removeAt, hi, if_true, CM.pairs]
  generalize s.chans = cs at h ⊢
  generalize s.items = is at h hi ⊢
  have hl := h.1
  clear h
  induction cs generalizing is i with
  | nil => simp
  | cons c cs ih =>
    cases is with
    | nil => simp at hi
    | cons x xs =>
      cases i with
      | zero => simp
      | succ i =>
        simp only [List.eraseIdx_cons_succ, List.zip_cons_cons]
        rw [ih i xs (by simpa using hi)]

/-- an add appends exactly one pair and keeps every earlier pair -/
theorem add_appends_pair (s : CM) (it : Nat) (c : Option Int) (h : Inv s) (hok : (s.add it c).2 = false) :
    ∃ ch, (s.add it c).1.pairs = s.pairs ++ [(ch, it)] ∧ (c = some ch ∨ (c = none ∧ ch = autoChan s.chans)) := by
  cases c with
  | none =>
    refine ⟨autoChan s.chans, ?_, Or.inr ⟨rfl, rfl⟩⟩
    simp [CM.add, CM.addAuto, CM.pairs, List.zip_append h.1]
  | some c =>
    simp only [CM.add, CM.addExplicit] at hok ⊢
    split at hok
    · simp at hok
    · rename_i hc
      refine ⟨c, ?_, Or.inl rfl⟩
      have hc' : c ∉ s.chans := by simpa using hc
      simp [hc', CM.pairs, List.zip_append h.1]

/-- an explicit channel that is taken is refused (ValueError) and nothing changes -/
theorem explicit_taken_refused (s : CM) (it : Nat) (c : Int) (h : c ∈ s.chans) : s.addExplicit it c = (s, true) := by
  simp [CM.addExplicit, h]

/-- an explicit channel that is free is honoured -/
theorem explicit_free_honoured (s : CM) (it : Nat) (c : Int) (h : c ∉ s.chans) :
    s.addExplicit it c = (⟨s.chans ++ [c], s.items ++ [it]⟩, false) := by
  simp [CM.addExplicit, h]

example : (CM.construct [10, 11, 12]).pairs = [(0, 10), (1, 11), (2, 12)] := by decide
example : ((CM.construct [10, 11, 12]).removeAt 1).1.pairs = [(0, 10), (2, 12)] := by decide
example : (((CM.construct [10, 11, 12]).removeAt 0).1.addAuto 13).pairs = [(1, 11), (2, 12), (3, 13)] := by decide

end Tdf.C15
