/-
  C07 — A rejected mutation leaves the file exactly as it was.
  The L0 operations return the state they leave behind together with their outcome, so "unchanged"
  is a statement about that state (view, disk, in-memory table, slot count).
  * add / remove: for EVERY state (no invariant at all), every rejection cause.
  * replace / setters: they are remove-then-add; that the add cannot fail after the remove has
    succeeded is a theorem about well-formed layouts (`Lay.Ok`) and acceptable arguments.
  Causes covered: duplicate type, table full, block not encodable (payload = none: any position
  inside the block), entry not encodable (comment too long / not cp1252, dates), type absent,
  unused slot between live blocks.
-/
import TdfProofs.Lemmas.Layout
import TdfProofs.Lemmas.Foreign
namespace Tdf.C07

theorem add_rejected_unchanged (s : TdfSt) (b : BlkArg) (c : Str) (now : Int) (e : Err)
    (h : (addBlock s b c now).2 = .err e) : (addBlock s b c now).1 = s := by
  unfold addBlock at h ⊢
  by_cases h1 : hasType b.typ s.entries = true
  · simp [h1]
  · simp only [h1, if_false] at h ⊢
    cases h2 : firstUnused s.entries with
    | none => simp
    | some pos =>
      simp only [h2] at h ⊢
      cases h3 : checkArg b c now with
      | error e' => simp
      | ok pl =>
        simp only [h3] at h ⊢
        by_cases h4 : (s.entries.drop (pos + 1)).any (fun e => e.typ != 0) = true
        · simp [h4]
        · simp [h4] at h

theorem remove_rejected_unchanged (s : TdfSt) (t : Nat) (now : Int) (e : Err)
    (h : (removeBlock s t now).2 = .err e) : (removeBlock s t now).1 = s := by
  unfold removeBlock at h ⊢
  cases h1 : findType t s.entries with
  | none => simp
  | some pos => simp [h1] at h

/-- every rejection cause of add, on any state: which call is rejected, and with what -/
theorem add_rejections (s : TdfSt) (b : BlkArg) (c : Str) (now : Int) :
    (hasType b.typ s.entries = true → addBlock s b c now = (s, .err .duplicate)) ∧
    (hasType b.typ s.entries = false → firstUnused s.entries = none → addBlock s b c now = (s, .err .full)) ∧
    (∀ pos e, hasType b.typ s.entries = false → firstUnused s.entries = some pos → checkArg b c now = .error e →
        addBlock s b c now = (s, .err e)) ∧
    (∀ pos pl, hasType b.typ s.entries = false → firstUnused s.entries = some pos → checkArg b c now = .ok pl →
        (s.entries.drop (pos + 1)).any (fun e => e.typ != 0) = true → addBlock s b c now = (s, .err .hole)) := by
  refine ⟨?_, ?_, ?_, ?_⟩
  · intro h; simp [addBlock, h]
  · intro h1 h2; simp [addBlock, h1, h2]
  · intro pos e h1 h2 h3; simp [addBlock, h1, h2, h3]
  · intro pos pl h1 h2 h3 h4; simp [addBlock, h1, h2, h3, h4]

theorem checkArg_causes (b : BlkArg) (c : Str) (now : Int) :
    (b.payload = none → checkArg b c now = .error .notEncodable) ∧
    (∀ pl, b.payload = some pl → strOk 256 c = false → checkArg b c now = .error .badEntry) := by
  refine ⟨fun h => by simp [checkArg, h], fun pl h hc => ?_⟩
  simp [checkArg, h, Entry.valid, hc]

/-- on well-formed layouts every operation of a history that is rejected leaves object and file
    exactly as they were — in particular a failed replace or setter never loses the old block -/
theorem rejected_unchanged (l : Lay) (ok : l.Ok) (op : Op) (hop : OpOk l op) (e : Err)
    (h : (step l.state op).2 = .err e) : (step l.state op).1 = l.state := by
  obtain ⟨h1, _⟩ := step_sim l ok op hop
  rw [h1] at h ⊢
  simp only at h ⊢
  have key : (l.specStep op).2 = .err e → (l.specStep op).1 = l := by
    cases op <;> simp only [Lay.specStep] <;> (repeat' split) <;> simp
  rw [key h]

/-- … so later operations behave as if the failed call had never been made -/
theorem continuation_equiv (l : Lay) (ok : l.Ok) (op : Op) (hop : OpOk l op) (e : Err)
    (h : (step l.state op).2 = .err e) (ops : List Op) :
    runOps l.state (op :: ops) = runOps l.state ops := by
  simp only [runOps]
  rw [rejected_unchanged l ok op hop e h]

/-- a replace is rejected exactly when the type is absent or the new block / comment cannot be
    encoded — never after the old block has been removed -/
theorem replace_outcome (l : Lay) (ok : l.Ok) (b : BlkArg) (c : Option Str) (now : Int)
    (hop : OpOk l (.replace b c now)) :
    (step l.state (.replace b c now)).2 =
      match l.bs.find? (fun x => x.typ == b.typ) with
      | none => .err .absent
      | some old => match checkArg b (c.getD old.comment) now with
        | .error e => .err e
        | .ok _ => .ok := by
  obtain ⟨h1, _⟩ := step_sim l ok _ hop
  rw [h1]
  simp only [Lay.specStep]
  repeat' split
  all_goals simp_all


/-- EVERY state, any table — entries in any order, gaps, unused slots between live entries (files of other software): a replace
    that reports an error has changed neither the object nor the file, provided the type to replace occurs once in the table.
    "In particular a failed replace never loses the block it was meant to replace" — also when the reason is an unused slot
    between live blocks, which `add_block` would only notice after the old block is gone. -/
theorem replace_rejected_unchanged_any (s : TdfSt) (b : BlkArg) (c : Option Str) (now : Int) (e : Err)
    (hty : b.typ ≠ 0)
    (hone : hasType b.typ (eraseFirst (fun x => x.typ == b.typ) s.entries) = false)
    (h : (replaceBlock s b c now).2 = .err e) : (replaceBlock s b c now).1 = s :=
  Tdf.replace_rejected_unchanged_any s b c now e hty hone h

/-- the rejection cause "an unused slot lies between live blocks", for replace, on every state: it is reported with the state as it was -/
theorem replace_hole_refused (s : TdfSt) (b : BlkArg) (c : Option Str) (now : Int) (old : Entry) (pl : Bytes)
    (hfind : s.entries.find? (fun x => x.typ == b.typ) = some old) (hchk : checkArg b (c.getD old.comment) now = .ok pl)
    (hh : holeIn (eraseFirst (fun x => x.typ == b.typ) s.entries) = true) :
    replaceBlock s b c now = (s, .err .hole) := by
  unfold replaceBlock
  simp [hfind, hchk, hh]

/-! ### every call of a history, every state (session 5) -/

theorem typesNodup_tail (x : Entry) (xs : List Entry) (h : TypesNodup (x :: xs)) : TypesNodup xs := by
  unfold TypesNodup liveOf at h ⊢
  simp only [List.filter_cons] at h
  split at h
  · exact (List.nodup_cons.mp h).2
  · exact h

/-- "at most one block per type" (C11's invariant) gives the proviso of `replace_rejected_unchanged_any` for every type -/
theorem once_of_typesNodup (es : List Entry) (t : Nat) (ht : t ≠ 0) (h : TypesNodup es) :
    hasType t (eraseFirst (fun x => x.typ == t) es) = false := by
  induction es with
  | nil => rfl
  | cons x xs ih =>
    unfold eraseFirst
    by_cases hx : x.typ = t
    · simp only [hx, beq_self_eq_true, if_true]
      unfold TypesNodup liveOf at h
      have hlive : (x.typ != 0) = true := by simp [hx, ht]
      simp only [List.filter_cons, hlive, if_true, List.map_cons, List.nodup_cons] at h
      unfold hasType
      rw [Bool.eq_false_iff]
      intro hany
      obtain ⟨e, he, het⟩ := List.any_eq_true.mp hany
      have het' : e.typ = t := by simpa using het
      apply h.1
      rw [hx]
      exact List.mem_map.mpr ⟨e, List.mem_filter.mpr ⟨he, by simp [het', ht]⟩, het'⟩
    · have hx' : (x.typ == t) = false := by simpa using hx
      simp only [hx', Bool.false_eq_true, if_false]
      have := ih (typesNodup_tail x xs h)
      unfold hasType at this ⊢
      simp only [List.any_cons, hx', Bool.false_or]
      exact this

/-- ONE call on ANY state with at most one block per type — table in any order, gaps, unused slots anywhere —: whatever the call
    (add, remove, replace, setter) and whatever the reason of the refusal, a call that reports an error leaves object and file as they were -/
theorem step_rejected_unchanged_any (s : TdfSt) (op : Op) (hop : TableOp op) (hn : TypesNodup s.entries) (e : Err)
    (h : (step s op).2 = .err e) : (step s op).1 = s := by
  cases op with
  | add b c now => exact add_rejected_unchanged s b c now e h
  | remove t now => exact remove_rejected_unchanged s t now e h
  | replace b c now => exact replace_rejected_unchanged_any s b c now e hop (once_of_typesNodup _ _ hop hn) h
  | set b now =>
    simp only [step, setBlock] at h ⊢
    split at h
    · rename_i hh; simp only [hh, if_true]
      exact replace_rejected_unchanged_any s b none now e hop (once_of_typesNodup _ _ hop hn) h
    · rename_i hh; simp only [hh, if_false]
      exact add_rejected_unchanged s b _ now e h
  | reopen => exact absurd hop (by simp [TableOp])

/-- EVERY history from such a state: the proviso is itself an invariant (`history_keeps_typesNodup`), so at every point of every history
    a refused call leaves the state that the history had reached — nothing to assume about the calls before it -/
theorem history_rejected_unchanged_any (s : TdfSt) (ops : List Op) (hops : ∀ op ∈ ops, TableOp op) (hn : TypesNodup s.entries)
    (op : Op) (hop : TableOp op) (e : Err) (h : (step (runOps s ops) op).2 = .err e) :
    (step (runOps s ops) op).1 = runOps s ops :=
  step_rejected_unchanged_any _ op hop (history_keeps_typesNodup s ops hops hn) e h

/-- such a state exists: table [events, unused, EMG] — replacing the events block would leave [unused, EMG, unused] -/
example : holeIn (eraseFirst (fun x => x.typ == 16) [⟨16, 1, 928, 8, 0, 0, 0, []⟩, ⟨0, 0, 1000, 0, 0, 0, 0, []⟩, ⟨11, 1, 936, 64, 0, 0, 0, []⟩]) = true := by decide
/-- … while replacing the EMG block of the same table is fine: what remains is [events, unused] -/
example : holeIn (eraseFirst (fun x => x.typ == 11) [⟨16, 1, 928, 8, 0, 0, 0, []⟩, ⟨0, 0, 1000, 0, 0, 0, 0, []⟩, ⟨11, 1, 936, 64, 0, 0, 0, []⟩]) = false := by decide

end Tdf.C07
