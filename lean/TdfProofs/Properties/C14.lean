/-
  C14 — Equality tells equal content from different content.
  For each block class, on valid blocks:   eq a b = true  ↔  a = b   (abstract values: counts, labels,
  channels, header scalars, samples as bit patterns, gaps). The ← direction is "equal to itself and
  to decode(encode(a))" (with C01), the → direction is every "compares unequal when … differs".
-/
import TdfModel.Equality
import TdfProofs.Properties.C01
namespace Tdf.C14

theorem zipAll_iff {α : Type} [BEq α] [LawfulBEq α] (xs ys : List α) (h : xs.length = ys.length) :
    zipAll xs ys = true ↔ xs = ys := by
  induction xs generalizing ys with
  | nil => cases ys <;> simp_all [zipAll]
  | cons x xs ih =>
    cases ys with
    | nil => simp at h
    | cons y ys =>
      have := ih ys (by simpa using h)
      simp only [zipAll, List.zip_cons_cons, List.all_cons, Bool.and_eq_true, beq_iff_eq] at this ⊢
      simp only [List.cons.injEq]
      constructor
      · rintro ⟨h1, h2⟩; exact ⟨h1, this.mp h2⟩
      · rintro ⟨h1, h2⟩; exact ⟨h1, this.mpr h2⟩

/-- byte-level comparisons are faithful because encoding is injective on valid blocks (C01) -/
theorem data3d_eq_iff (a b : Data3D) (ha : a.valid = true) (hb : b.valid = true) (hf : a.fmt = b.fmt) :
    Data3D.eq a b = true ↔ a = b := by
  simp only [Data3D.eq, beq_iff_eq]
  constructor
  · intro h
    have h1 := C01.data3d a ha []
    have h2 := C01.data3d b hb []
    rw [h, hf] at h1
    rw [h1] at h2
    simpa using h2
  · rintro rfl; rfl

theorem force3d_eq_iff (a b : Force3D) (ha : a.valid = true) (hb : b.valid = true) :
    Force3D.eq a b = true ↔ a = b := by
  simp only [Force3D.eq, beq_iff_eq]
  constructor
  · intro h
    have h1 := C01.force3d a ha []
    have h2 := C01.force3d b hb []
    rw [h] at h1; rw [h1] at h2; simpa using h2
  · rintro rfl; rfl

theorem optical_eq_iff (a b : Optical) (ha : a.valid = true) (hb : b.valid = true) (hf : a.fmt = b.fmt) :
    Optical.eq a b = true ↔ a = b := by
  simp only [Optical.eq, beq_iff_eq]
  constructor
  · intro h
    have h1 := C01.optical a ha []
    have h2 := C01.optical b hb []
    rw [h, hf] at h1; rw [h1] at h2; simpa using h2
  · rintro rfl; rfl

theorem emg_eq_iff (a b : EMG) : EMG.eq a b = true ↔ a = b := by
  simp only [EMG.eq, Bool.and_eq_true, beq_iff_eq]
  constructor
  · rintro ⟨⟨⟨⟨⟨h1, h2⟩, h3⟩, h4⟩, h5⟩, h6⟩
    have := (zipAll_iff a.tracks b.tracks h5).mp h6
    cases a; cases b; simp_all
  · rintro rfl; simp [(zipAll_iff a.tracks a.tracks rfl).mpr rfl]

theorem events_eq_iff (a b : Events) : Events.eq a b = true ↔ a = b := by
  simp only [Events.eq, Bool.and_eq_true, beq_iff_eq]
  constructor
  · rintro ⟨⟨⟨h1, h2⟩, h3⟩, h4⟩
    have := (zipAll_iff a.events b.events h3).mp h4
    cases a; cases b; simp_all
  · rintro rfl; simp [(zipAll_iff a.events a.events rfl).mpr rfl]

/-- the platform-data comparison zips the platforms but compares the channel maps first: on valid
    blocks (one channel per platform) equal maps force equal counts -/
theorem platdata_eq_iff (a b : PlatData) (ha : a.valid = true) (hb : b.valid = true) :
    PlatData.eq a b = true ↔ a = b := by
  simp only [PlatData.valid, Bool.and_eq_true, beq_iff_eq] at ha hb
  have la := ha.1.1.1.1.2
  have lb := hb.1.1.1.1.2
  simp only [PlatData.eq, Bool.and_eq_true, beq_iff_eq]
  constructor
  · rintro ⟨⟨⟨⟨h1, h2⟩, h3⟩, h4⟩, h5⟩
    have hl : a.plats.length = b.plats.length := by rw [← la, ← lb, h4]
    have := (zipAll_iff a.plats b.plats hl).mp h5
    cases a; cases b; simp_all
  · rintro rfl; simp [(zipAll_iff a.plats a.plats rfl).mpr rfl]

theorem platcalib_eq_iff (a b : PlatCalib) : PlatCalib.eq a b = true ↔ a = b := by
  simp only [PlatCalib.eq, Bool.and_eq_true, beq_iff_eq]
  constructor
  · rintro ⟨h1, h2⟩; cases a; cases b; simp_all
  · rintro rfl; simp

theorem calib_eq_iff (a b : Calib) (ha : a.valid = true) (hb : b.valid = true) :
    Calib.eq a b = true ↔ a = b := by
  simp only [Calib.valid, Bool.and_eq_true, beq_iff_eq] at ha hb
  have la := ha.1.1.1.2
  have lb := hb.1.1.1.2
  simp only [Calib.eq, Bool.and_eq_true, beq_iff_eq]
  constructor
  · rintro ⟨⟨⟨⟨⟨⟨h1, h2⟩, h3⟩, h4⟩, h5⟩, h6⟩, h7⟩
    have hl : a.cams.length = b.cams.length := by rw [← la, ← lb, h5]
    have := (zipAll_iff a.cams b.cams hl).mp h6
    cases a; cases b; simp_all
  · rintro rfl; simp [(zipAll_iff a.cams a.cams rfl).mpr rfl]

/-- 2D data: scalars, camera map and every cell of the nFrames × nCams grid -/
theorem data2d_eq_iff (a b : Data2D) (ha : a.valid = true) (hb : b.valid = true) :
    Data2D.eq a b = true ↔ a = b := by
  constructor
  · intro h
    simp only [Data2D.eq, Bool.and_eq_true, beq_iff_eq, List.all_eq_true, List.mem_range] at h
    obtain ⟨⟨⟨⟨⟨⟨⟨h1, h2⟩, h3⟩, h4⟩, h5⟩, h6⟩, h7⟩, _⟩ := h
    simp only [Data2D.valid, Bool.and_eq_true, beq_iff_eq, List.all_eq_true] at ha hb
    have hca := ha.1.2; have hcb := hb.1.2
    have hra := ha.2; have hrb := hb.2
    have hcells : a.cells = b.cells := by
      apply List.ext_getElem (by rw [hca, hcb, h2])
      intro i hi1 hi2
      have hi : i < a.nFrames := by rw [← hca]; exact hi1
      have ra := (hra a.cells[i] (List.getElem_mem hi1)).1
      have rb := (hrb b.cells[i] (List.getElem_mem hi2)).1
      apply List.ext_getElem (by rw [ra, rb, h1])
      intro j hj1 hj2
      have hj : j < a.nCams := by rw [← ra]; exact hj1
      have := h7 i hi j hj
      simpa [List.getD_eq_getElem?_getD, List.getElem?_eq_getElem hi1, List.getElem?_eq_getElem hi2,
        List.getElem?_eq_getElem hj1, List.getElem?_eq_getElem hj2] using this
    cases a; cases b; simp_all
  · rintro rfl
    simp [Data2D.eq]

/-- a block compares equal to itself and to the decode of its own encoding — with gaps, for both
    camera formats, for every class — because decode(encode a) IS a (C01) -/
theorem eq_decode_encode_emg (a : EMG) (h : a.valid = true) :
    ∃ b, (EMG.dec 1).run a.enc = some (b, []) ∧ EMG.eq a b = true := by
  refine ⟨a, by simpa using C01.emg a h [], (emg_eq_iff a a).mpr rfl⟩
theorem eq_decode_encode_platdata (a : PlatData) (h : a.valid = true) :
    ∃ b, (PlatData.dec 1).run a.enc = some (b, []) ∧ PlatData.eq a b = true := by
  refine ⟨a, by simpa using C01.platdata a h [], (platdata_eq_iff a a h h).mpr rfl⟩
theorem eq_decode_encode_calib (a : Calib) (h : a.valid = true) :
    ∃ b, (Calib.dec a.fmt).run a.enc = some (b, []) ∧ Calib.eq a b = true := by
  refine ⟨a, by simpa using C01.calib a h [], (calib_eq_iff a a h h).mpr rfl⟩
theorem eq_decode_encode_events (a : Events) (h : a.valid = true) :
    ∃ b, (Events.dec a.fmt).run a.enc = some (b, []) ∧ Events.eq a b = true := by
  refine ⟨a, by simpa using C01.events a h [], (events_eq_iff a a).mpr rfl⟩
theorem eq_decode_encode_data2d (a : Data2D) (h : a.valid = true) :
    ∃ b, (Data2D.dec 2).run a.enc = some (b, []) ∧ Data2D.eq a b = true := by
  refine ⟨a, by simpa using C01.data2d a h [], (data2d_eq_iff a a h h).mpr rfl⟩

/-- one element appended or removed is always detected -/
theorem append_detected (a : Events) (e : Event) : Events.eq a { a with events := a.events ++ [e] } = false := by
  have : ¬ (a = { a with events := a.events ++ [e] }) := by
    intro h
    have := congrArg (fun x => x.events.length) h
    simp at this
  cases hq : Events.eq a { a with events := a.events ++ [e] } with
  | false => rfl
  | true => exact absurd ((events_eq_iff _ _).mp hq) this

/-- two files compare equal exactly when their version, slot count and block lists do -/
theorem file_eq_iff {β : Type} [BEq β] [LawfulBEq β] (f g : FileView β) :
    FileView.eq f g = true ↔ (f.version = g.version ∧ f.nEntries = g.nEntries ∧ f.blocks = g.blocks) := by
  simp [FileView.eq, and_assoc]

end Tdf.C14
