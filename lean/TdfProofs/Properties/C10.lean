/-
  C10 — The open object, the file on disk and a reopened file always agree.
  `view` = bytes as seen through the open handle, `disk` = bytes flushed to the file,
  `entries` = the in-memory table. After every operation of any history all three describe the
  same layout, and parsing the disk again yields exactly the in-memory table.
-/
import TdfProofs.Lemmas.Layout
namespace Tdf.C10

/-- nothing is left pending: after every prefix of a history disk = view -/
theorem nothing_pending (l : Lay) (ok : l.Ok) (ops : List Op) (hops : OpsOk l ops) :
    (runOps l.state ops).disk = (runOps l.state ops).view := by
  obtain ⟨h1, _⟩ := run_sim l ok ops hops
  rw [h1]; rfl

/-- the table held by the open object is the table an independent parse of the disk finds -/
theorem memory_is_disk (l : Lay) (ok : l.Ok) (ops : List Op) (hops : OpsOk l ops) :
    ∃ h : Header, ∃ rest, decTable.run (runOps l.state ops).disk = some ((h, (runOps l.state ops).entries), rest)
      ∧ h.nEntries = ((runOps l.state ops).nEntries : Int) := by
  obtain ⟨h1, h2⟩ := run_sim l ok ops hops
  obtain ⟨h, hn, hd⟩ := decTable_image _ h2
  rw [h1]
  exact ⟨h, _, hd, hn⟩

/-- closing and reopening changes nothing: `__enter__` on the disk bytes rebuilds the same object -/
theorem reopen_same (l : Lay) (ok : l.Ok) (ops : List Op) (hops : OpsOk l ops) :
    openFile (runOps l.state ops).disk = some (runOps l.state ops) := by
  obtain ⟨h1, h2⟩ := run_sim l ok ops hops
  rw [h1]; exact Tdf.reopen_same _ h2

theorem opsOk_prefix (l : Lay) (a b : List Op) (h : OpsOk l (a ++ b)) : OpsOk l a := by
  induction a generalizing l with
  | nil => trivial
  | cons op ops ih => exact ⟨h.1, ih _ h.2⟩

/-- observation points inside a history: the statement holds after each individual operation -/
theorem after_each_step (l : Lay) (ok : l.Ok) (ops1 ops2 : List Op) (hops : OpsOk l (ops1 ++ ops2)) :
    (runOps l.state ops1).disk = (runOps l.state ops1).view ∧
    openFile (runOps l.state ops1).disk = some (runOps l.state ops1) := by
  have hpre : OpsOk l ops1 := opsOk_prefix l ops1 ops2 hops
  exact ⟨nothing_pending l ok ops1 hpre, reopen_same l ok ops1 hpre⟩

/-- entering a context forgets everything: what the object holds after `__enter__` is a function of the bytes on
    disk alone — two objects with whatever different memories (tables remembered from an earlier context, from
    another file, from before other objects rearranged this file) that look at the same bytes hold the same table
    afterwards. Nothing remembered across a pause can survive it. -/
theorem enter_forgets (s₁ s₂ : TdfSt) (h : s₁.disk = s₂.disk) (s' : TdfSt) (h1 : openFile s₁.disk = some s') :
    (step s₁ .reopen).1 = s' ∧ (step s₂ .reopen).1 = s' := by
  have h2 : openFile s₂.disk = some s' := by rw [← h]; exact h1
  simp [step, h1, h2]

/-- … in particular after a pause during which OTHER objects ran any history on the file: the first object, on
    re-entering, holds exactly the state those objects left (here: the state of the model after their history),
    whatever it remembered before -/
theorem resume_sees_what_others_left (l : Lay) (ok : l.Ok) (ops : List Op) (hops : OpsOk l ops) (stale : TdfSt)
    (h : stale.disk = (runOps l.state ops).disk) :
    (step stale .reopen).1 = runOps l.state ops := by
  have := reopen_same l ok ops hops
  rw [← h] at this
  simp [step, this]

/-- reading a block through the open object = reading its byte range from the disk -/
theorem object_reads_disk (l : Lay) (e : Entry) :
    payloadOf l.state e = readAt l.state.disk e.off.toNat e.size.toNat := rfl

/-! ### every state (session 5): files of other software, tables in any order, with gaps, with unused slots anywhere.
    No layout is assumed — these are invariants of the transition function itself. -/

theorem add_pending_any (s : TdfSt) (b : BlkArg) (c : Str) (now : Int) (h : s.disk = s.view) :
    (addBlock s b c now).1.disk = (addBlock s b c now).1.view := by
  unfold addBlock
  repeat' split
  all_goals first | exact h | rfl

theorem remove_pending_any (s : TdfSt) (t : Nat) (now : Int) (h : s.disk = s.view) :
    (removeBlock s t now).1.disk = (removeBlock s t now).1.view := by
  unfold removeBlock
  split
  · exact h
  · rfl

theorem replace_pending_any (s : TdfSt) (b : BlkArg) (c : Option Str) (now : Int) (h : s.disk = s.view) :
    (replaceBlock s b c now).1.disk = (replaceBlock s b c now).1.view := by
  unfold replaceBlock
  cases hfind : s.entries.find? (fun e => e.typ == b.typ) with
  | none => exact h
  | some old =>
    simp only []
    cases hchk : checkArg b (c.getD old.comment) now with
    | error e' => exact h
    | ok pl =>
      simp only []
      by_cases hhole : holeIn (eraseFirst (fun e => e.typ == b.typ) s.entries) = true
      · simp only [hhole, if_true]; exact h
      · simp only [hhole, Bool.false_eq_true, if_false]
        have h1 := remove_pending_any s b.typ now h
        rcases hrem : removeBlock s b.typ now with ⟨s1, o⟩
        rw [hrem] at h1
        cases o with
        | ok => exact add_pending_any s1 b _ now h1
        | err e => exact h1

/-- ONE call, ANY state: whatever table the object holds (well-formed or not), whatever the call is and whether it is accepted or
    refused, when it returns the bytes on disk are the bytes seen through the handle — nothing is left pending in a buffer -/
theorem step_nothing_pending_any (s : TdfSt) (op : Op) (h : s.disk = s.view) :
    (step s op).1.disk = (step s op).1.view := by
  cases op with
  | add b c now => exact add_pending_any s b c now h
  | remove t now => exact remove_pending_any s t now h
  | replace b c now => exact replace_pending_any s b c now h
  | set b now =>
    simp only [step, setBlock]
    split
    · exact replace_pending_any s b none now h
    · exact add_pending_any s b _ now h
  | reopen =>
    simp only [step]
    cases hopen : openFile s.disk with
    | none => exact h
    | some s' =>
      simp only [openFile] at hopen
      split at hopen
      · cases hopen; rfl
      · cases hopen

/-- EVERY history from ANY state with nothing pending — no `Lay.Ok`, no `OpsOk`: also on tables this library did not write and
    through refused calls — ends with nothing pending; by `opsOk`-free prefix closure this holds after each individual call -/
theorem history_nothing_pending_any (s : TdfSt) (ops : List Op) (h : s.disk = s.view) :
    (runOps s ops).disk = (runOps s ops).view := by
  induction ops generalizing s with
  | nil => exact h
  | cons op ops ih => exact ih _ (step_nothing_pending_any s op h)

theorem runOps_append (s : TdfSt) (a b : List Op) : runOps s (a ++ b) = runOps (runOps s a) b := by
  induction a generalizing s with
  | nil => rfl
  | cons op ops ih => exact ih _

/-- … observed after each individual operation of the history, not only at its end -/
theorem after_each_step_any (s : TdfSt) (ops1 ops2 : List Op) (h : s.disk = s.view) :
    (runOps s ops1).disk = (runOps s ops1).view ∧ (runOps s (ops1 ++ ops2)).disk = (runOps s (ops1 ++ ops2)).view :=
  ⟨history_nothing_pending_any s ops1 h, history_nothing_pending_any s _ h⟩

/-- … so at every point of every history from ANY state, what the open object reads for an entry is what lies on disk in that range -/
theorem object_reads_disk_any (s : TdfSt) (ops : List Op) (e : Entry) (h : s.disk = s.view) :
    payloadOf (runOps s ops) e = readAt (runOps s ops).disk e.off.toNat e.size.toNat := by
  rw [history_nothing_pending_any s ops h]; rfl

/-- what `__enter__` hands out has nothing pending, whatever the bytes are -/
theorem open_nothing_pending (d : Bytes) (s : TdfSt) (h : openFile d = some s) : s.disk = s.view ∧ s.disk = d := by
  simp only [openFile] at h
  split at h
  · cases h; exact ⟨rfl, rfl⟩
  · cases h

/-- non-vacuity: a state that is no layout image (live entry behind an unused slot, data out of table order) meets the hypothesis -/
example : (⟨[1,2,3], [1,2,3], [⟨0, 0, 1000, 0, 0, 0, 0, []⟩, ⟨11, 1, 936, 64, 0, 0, 0, []⟩], 2⟩ : TdfSt).disk
    = (⟨[1,2,3], [1,2,3], [⟨0, 0, 1000, 0, 0, 0, 0, []⟩, ⟨11, 1, 936, 64, 0, 0, 0, []⟩], 2⟩ : TdfSt).view := rfl

end Tdf.C10
