/-
  C10 — The open object, the file on disk and a reopened file always agree.
  `view` = bytes as seen through the open handle, `disk` = bytes flushed to the file,
  `entries` = the in-memory table. After every operation of any history all three describe the
  same layout, and parsing the disk again yields exactly the in-memory table.
-/
import TdfProofs.Lemmas.Layout
namespace Tdf.C10

/-- nothing is left pending: after every prefix of a history disk = view -/
theorem nothing_pending (l : Lay) (ok : l.Ok) (ops : List Op) (hops : OpsOk l ops) :
    (runOps l.state ops).disk = (runOps l.state ops).view := by
  obtain ⟨h1, _⟩ := run_sim l ok ops hops
  rw [h1]; rfl

/-- the table held by the open object is the table an independent parse of the disk finds -/
theorem memory_is_disk (l : Lay) (ok : l.Ok) (ops : List Op) (hops : OpsOk l ops) :
    ∃ h : Header, ∃ rest, decTable.run (runOps l.state ops).disk = some ((h, (runOps l.state ops).entries), rest)
      ∧ h.nEntries = ((runOps l.state ops).nEntries : Int) := by
  obtain ⟨h1, h2⟩ := run_sim l ok ops hops
  obtain ⟨h, hn, hd⟩ := decTable_image _ h2
  rw [h1]
  exact ⟨h, _, hd, hn⟩

/-- closing and reopening changes nothing: `__enter__` on the disk bytes rebuilds the same object -/
theorem reopen_same (l : Lay) (ok : l.Ok) (ops : List Op) (hops : OpsOk l ops) :
    openFile (runOps l.state ops).disk = some (runOps l.state ops) := by
  obtain ⟨h1, h2⟩ := run_sim l ok ops hops
  rw [h1]; exact Tdf.reopen_same _ h2

theorem opsOk_prefix (l : Lay) (a b : List Op) (h : OpsOk l (a ++ b)) : OpsOk l a := by
  induction a generalizing l with
  | nil => trivial
  | cons op ops ih => exact ⟨h.1, ih _ h.2⟩

/-- observation points inside a history: the statement holds after each individual operation -/
theorem after_each_step (l : Lay) (ok : l.Ok) (ops1 ops2 : List Op) (hops : OpsOk l (ops1 ++ ops2)) :
    (runOps l.state ops1).disk = (runOps l.state ops1).view ∧
    openFile (runOps l.state ops1).disk = some (runOps l.state ops1) := by
  have hpre : OpsOk l ops1 := opsOk_prefix l ops1 ops2 hops
  exact ⟨nothing_pending l ok ops1 hpre, reopen_same l ok ops1 hpre⟩

/-- entering a context forgets everything: what the object holds after `__enter__` is a function of the bytes on
    disk alone — two objects with whatever different memories (tables remembered from an earlier context, from
    another file, from before other objects rearranged this file) that look at the same bytes hold the same table
    afterwards. Nothing remembered across a pause can survive it. -/
theorem enter_forgets (s₁ s₂ : TdfSt) (h : s₁.disk = s₂.disk) (s' : TdfSt) (h1 : openFile s₁.disk = some s') :
    (step s₁ .reopen).1 = s' ∧ (step s₂ .reopen).1 = s' := by
  have h2 : openFile s₂.disk = some s' := by rw [← h]; exact h1
  simp [step, h1, h2]

/-- … in particular after a pause during which OTHER objects ran any history on the file: the first object, on
    re-entering, holds exactly the state those objects left (here: the state of the model after their history),
    whatever it remembered before -/
theorem resume_sees_what_others_left (l : Lay) (ok : l.Ok) (ops : List Op) (hops : OpsOk l ops) (stale : TdfSt)
    (h : stale.disk = (runOps l.state ops).disk) :
    (step stale .reopen).1 = runOps l.state ops := by
  have := reopen_same l ok ops hops
  rw [← h] at this
  simp [step, this]

/-- reading a block through the open object = reading its byte range from the disk -/
theorem object_reads_disk (l : Lay) (e : Entry) :
    payloadOf l.state e = readAt l.state.disk e.off.toNat e.size.toNat := rfl

end Tdf.C10
