/-
  C03 — Any history of add/remove/replace/setter operations leaves a structurally sound file.
  L0 model: TdfModel/Container.lean (seek/write/truncate on bytes, as basictdf.py does);
  L1 spec: TdfModel/Spec.lean (a file is a list of blocks; the byte layout is a function of it).
  Start states: the images `l.state` of well-formed layouts (`Lay.Ok`): 64 header bytes that parse,
  n slots (ANY n), live blocks back to back, unused slots at end-of-data, file < 2 GiB — i.e. the
  compact files Tdf.new and BTS software write, with any payload bytes (also of undecodable types).
  Operations must be acceptable (`OpsOk`): real block types (≠ 0), honest sizes (C02), results < 2 GiB.
-/
import TdfProofs.Lemmas.Foreign
namespace Tdf.C03

/-- every finite history ends in the image of a well-formed layout (and behaves like the spec) -/
theorem history_refines (l : Lay) (ok : l.Ok) (ops : List Op) (hops : OpsOk l ops) :
    runOps l.state ops = (l.specRun ops).state ∧ (l.specRun ops).Ok := run_sim l ok ops hops

/-- … whose bytes are well-formed: the table parses, every live range lies after the table and
    inside the file, no two live ranges overlap, every unused slot has size zero -/
theorem history_wf (l : Lay) (ok : l.Ok) (ops : List Op) (hops : OpsOk l ops) :
    wfB (runOps l.state ops).view = true ∧ wfB (runOps l.state ops).disk = true := by
  obtain ⟨h1, h2⟩ := run_sim l ok ops hops
  rw [h1]
  exact ⟨wfB_image _ h2, wfB_image _ h2⟩

/-- what `wfB` says, as a proposition about the parsed table -/
theorem wf_meaning (l : Lay) (ok : l.Ok) : WFTable l.n l.image.length l.table := wfTable_of_lay l ok

/-- signature, version and the number of slots never change: the 64 header bytes are never written -/
theorem header_untouched (l : Lay) (ok : l.Ok) (ops : List Op) (hops : OpsOk l ops) :
    (l.specRun ops).hdr = l.hdr ∧ (l.specRun ops).n = l.n ∧
    (runOps l.state ops).view.take 64 = l.hdr ∧ (runOps l.state ops).nEntries = l.n := by
  have key : ∀ (l : Lay) (ops : List Op), (l.specRun ops).hdr = l.hdr ∧ (l.specRun ops).n = l.n := by
    intro l ops
    induction ops generalizing l with
    | nil => exact ⟨rfl, rfl⟩
    | cons op ops ih =>
      have hs : (l.specStep op).1.hdr = l.hdr ∧ (l.specStep op).1.n = l.n := by
        cases op <;> simp only [Lay.specStep] <;> (repeat' split) <;> simp [Lay.add, Lay.remove]
      have := ih (l.specStep op).1
      simp only [Lay.specRun]
      exact ⟨this.1.trans hs.1, this.2.trans hs.2⟩
  obtain ⟨h1, h2⟩ := run_sim l ok ops hops
  refine ⟨(key l ops).1, (key l ops).2, ?_, ?_⟩
  · rw [h1]; simp only [Lay.state, Lay.image, List.append_assoc]
    rw [← h2.hdr_len, List.take_left, (key l ops).1]
  · rw [h1]; exact (key l ops).2

/-- "in particular": a block added after a removal never lands on a block that is still live -/
theorem add_after_remove_no_overlap (l : Lay) (ok : l.Ok) (t : Nat) (b : BlkArg) (c : Str) (now now' : Int)
    (hops : OpsOk l [.remove t now, .add b c now']) :
    (liveOf (runOps l.state [.remove t now, .add b c now']).entries).Pairwise Disjoint2 := by
  obtain ⟨h1, h2⟩ := run_sim l ok _ hops
  rw [h1]
  exact (wfTable_of_lay _ h2).2.1

/-- FOREIGN FILES, table level (`_partial`): the start states of `history_wf` are the compact layouts the library and BTS software
    write. A well-formed file of other software may list its blocks in ANY order and leave gaps between them. For every such
    table — no assumption beyond the property's own `WFTable` — the table `remove_block` leaves behind is well-formed again, for the
    file shortened by the removed block: every live range after the table and inside the file, no two overlapping, unused slots
    of size zero. What is missing for the full statement on such files is the byte level (that the rewritten table parses back to
    this one; that the file has exactly that length is now `C09.remove_any_table_wf_file`, session 5) and `add_block` (which needs the convention of C09 on top: unused slots
    point at the end of the data); both are covered on permuted and gappy files by the correspondence and the `wfB` judge only. -/
theorem remove_any_table_wf_partial (s : TdfSt) (t : Nat) (now : Int) (flen pos : Nat) (ht : t ≠ 0)
    (hfind : findType t s.entries = some pos) (hwf : WFTable s.nEntries flen s.entries) :
    WFTable s.nEntries (flen - (s.entries.getD pos unusedEntry).size.toNat) (removeBlock s t now).1.entries := by
  rw [removeBlock_entries s t now pos hfind]
  obtain ⟨e, h1, h2, h3⟩ := findIdxBy_some _ _ _ hfind
  have hget : s.entries.getD pos unusedEntry = e := by simp [List.getD_eq_getElem?_getD, h1]
  rw [hget]
  have hlive : e.typ ≠ 0 := by
    have : e.typ = t := by simpa using h2
    rw [this]; exact ht
  rw [h3] at hwf
  exact remove_keeps_table_wf _ _ _ _ e _ hlive ⟨rfl, rfl⟩ hwf

/-- FOREIGN FILES, table level (`_partial`), the ADD half: on ANY well-formed table an accepted `add_block` leaves a well-formed table,
    provided the unused slot it takes points at or behind the end of all live data (the convention C09 states for compact files,
    weakened to "not into live data") and not into the jump table. Without that proviso the statement is false — the property's own
    notion of well-formed says nothing about where unused slots point — and the real code, like the model, puts the block where the
    slot says. -/
theorem add_any_table_wf_partial (s : TdfSt) (b : BlkArg) (c : Str) (now : Int) (flen pos : Nat) (pl : Bytes)
    (hty : b.typ ≠ 0)
    (hd : hasType b.typ s.entries = false) (hf : firstUnused s.entries = some pos) (hchk : checkArg b c now = .ok pl)
    (hh : (s.entries.drop (pos + 1)).any (fun e => e.typ != 0) = false)
    (hwf : WFTable s.nEntries flen s.entries)
    (htab : (64 + 288 * s.nEntries : Int) ≤ (s.entries.getD pos unusedEntry).off)
    (hend : ∀ e ∈ liveOf s.entries, e.off + e.size ≤ (s.entries.getD pos unusedEntry).off) :
    WFTable s.nEntries (max flen ((s.entries.getD pos unusedEntry).off + b.size).toNat) (addBlock s b c now).1.entries := by
  rw [addBlock_entries s b c now pos pl hd hf hchk hh]
  obtain ⟨slot, h1, h2, h3⟩ := findIdxBy_some _ _ _ hf
  have hget : s.entries.getD pos unusedEntry = slot := by simp [List.getD_eq_getElem?_getD, h1]
  rw [hget] at htab hend ⊢
  have hslot : slot.typ = 0 := by simpa using h2
  have hpost : ∀ e ∈ s.entries.drop (pos + 1), e.typ = 0 := by
    intro e he
    have := List.any_eq_false.mp hh e he
    simpa using this
  rw [h3] at hwf hend
  exact add_keeps_table_wf _ _ _ _ slot ⟨b.typ, b.fmt, slot.off, b.size, b.cdate, b.mdate, now, c⟩ _ hslot hty rfl (Int.natCast_nonneg _) hpost htab hend hwf

/-- FOREIGN FILES, table level (`_partial`), HISTORIES: start from ANY table that is well-formed and whose unused slots point behind the jump
    table and behind all live data (`ForeignInv`: no assumption on the order of the entries, on gaps between the blocks, or on where in
    the table the unused slots are). After any finite sequence of add / remove / replace / setter calls on real block types — accepted
    or refused, in any mix — the table the object holds is again such a table: every live range behind the jump table and inside the
    file, no two live ranges overlapping, every unused slot of size zero. (Missing for the full statement: the bytes — that the table
    on disk parses back to this one and the file has that length — and re-entering a context; on foreign files those rest on the
    correspondence and on `wfB` run on the real bytes.) -/
theorem foreign_history_table_wf_partial (s : TdfSt) (ops : List Op) (hops : ∀ op ∈ ops, TableOp op) (flen : Nat)
    (hinv : ForeignInv s.nEntries flen s.entries) :
    ∃ flen', WFTable (runOps s ops).nEntries flen' (runOps s ops).entries := by
  obtain ⟨f, h⟩ := foreign_history s ops hops flen hinv
  exact ⟨f, h.1⟩

/-- "in particular a block added after a removal never lands on top of a block that is still live" — on any such table -/
theorem foreign_no_overlap_partial (s : TdfSt) (ops : List Op) (hops : ∀ op ∈ ops, TableOp op) (flen : Nat)
    (hinv : ForeignInv s.nEntries flen s.entries) :
    (liveOf (runOps s ops).entries).Pairwise Disjoint2 := by
  obtain ⟨f, h⟩ := foreign_history s ops hops flen hinv
  exact h.1.2.1

/-- a start state: two blocks listed in the reverse of their storage order, a gap of 40 bytes between them, unused slot at the end of the data -/
example : ForeignInv 3 5000 [⟨11, 1, 4040, 960, 0, 0, 0, []⟩, ⟨16, 1, 928, 3072, 0, 0, 0, []⟩, ⟨0, 0, 5000, 0, 0, 0, 0, []⟩] := by decide

/-- the hypothesis is met by a table that lists two blocks in the REVERSE of their storage order (N = 3, 4 960-byte file) -/
example : WFTable 3 4960 [⟨11, 1, 4000, 960, 0, 0, 0, []⟩, ⟨16, 1, 928, 3072, 0, 0, 0, []⟩, ⟨0, 0, 4960, 0, 0, 0, 0, []⟩] := by decide
example : (removeBlock ⟨[], [], [⟨11, 1, 4000, 960, 0, 0, 0, []⟩, ⟨16, 1, 928, 3072, 0, 0, 0, []⟩, ⟨0, 0, 4960, 0, 0, 0, 0, []⟩], 3⟩ 11 7).1.entries.map (·.off)
    = [928, 4000, 4000] := by decide

/-- THE JUDGE IS EXACT: `wfB`, which the harness runs on the bytes the real code leaves on disk, accepts
    a file iff its header and table parse and the parsed table satisfies the declarative `WFTable` -/
theorem judge_exact (file : Bytes) :
    wfB file = true ↔
      ∃ h es rest, decTable.run file = some ((h, es), rest) ∧ WFTable h.nEntries.toNat file.length es := by
  unfold wfB
  cases hd : decTable.run file with
  | none => simp
  | some r =>
    obtain ⟨⟨h, es⟩, rest⟩ := r
    simp only [decide_eq_true_eq, Option.some.injEq, Prod.mk.injEq]
    constructor
    · intro hw; exact ⟨h, es, rest, ⟨⟨rfl, rfl⟩, rfl⟩, hw⟩
    · rintro ⟨h', es', rest', ⟨⟨rfl, rfl⟩, rfl⟩, hw⟩; exact hw

/-! non-vacuity: the file written by `Tdf.new` is such a start state, for every clock value in range -/
def freshLay (now : Int) : Lay :=
  ⟨(Header.enc ⟨1, 14, now, now, now⟩), 14, [], List.replicate 14 ⟨0, now, now, now, defaultComment⟩⟩

theorem fresh_is_newFile (now : Int) : (freshLay now).image = newFile now := by
  simp [freshLay, Lay.image, Lay.table, liveEntries, freeEntries, freeEntry, Lay.eod, tableStart, dataOf, newFile,
    List.flatMap_replicate, List.map_replicate]

theorem fresh_ok (now : Int) (h : inI32 now = true) : (freshLay now).Ok := by
  refine ⟨by simp [freshLay, Header.enc_length], by simp [freshLay], by simp [freshLay], ?_, by simp [freshLay, Lay.eod, tableStart, dataOf],
    by simp [freshLay], by simp [freshLay], ?_⟩
  · intro f hf; simp [freshLay] at hf; obtain ⟨_, rfl⟩ := hf
    simp [FreeMeta.fieldsOk, h, defaultComment_ok]
  · refine ⟨⟨1, 14, now, now, now⟩, rfl, fun rest => ?_⟩
    exact Header.dec_enc _ (by have := (inI32_iff now).mp h; simp [Header.valid, inI32]; omega) rest

/-- the hypotheses of the history theorems are satisfiable by a history that really mutates the file -/
def demoArg : BlkArg := ⟨16, 1, 3, some [1, 2, 3], 0, 0⟩

example : OpsOk (freshLay 1000) [.add demoArg defaultComment 1001, .remove 16 1002] := by
  refine ⟨⟨by decide, ?_, by decide⟩, ⟨by decide, by decide⟩, trivial⟩
  intro pl h; simp [demoArg] at h; subst h; rfl
example : ((freshLay 1000).specRun [.add demoArg defaultComment 1001]).bs.map (·.payload) = [[1, 2, 3]] := by decide
example : ((freshLay 1000).specRun [.add demoArg defaultComment 1001, .remove 16 1002]).bs = [] := by decide
example : (runOps (freshLay 1000).state [.add demoArg defaultComment 1001]).disk.length = 4099 := by decide +kernel

/-! ### the number of slots never changes (session 5) — on EVERY state: any table, any order, gaps, even ill-formed ones.
    The quantifier of C03 speaks of "all table lengths": the table length is a constant of every history. -/

theorem findIdxBy_lt (p : Entry → Bool) (es : List Entry) (i : Nat) (h : findIdxBy p es = some i) : i < es.length := by
  obtain ⟨e, h1, _, _⟩ := findIdxBy_some p es i h
  exact (List.getElem?_eq_some_iff.mp h1).1

theorem add_slots_any (s : TdfSt) (b : BlkArg) (c : Str) (now : Int) :
    (addBlock s b c now).1.entries.length = s.entries.length ∧ (addBlock s b c now).1.nEntries = s.nEntries := by
  unfold addBlock
  split
  · exact ⟨rfl, rfl⟩
  · split
    · exact ⟨rfl, rfl⟩
    · rename_i pos hpos
      have hlt := findIdxBy_lt _ _ _ hpos
      split
      · exact ⟨rfl, rfl⟩
      · split
        · exact ⟨rfl, rfl⟩
        · refine ⟨?_, rfl⟩
          simp only [List.length_append, List.length_take, List.length_cons, List.length_map, List.length_drop]
          omega

theorem remove_slots_any (s : TdfSt) (t : Nat) (now : Int) :
    (removeBlock s t now).1.entries.length = s.entries.length ∧ (removeBlock s t now).1.nEntries = s.nEntries := by
  unfold removeBlock
  split
  · exact ⟨rfl, rfl⟩
  · rename_i pos hpos
    have hlt := findIdxBy_lt _ _ _ hpos
    refine ⟨?_, rfl⟩
    simp only [List.length_append, List.length_take, List.length_cons, List.length_map, List.length_drop, List.length_nil]
    omega

theorem replace_slots_any (s : TdfSt) (b : BlkArg) (c : Option Str) (now : Int) :
    (replaceBlock s b c now).1.entries.length = s.entries.length ∧ (replaceBlock s b c now).1.nEntries = s.nEntries := by
  unfold replaceBlock
  cases hfind : s.entries.find? (fun e => e.typ == b.typ) with
  | none => exact ⟨rfl, rfl⟩
  | some old =>
    simp only []
    cases hchk : checkArg b (c.getD old.comment) now with
    | error e' => exact ⟨rfl, rfl⟩
    | ok pl =>
      simp only []
      by_cases hhole : holeIn (eraseFirst (fun e => e.typ == b.typ) s.entries) = true
      · simp [hhole]
      · simp only [hhole, Bool.false_eq_true, if_false]
        have h1 := remove_slots_any s b.typ now
        rcases hrem : removeBlock s b.typ now with ⟨s1, o⟩
        rw [hrem] at h1
        cases o with
        | ok =>
          have h2 := add_slots_any s1 b (c.getD old.comment) now
          exact ⟨h2.1.trans h1.1, h2.2.trans h1.2⟩
        | err e => exact h1

/-- ONE call on ANY state — accepted or refused, any table: the object holds as many slots afterwards as before, and the
    table length it remembers is the one it had -/
theorem step_slots_any (s : TdfSt) (op : Op) (hop : TableOp op) :
    (step s op).1.entries.length = s.entries.length ∧ (step s op).1.nEntries = s.nEntries := by
  cases op with
  | add b c now => exact add_slots_any s b c now
  | remove t now => exact remove_slots_any s t now
  | replace b c now => exact replace_slots_any s b c now
  | set b now =>
    simp only [step, setBlock]
    split
    · exact replace_slots_any s b none now
    · exact add_slots_any s b _ now
  | reopen => exact absurd hop (by simp [TableOp])

/-- EVERY history on ANY state: the table length is a constant -/
theorem history_slots_any (s : TdfSt) (ops : List Op) (hops : ∀ op ∈ ops, TableOp op) :
    (runOps s ops).entries.length = s.entries.length ∧ (runOps s ops).nEntries = s.nEntries := by
  induction ops generalizing s with
  | nil => exact ⟨rfl, rfl⟩
  | cons op ops ih =>
    have h1 := step_slots_any s op (hops op (by simp))
    have h2 := ih (step s op).1 (fun o ho => hops o (by simp [ho]))
    exact ⟨h2.1.trans h1.1, h2.2.trans h1.2⟩

/-! ### the header on any table (session 5) -/

theorem take_writeAt (v new : Bytes) (off k : Nat) (hk : k ≤ off) (hv : k ≤ v.length) :
    (writeAt v off new).take k = v.take k := by
  unfold writeAt
  split
  · rw [List.append_assoc, List.take_append_of_le_length (by simp [List.length_take]; omega), List.take_take]
    congr 1; omega
  · rw [List.append_assoc, List.take_append_of_le_length hv]

/-- ANY state — table in any order, gaps —: a removal of a block stored behind the header leaves the 64 header bytes as they were
    (signature, version, table length, dates); no layout assumed -/
theorem remove_header_untouched_any (s : TdfSt) (t : Nat) (now : Int) (pos : Nat) (hfind : findType t s.entries = some pos)
    (hoff : 64 ≤ (s.entries.getD pos unusedEntry).off) (hv : 64 ≤ s.view.length) :
    (removeBlock s t now).1.view.take 64 = s.view.take 64 := by
  unfold removeBlock
  simp only [hfind, truncateAt]
  generalize s.entries.getD pos unusedEntry = old at *
  generalize ((List.map (shiftAfter old) (List.take pos s.entries ++ List.drop (pos + 1) s.entries) ++ _).flatMap Entry.enc) = tab
  have h1 : 64 ≤ (writeAt s.view (slotPos 0) tab).length := by rw [writeAt_length]; omega
  rw [List.take_take, show min 64 (old.off.toNat + (List.drop (old.off + old.size).toNat (writeAt s.view (slotPos 0) tab)).length) = 64 by omega]
  rw [take_writeAt _ _ _ _ (by omega) h1, take_writeAt _ _ _ _ (by simp [slotPos]) hv]

theorem take_writeEntries (v : Bytes) (start : Nat) (es : List Entry) (hv : 64 ≤ v.length) :
    (writeEntries v start es).take 64 = v.take 64 := by
  induction es generalizing v start with
  | nil => rfl
  | cons e es ih =>
    unfold writeEntries
    rw [ih _ _ (by rw [writeAt_length]; omega), take_writeAt _ _ _ _ (by simp [slotPos]) hv]

/-- … and so does an accepted or refused `add_block` whose slot points behind the header -/
theorem add_header_untouched_any (s : TdfSt) (b : BlkArg) (c : Str) (now : Int) (hv : 64 ≤ s.view.length)
    (hoff : ∀ pos, firstUnused s.entries = some pos → 64 ≤ (s.entries.getD pos unusedEntry).off) :
    (addBlock s b c now).1.view.take 64 = s.view.take 64 := by
  unfold addBlock
  split
  · rfl
  · split
    · rfl
    · rename_i pos hpos
      have ho := hoff pos hpos
      split
      · rfl
      · split
        · rfl
        · simp only []
          rw [take_writeAt _ _ _ _ (by omega) (by
                have := take_writeEntries (writeAt s.view (slotPos pos) (Entry.enc ⟨b.typ, b.fmt, (s.entries.getD pos unusedEntry).off, b.size, b.cdate, b.mdate, now, c⟩)) (pos + 1)
                  ((s.entries.drop (pos + 1)).map (fun x => { x with off := (s.entries.getD pos unusedEntry).off + b.size })) (by rw [writeAt_length]; omega)
                have hl := congrArg List.length this
                simp only [List.length_take, writeAt_length] at hl
                omega),
              take_writeEntries _ _ _ (by rw [writeAt_length]; omega), take_writeAt _ _ _ _ (by simp [slotPos]) hv]

/-- non-vacuity: a real removal on a table in foreign order (live entry behind an unused slot) -/
example : (removeBlock ⟨[], [], [⟨0, 0, 1000, 0, 0, 0, 0, []⟩, ⟨11, 1, 936, 64, 0, 0, 0, []⟩], 2⟩ 11 5).1.entries.length = 2 := by decide

end Tdf.C03
