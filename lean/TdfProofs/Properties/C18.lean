/-
  C18 — Lookup by index, by label, membership, iteration and length are coherent.
  One list of labelled items (labels are arbitrary values: duplicates, the empty label, labels that
  differ only in case or blanks are all just different or equal values here).
-/
import TdfModel.Tracks
namespace Tdf.C18

/-- indexing by position i returns the i-th iterated item, for every valid (also negative) index -/
theorem index_is_iteration (labels : List Nat) (i : Nat) (h : i < labels.length) :
    getItem labels (.idx i) = .item i := by
  simp [getItem, pyIndex, h]

theorem negative_index (labels : List Nat) (k : Nat) (h1 : 0 < k) (h2 : k ≤ labels.length) :
    getItem labels (.idx (-(k : Int))) = .item (labels.length - k) := by
  have a : ¬ (0 ≤ -(k : Int) ∧ -(k : Int) < labels.length) := by omega
  have b : (-(k : Int) < 0 ∧ - -(k : Int) ≤ labels.length) := by omega
  simp only [getItem, pyIndex]
  rw [if_neg a, if_pos b]
  simp

theorem index_out_of_range (labels : List Nat) (i : Int) (h : i ≥ labels.length ∨ i < -(labels.length : Int)) :
    getItem labels (.idx i) = .indexError := by
  have a : ¬ (0 ≤ i ∧ i < labels.length) := by omega
  have b : ¬ (i < 0 ∧ -i ≤ labels.length) := by omega
  simp [getItem, pyIndex, a, b]

/-- every index result is a position of the iteration -/
theorem index_in_range (labels : List Nat) (i : Int) (p : Nat) (h : getItem labels (.idx i) = .item p) :
    p < labels.length := by
  simp only [getItem, pyIndex] at h
  split at h
  · rename_i q hq
    injection h with h; subst h
    split at hq
    · injection hq with hq; omega
    · split at hq
      · injection hq with hq; omega
      · cases hq
  · cases h

/-- indexing by label returns the FIRST item carrying that label -/
theorem label_returns_first (labels : List Nat) (l : Nat) (p : Nat) (h : getItem labels (.label l) = .item p) :
    labels[p]? = some l ∧ ∀ q, q < p → labels[q]? ≠ some l := by
  simp only [getItem, firstWithLabel] at h
  split at h
  · rename_i q hq
    injection h with h; subst h
    have := List.findIdx?_eq_some_iff_getElem.mp hq
    obtain ⟨hlt, hp, hbefore⟩ := this
    refine ⟨by simpa [List.getElem?_eq_getElem hlt] using hp, ?_⟩
    intro r hr heq
    have hr' : r < labels.length := by omega
    have := hbefore r hr
    rw [List.getElem?_eq_getElem hr'] at heq
    simp at heq
    simp [heq] at this
  · cases h

/-- … and raises KeyError exactly when no item carries it; membership by label agrees with lookup -/
theorem contains_iff_lookup (labels : List Nat) (l : Nat) :
    containsLabel labels l = true ↔ ∃ p, getItem labels (.label l) = .item p := by
  simp only [containsLabel, getItem, firstWithLabel]
  constructor
  · intro h
    cases hf : labels.findIdx? (· == l) with
    | none =>
      rw [List.findIdx?_eq_none_iff] at hf
      simp only [List.any_eq_true] at h
      obtain ⟨x, hx, hxl⟩ := h
      exact absurd hxl (by simpa using hf x hx)
    | some p => exact ⟨p, rfl⟩
  · rintro ⟨p, hp⟩
    split at hp
    · rename_i q hq
      have := List.findIdx?_eq_some_iff_getElem.mp hq
      obtain ⟨hlt, hpq, _⟩ := this
      simp only [List.any_eq_true]
      exact ⟨labels[q], List.getElem_mem hlt, hpq⟩
    · cases hp

theorem missing_label_keyerror (labels : List Nat) (l : Nat) (h : containsLabel labels l = false) :
    getItem labels (.label l) = .keyError := by
  have : ¬ ∃ p, getItem labels (.label l) = .item p := by
    rw [← contains_iff_lookup]; simp [h]
  simp only [getItem] at this ⊢
  split
  · rename_i p hp; exact absurd ⟨p, by simp [hp]⟩ this
  · rfl

/-- an unsupported key type raises TypeError -/
theorem other_key_typeerror (labels : List Nat) : getItem labels .other = .typeError := rfl

theorem item_key_typeerror (labels : List Nat) (p : Nat) : getItem labels (.item p) = .typeError := rfl

/-- membership: every item that iteration yields is `in` the block; a label is `in` it exactly when
    lookup by it succeeds; integers and objects of other types raise TypeError -/
theorem in_item_iff_iterated (labels : List Nat) (p : Nat) : memberOf labels (.item p) = .yes ↔ p < labels.length := by
  simp only [memberOf]; split <;> simp_all

theorem in_label_iff_lookup (labels : List Nat) (l : Nat) :
    memberOf labels (.label l) = .yes ↔ ∃ p, getItem labels (.label l) = .item p := by
  rw [← contains_iff_lookup]; simp only [memberOf]; split <;> simp_all

theorem in_never_raises_for_labels_and_items (labels : List Nat) (k : Key) :
    memberOf labels k = .typeError ↔ (∃ i, k = .idx i) ∨ k = .other := by
  cases k <;> simp [memberOf] <;> split <;> simp

/-- the length is the number of items iteration yields; lookups are functions of the list and
    return no new state: they cannot change the block -/
theorem length_is_iteration (labels : List Nat) : labels.length = (labels.map id).length := by simp

example : getItem [7, 8, 7] (.label 7) = .item 0 := by decide
example : getItem [7, 8, 7] (.idx (-1)) = .item 2 := by decide
example : getItem [7, 8, 7] (.label 9) = .keyError := by decide
example : memberOf [7, 8, 7] (.item 2) = .yes ∧ memberOf [7, 8, 7] (.idx 0) = .typeError ∧ memberOf [7, 8] (.label 9) = .no := by decide

end Tdf.C18
