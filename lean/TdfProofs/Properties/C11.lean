/-
  C11 — At most one block per type; presence, count and lookup agree with content.
-/
import TdfProofs.Lemmas.Layout
import TdfProofs.Lemmas.Foreign
import TdfProofs.Properties.C07
namespace Tdf.C11

/-- after any history no two live entries share a type (executable form, run on real bytes too) -/
theorem types_nodup (l : Lay) (ok : l.Ok) (ops : List Op) (hops : OpsOk l ops) :
    typesNodupB (runOps l.state ops).disk = true ∧ ((l.specRun ops).bs.map (·.typ)).Nodup := by
  obtain ⟨h1, h2⟩ := run_sim l ok ops hops
  rw [h1]; exact ⟨typesNodupB_image _ h2, h2.nodup⟩

theorem nodupB_iff {α : Type} [DecidableEq α] (l : List α) : nodupB l = true ↔ l.Nodup := by
  induction l with
  | nil => simp [nodupB]
  | cons a as ih => simp [nodupB, ih]

/-- THE JUDGE IS EXACT: `typesNodupB`, run on the bytes the real code leaves on disk, accepts a file iff
    its table parses and no two live entries carry the same type -/
theorem judge_exact (file : Bytes) :
    typesNodupB file = true ↔
      ∃ h es rest, decTable.run file = some ((h, es), rest) ∧ ((liveOf es).map (·.typ)).Nodup := by
  unfold typesNodupB
  cases hd : decTable.run file with
  | none => simp
  | some r =>
    obtain ⟨⟨h, es⟩, rest⟩ := r
    simp only [nodupB_iff, Option.some.injEq, Prod.mk.injEq]
    constructor
    · intro hw; exact ⟨h, es, rest, ⟨⟨rfl, rfl⟩, rfl⟩, hw⟩
    · rintro ⟨h', es', rest', ⟨⟨rfl, rfl⟩, rfl⟩, hw⟩; exact hw

/-- adding a type that is already present is refused (ValueError) and changes nothing — on any state -/
theorem add_dup_refused (s : TdfSt) (b : BlkArg) (c : Str) (now : Int) (h : hasType b.typ s.entries = true) :
    addBlock s b c now = (s, .err .duplicate) := by simp [addBlock, h]

/-- assigning through a convenience property replaces when present and adds when absent -/
theorem setter_semantics (s : TdfSt) (b : BlkArg) (now : Int) :
    setBlock s b now = if hasType b.typ s.entries then replaceBlock s b none now
                       else addBlock s b defaultComment now := rfl

theorem setter_spec (l : Lay) (b : BlkArg) (now : Int) :
    l.specStep (.set b now) =
      if l.hasType b.typ then l.specStep (.replace b none now) else l.specStep (.add b defaultComment now) :=
  set_spec l b now

/-- a successful setter leaves exactly one block of that type, the one assigned -/
theorem setter_installs (l : Lay) (ok : l.Ok) (b : BlkArg) (now : Int) (hop : OpOk l (.set b now))
    (hok : (l.specStep (.set b now)).2 = .ok) :
    (l.specStep (.set b now)).1.hasType b.typ = true ∧ (((l.specStep (.set b now)).1.bs.map (·.typ)).Nodup) := by
  obtain ⟨_, h2⟩ := step_sim l ok _ hop
  refine ⟨?_, h2.nodup⟩
  simp only [Lay.specStep] at hok ⊢
  repeat' split at hok
  all_goals first | (cases hok; done) | skip
  all_goals simp_all [Lay.hasType, Lay.add, newBlock]

/-- accessors agree with content: presence predicate, live count and lookup by type are functions
    of the list of live blocks -/
theorem has_iff (l : Lay) (t : Nat) (ht : t ≠ 0) : hasType t l.state.entries = l.hasType t := hasType_table l t ht

theorem len_is_live_count (l : Lay) (ok : l.Ok) : lenLive l.state = l.bs.length := by
  simp only [lenLive, Lay.state]
  have := liveOf_table l ok
  simp only [liveOf] at this
  rw [this]; simp

theorem lookup_by_type (l : Lay) (t : Nat) (ht : t ≠ 0) :
    (entryByType l.state t).isSome = l.hasType t := by
  simp only [entryByType, Lay.state, Lay.table]
  rw [hasType_iff_find]
  cases hf : l.bs.find? (fun x => x.typ == t) with
  | none => simp [find_table_none _ _ _ _ t ht hf]
  | some x =>
    obtain ⟨o, ho⟩ := find_table_some (tableStart l.n) l.eod l.bs l.fs t x hf
    rw [ho]; rfl

/-- lookup by type returns the entry of that type (each getter returns the block of its own type) -/
theorem lookup_returns_own_type (s : TdfSt) (t : Nat) (e : Entry) (h : entryByType s t = some e) : e.typ = t := by
  simp only [entryByType] at h
  have := List.find?_some h
  simpa using this

/-- lookup by slot index: in range → that slot's entry; out of range → refused -/
theorem lookup_by_index (s : TdfSt) (i : Int) :
    (0 ≤ i ∧ i.toNat < s.entries.length → entryByIndex s i = s.entries[i.toNat]?) ∧
    (¬ (0 ≤ i ∧ i.toNat < s.entries.length) → entryByIndex s i = none) := by
  constructor <;> intro h <;> simp [entryByIndex, h]


/-- FOREIGN FILES, table level (`_partial`): on ANY table — any order of the entries, gaps, unused slots anywhere — "at most one block per
    type" is an invariant of every finite mix of accepted and refused add / remove / replace / setter calls: a table that starts with
    distinct live types never comes to hold two live entries of one type. (Table the object holds; that the table on disk is this one
    is the byte level, covered on foreign files by the correspondence and `typesNodupB` on the real bytes.) -/
theorem foreign_types_nodup_partial (s : TdfSt) (ops : List Op) (hops : ∀ op ∈ ops, TableOp op)
    (h : ((liveOf s.entries).map (·.typ)).Nodup) :
    ((liveOf (runOps s ops).entries).map (·.typ)).Nodup :=
  history_keeps_typesNodup s ops hops h

/-! ### every state (session 5): `has_x` after a removal, on ANY table with at most one block per type -/

theorem findIdxBy_of_mem (p : Entry → Bool) (es : List Entry) (e : Entry) (he : e ∈ es) (hp : p e = true) :
    ∃ i, findIdxBy p es = some i := by
  induction es with
  | nil => cases he
  | cons x xs ih =>
    unfold findIdxBy
    by_cases hx : p x = true
    · exact ⟨0, by simp [hx]⟩
    · have hx' : p x = false := by simpa using hx
      rcases List.mem_cons.mp he with rfl | hmem
      · rw [hp] at hx'; cases hx'
      · obtain ⟨i, hi⟩ := ih hmem
        exact ⟨i + 1, by simp [hx', hi]⟩

/-- ANY table — any order, gaps, unused slots anywhere — with at most one block per type: after `remove_block(t)` returned, no entry of
    type `t` is left (`has_x` is false, `get_block(t)` finds nothing), whether the call removed a block or refused -/
theorem removed_absent_any (s : TdfSt) (t : Nat) (now : Int) (ht : t ≠ 0) (hn : TypesNodup s.entries) :
    hasType t (removeBlock s t now).1.entries = false := by
  cases hfind : findType t s.entries with
  | none =>
    have : (removeBlock s t now).1 = s := by unfold removeBlock; simp [hfind]
    rw [this]
    unfold hasType
    rw [Bool.eq_false_iff]
    intro hany
    obtain ⟨e, he, het⟩ := List.any_eq_true.mp hany
    have hex := findIdxBy_of_mem (fun x => x.typ == t) s.entries e he het
    obtain ⟨i, hi⟩ := hex
    unfold findType at hfind
    rw [hfind] at hi; cases hi
  | some pos =>
    rw [removeBlock_entries s t now pos hfind]
    have h1 := C07.once_of_typesNodup s.entries t ht hn
    rw [eraseFirst_eq _ _ _ hfind] at h1
    unfold hasType at h1 ⊢
    simp only [List.any_append, List.any_map, List.any_cons, List.any_nil, Bool.or_false]
    have h0 : ((0 : Nat) == t) = false := by simpa using (Ne.symm ht)
    simp only [h0, Bool.or_false]
    simpa [Function.comp_def, List.any_append] using h1

/-- … and after an accepted `add_block` an entry of the block's type is there (`has_x` true), on ANY table -/
theorem added_present_any (s : TdfSt) (b : BlkArg) (c : Str) (now : Int) (pos : Nat) (pl : Bytes)
    (hd : hasType b.typ s.entries = false) (hf : firstUnused s.entries = some pos) (hchk : checkArg b c now = .ok pl)
    (hh : (s.entries.drop (pos + 1)).any (fun e => e.typ != 0) = false) :
    hasType b.typ (addBlock s b c now).1.entries = true := by
  rw [addBlock_entries s b c now pos pl hd hf hchk hh]
  unfold hasType
  simp

end Tdf.C11
