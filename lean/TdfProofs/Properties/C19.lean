/-
  C19 — Constructors refuse arguments whose shape would mis-size the encoding.
-/
import TdfModel.Shapes
namespace Tdf.C19

/-- fixed-shape geometry: accepted exactly when it is an array of exactly the required shape -/
theorem accept_iff_shape (req : List Nat) (a : Arg) : acceptsShape req a = true ↔ a = .ndarray req := by
  cases a <;> simp [acceptsShape]

/-- every other shape or kind of object is refused -/
theorem refuse_other_kinds (req : List Nat) :
    (∀ n, acceptsShape req (.list n) = false) ∧ (∀ n, acceptsShape req (.tuple n) = false) ∧
    acceptsShape req .viewport = false ∧ acceptsShape req .other = false := by simp [acceptsShape]

/-- … so an accepted argument encodes to exactly the field's width: no mis-sized block exists -/
theorem accepted_well_sized (w : Nat) (req : List Nat) (a : Arg) (h : acceptsShape req a = true) :
    encodedLen w a = w * req.foldl (· * ·) 1 := by
  rw [(accept_iff_shape req a).mp h]; rfl

theorem volume_width (a : Arg) (h : acceptsShape [3] a = true) : encodedLen 4 a = 12 := by
  rw [accepted_well_sized 4 [3] a h]; rfl
theorem rotation_width (a : Arg) (h : acceptsShape [3, 3] a = true) : encodedLen 4 a = 36 := by
  rw [accepted_well_sized 4 [3, 3] a h]; rfl
theorem seelab_rotation_width (a : Arg) (h : acceptsShape [3, 3] a = true) : encodedLen 8 a = 72 := by
  rw [accepted_well_sized 8 [3, 3] a h]; rfl
theorem seelab_vec2_width (a : Arg) (h : acceptsShape [2] a = true) : encodedLen 8 a = 16 := by
  rw [accepted_well_sized 8 [2] a h]; rfl

/-- constructors with several geometry arguments: accepted exactly when EVERY argument is an array of
    its own required shape — a wrong argument is never excused by another argument that is "wrong in
    the same way" -/
theorem all_iff_each (reqs : List (List Nat)) (args : List Arg) :
    acceptsAll reqs args = true ↔ args = reqs.map Arg.ndarray := by
  induction reqs generalizing args with
  | nil => cases args <;> simp [acceptsAll]
  | cons r rs ih =>
    cases args with
    | nil => simp [acceptsAll]
    | cons a as =>
      simp only [acceptsAll, Bool.and_eq_true, ih, accept_iff_shape, List.map_cons, List.cons.injEq]

theorem all_well_sized (w : Nat) (reqs : List (List Nat)) (args : List Arg) (h : acceptsAll reqs args = true) :
    (args.map (encodedLen w)).sum = (reqs.map (fun r => w * r.foldl (· * ·) 1)).sum := by
  rw [(all_iff_each reqs args).mp h, List.map_map]; rfl

/-- the geometry of a 3D / force-torque / calibration block always occupies 12 + 36 + 12 bytes -/
theorem geometry_width (v r t : Arg) (h : acceptsAll [[3], [3, 3], [3]] [v, r, t] = true) :
    encodedLen 4 v + encodedLen 4 r + encodedLen 4 t = 60 := by
  have := all_well_sized 4 _ _ h
  simpa [List.sum_cons, Nat.add_assoc] using this

example : acceptsAll [[3], [3, 3], [3]] [.ndarray [2], .ndarray [3, 2], .ndarray [3]] = false := by decide

/-- a viewport half given as a two-element list, tuple or array is accepted — and nothing else — and
    always encodes to 8 bytes -/
theorem viewport_half (a : Arg) :
    acceptsVec2 a = true ↔ (a = .ndarray [2] ∨ a = .list 2 ∨ a = .tuple 2) := by
  cases a <;> simp [acceptsVec2]
theorem viewport_half_width (a : Arg) (h : acceptsVec2 a = true) : encodedLen 4 a = 8 := by
  rcases (viewport_half a).mp h with rfl | rfl | rfl <;> rfl

theorem viewport_param (a : Arg) : acceptsViewport a = true ↔ (a = .viewport ∨ a = .ndarray [2, 2]) := by
  cases a <;> simp [acceptsViewport]

/-- coupled arrays: accepted exactly when all three are arrays of one shape (n, 3) -/
theorem coupled_iff (a b c : Arg) :
    acceptsCoupled a b c = true ↔ ∃ n, a = .ndarray [n, 3] ∧ b = .ndarray [n, 3] ∧ c = .ndarray [n, 3] := by
  constructor
  · intro h
    unfold acceptsCoupled at h
    split at h
    · rename_i n sb sc
      simp only [Bool.and_eq_true, beq_iff_eq] at h
      exact ⟨n, rfl, by rw [h.1], by rw [h.2]⟩
    · cases h
  · rintro ⟨n, rfl, rfl, rfl⟩
    simp [acceptsCoupled]

theorem coupled_well_sized (a b c : Arg) (h : acceptsCoupled a b c = true) :
    ∃ n, encodedLen 4 a + encodedLen 4 b + encodedLen 4 c = n * 36 := by
  obtain ⟨n, rfl, rfl, rfl⟩ := (coupled_iff a b c).mp h
  refine ⟨n, ?_⟩
  simp [encodedLen]; omega

/-- events: non-iterable values refused; more than one value refused for a single event only -/
theorem event_refusals :
    (∀ s, acceptsEvent s .notIterable = false) ∧ (∀ n, 1 < n → acceptsEvent true (.sized n) = false) ∧
    (∀ n, n ≤ 1 → acceptsEvent true (.sized n) = true) ∧ (∀ n, acceptsEvent false (.sized n) = true) := by
  refine ⟨fun s => rfl, ?_, ?_, ?_⟩
  · intro n h; simp [acceptsEvent, h]
  · intro n h; simp [acceptsEvent]; omega
  · intro n; simp [acceptsEvent]

example : acceptsShape [3, 3] (.ndarray [3, 3]) = true ∧ acceptsShape [3, 3] (.ndarray [9]) = false := by decide
example : acceptsCoupled (.ndarray [5, 3]) (.ndarray [5, 3]) (.ndarray [5, 2]) = false := by decide

end Tdf.C19
