/-
  C06 — Bytes on disk follow the fixed TDF layout.
  The Lean encoders ARE the independent layout-driven encoder: written from the format (field order,
  width, endianness, reserved words, padding), one `++` per field. The theorems below pin the layout
  down as statements about all values; the two-way inverse is C01 (dec ∘ enc = id) together with
  C12 (decoding only depends on the care positions) and C02 (every byte accounted for).
-/
import TdfProofs.Lemmas.Layout
import TdfProofs.Properties.C03
namespace Tdf.C06

/-- every integer field is little-endian: least significant byte first -/
theorem u32_little_endian (n : Nat) :
    u32le n = [UInt8.ofNat (n % 256), UInt8.ofNat (n / 256 % 256), UInt8.ofNat (n / 256 / 256 % 256),
               UInt8.ofNat (n / 256 / 256 / 256 % 256)] := rfl
theorem u16_little_endian (n : Nat) : u16le n = [UInt8.ofNat (n % 256), UInt8.ofNat (n / 256 % 256)] := rfl
/-- negative numbers are two's complement -/
theorem i32_twos_complement (z : Int) : i32le z = u32le ((z % 4294967296).toNat) := rfl
example : i32le (-2) = [0xFE, 0xFF, 0xFF, 0xFF] := by decide
example : u32le 0x01020304 = [4, 3, 2, 1] := by decide

/-- file header: 64 bytes = signature(16) version(4) nEntries(4) reserved(8) three dates(12) reserved(20) -/
theorem header_layout (h : Header) :
    h.enc = SIG ++ u32le h.version ++ i32le h.nEntries ++ zeros 8 ++ i32le h.cdate ++ i32le h.mdate ++ i32le h.adate ++ zeros 20
    ∧ h.enc.length = 64 := ⟨rfl, Header.enc_length h⟩

/-- table entry: 288 bytes = type(4) format(4) offset(4) size(4) three dates(12) reserved(4) comment(256) -/
theorem entry_layout (e : Entry) (hv : e.valid = true) :
    e.enc = u32le e.typ ++ u32le e.fmt ++ i32le e.off ++ i32le e.size ++ i32le e.cdate ++ i32le e.mdate
            ++ i32le e.adate ++ zeros 4 ++ strBytes 256 e.comment
    ∧ e.enc.length = 288 := ⟨rfl, Entry.enc_length e hv⟩

/-- field offsets inside an entry: offset at byte 8, size at byte 12, comment at byte 32 -/
theorem entry_field_offsets (e : Entry) :
    (e.enc.drop 8).take 4 = i32le e.off ∧ (e.enc.drop 12).take 4 = i32le e.size
    ∧ (e.enc.drop 28).take 4 = zeros 4 ∧ e.enc.drop 32 = strBytes 256 e.comment := by
  simp only [Entry.enc, List.append_assoc]
  have l4u (n : Nat) : (u32le n).length = 4 := by simp [u32le]
  have l4i (z : Int) : (i32le z).length = 4 := by simp [i32le]
  refine ⟨?_, ?_, ?_, ?_⟩
  · rw [← List.append_assoc (u32le e.typ), List.drop_left' (by simp [l4u]), List.take_left' (l4i _)]
  · rw [← List.append_assoc (u32le e.typ), ← List.append_assoc (u32le e.typ ++ u32le e.fmt),
      List.drop_left' (by simp [l4u, l4i]), List.take_left' (l4i _)]
  · have : (u32le e.typ ++ (u32le e.fmt ++ (i32le e.off ++ (i32le e.size ++ (i32le e.cdate ++ (i32le e.mdate ++ (i32le e.adate ++ (zeros 4 ++ strBytes 256 e.comment))))))))
        = (u32le e.typ ++ u32le e.fmt ++ i32le e.off ++ i32le e.size ++ i32le e.cdate ++ i32le e.mdate ++ i32le e.adate) ++ (zeros 4 ++ strBytes 256 e.comment) := by
      simp [List.append_assoc]
    rw [this, List.drop_left' (by simp [l4u, l4i]), List.take_left' (by simp)]
  · have : (u32le e.typ ++ (u32le e.fmt ++ (i32le e.off ++ (i32le e.size ++ (i32le e.cdate ++ (i32le e.mdate ++ (i32le e.adate ++ (zeros 4 ++ strBytes 256 e.comment))))))))
        = (u32le e.typ ++ u32le e.fmt ++ i32le e.off ++ i32le e.size ++ i32le e.cdate ++ i32le e.mdate ++ i32le e.adate ++ zeros 4) ++ strBytes 256 e.comment := by
      simp [List.append_assoc]
    rw [this, List.drop_left' (by simp [l4u, l4i])]

/-- fixed-width strings are text + NUL + zero padding (C13.layout) -/
theorem string_layout (w : Nat) (s : List Nat) (h : strOk w s = true) :
    ∃ e, encStr s = some e ∧ strBytes w s = e ++ 0 :: zeros (w - (e.length + 1)) ∧ (strBytes w s).length = w := by
  obtain ⟨hw, _⟩ := strBytes_ok w s h
  obtain ⟨e, he, _, hb⟩ := strWrite_ok w s _ hw
  exact ⟨e, he, hb, strBytes_length w s h⟩

/-- the undocumented pad of a platform record is what `BTSString.write(256, "")` produces: 256 zeros -/
theorem platform_pad : strBytes 256 [] = zeros 256 := by decide +kernel

/-- run-length-coded tracks: count, 4 reserved zero bytes, (start,count) pairs, then the samples -/
theorem track_layout (t : Track) :
    encTrack t = strBytes 256 t.label ++ (i32le (runs t.frames).length ++ zeros 4
      ++ (runs t.frames).flatMap (fun r => i32le r.1 ++ i32le r.2.length)
      ++ (runs t.frames).flatMap (fun r => encFrames r.2)) := rfl

/-- the EMG sample count is stored with the −49 bias and read back with +49 -/
theorem emg_bias (x : EMG) : (x.enc.drop 12).take 4 = i32le ((x.nSamples : Int) - 49) := by
  simp only [EMG.enc, List.append_assoc]
  have e : (i32le ↑x.tracks.length ++ (i32le x.freq ++ (f32le x.startTime ++ (i32le (↑x.nSamples - 49) ++ (encI16s x.chans ++ List.flatMap encTrack x.tracks)))))
      = (i32le ↑x.tracks.length ++ i32le x.freq ++ f32le x.startTime) ++ (i32le (↑x.nSamples - 49) ++ (encI16s x.chans ++ List.flatMap encTrack x.tracks)) := by
    simp [List.append_assoc]
  rw [e, List.drop_left' (by simp [i32le]), List.take_left' (by simp [i32le])]

/-- the file written by `Tdf.new`: signature, version 1, 14 unused slots all pointing at 4096, nothing after -/
theorem new_file (now : Int) (h : inI32 now = true) :
    (newFile now).length = 4096 ∧ (newFile now).take 16 = SIG ∧
    ∃ hd : Header, hd.version = 1 ∧ hd.nEntries = 14 ∧
      decTable.run (newFile now) = some ((hd, List.replicate 14 ⟨0, 0, 4096, 0, now, now, now, defaultComment⟩), []) := by
  have ok := C03.fresh_ok now h
  rw [← C03.fresh_is_newFile]
  refine ⟨?_, ?_, ?_⟩
  · rw [Lay.image_length _ ok]; rfl
  · simp [C03.freshLay, Lay.image, Header.enc, SIG]
  · refine ⟨⟨1, 14, now, now, now⟩, rfl, rfl, ?_⟩
    have hv : (⟨1, 14, now, now, now⟩ : Header).valid = true := by
      have := (inI32_iff now).mp h; simp [Header.valid, inI32]; omega
    have := decTable_image_of (C03.freshLay now) ok ⟨1, 14, now, now, now⟩ rfl (fun rest => Header.dec_enc _ hv rest)
    rw [this]
    simp [C03.freshLay, Lay.table, liveEntries, freeEntries, freeEntry, Lay.eod, tableStart, dataOf]

end Tdf.C06
