/-
  C01 — Encoding a block and decoding it gives back the same block; re-encoding reproduces the bytes.
  For each of the nine writable block types: for EVERY valid abstract value x (any number of
  items, any frame count, any pattern of wholly-missing frames, any valid label, any in-range
  integer, any float bit pattern, both 3D formats, both camera formats, both event kinds) and every
  byte string `rest` that follows the block in the stream:
        dec fmt (enc x ++ rest) = (x, rest)
  "every stored field equals the original" is equality of abstract values (labels, channels,
  links, samples as bit patterns, gaps as `none`).
-/
import TdfProofs.Lemmas.RoundTrip
import TdfProofs.Lemmas.Data2D
namespace Tdf.C01

theorem data3d (x : Data3D) (h : x.valid = true) (rest : Bytes) :
    (Data3D.dec x.fmt).run (x.enc ++ rest) = some (x, rest) := Data3D.dec_enc x h rest
theorem emg (x : EMG) (h : x.valid = true) (rest : Bytes) :
    (EMG.dec 1).run (x.enc ++ rest) = some (x, rest) := EMG.dec_enc x h rest
theorem force3d (x : Force3D) (h : x.valid = true) (rest : Bytes) :
    (Force3D.dec 1).run (x.enc ++ rest) = some (x, rest) := Force3D.dec_enc x h rest
theorem platdata (x : PlatData) (h : x.valid = true) (rest : Bytes) :
    (PlatData.dec 1).run (x.enc ++ rest) = some (x, rest) := PlatData.dec_enc x h rest
theorem platcalib (x : PlatCalib) (h : x.valid = true) (rest : Bytes) :
    (PlatCalib.dec 2).run (x.enc ++ rest) = some (x, rest) := PlatCalib.dec_enc x h rest
theorem data2d (x : Data2D) (h : x.valid = true) (rest : Bytes) :
    (Data2D.dec 2).run (x.enc ++ rest) = some (x, rest) := Data2D.dec_enc x h rest
theorem calib (x : Calib) (h : x.valid = true) (rest : Bytes) :
    (Calib.dec x.fmt).run (x.enc ++ rest) = some (x, rest) := Calib.dec_enc x h rest
theorem optical (x : Optical) (h : x.valid = true) (rest : Bytes) :
    (Optical.dec x.fmt).run (x.enc ++ rest) = some (x, rest) := Optical.dec_enc x h rest
theorem events (x : Events) (h : x.valid = true) (rest : Bytes) :
    (Events.dec x.fmt).run (x.enc ++ rest) = some (x, rest) := Events.dec_enc x h rest

/-- second sentence of the property, for any codec with the round-trip law: whatever the decoder
    returns for the encoding of `x` re-encodes to exactly the same bytes -/
theorem reencode {β : Type} (dec : D β) (enc : β → Bytes) (x y : β) (r : Bytes)
    (rt : dec.run (enc x ++ []) = some (x, [])) (h : dec.run (enc x) = some (y, r)) :
    enc y = enc x := by
  simp only [List.append_nil] at rt
  rw [rt] at h; injection h with h; injection h with h1 _; rw [← h1]

/-- the track codec on its own (markers k=3, EMG k=1, force/torque k=9), every gap pattern -/
theorem track (k n : Nat) (t : Track) (rest : Bytes) (h : validTrack k n t = true)
    (hn : n < 2147483648) : (decTrack k n).run (encTrack t ++ rest) = some (t, rest) :=
  track_run k n t rest h hn

/-! non-vacuity: valid blocks with gaps / links / several items exist -/
example : (⟨1000, 0, 3, [5, -2], [⟨[97], [some [1], none, some [2]]⟩, ⟨[], [none, none, none]⟩]⟩ : EMG).valid = true := by decide
example : (⟨1, 2, 100, 0, [1,2,3], [1,2,3,4,5,6,7,8,9], [0,0,0], 1, [(0, 1)],
            [⟨[99, 55], [none, some [1, 2, 3]]⟩]⟩ : Data3D).valid = true := by decide
example : (⟨1, 0, [⟨[0x20AC], 0, [7]⟩, ⟨[], 1, [1, 2, 3]⟩]⟩ : Events).valid = true := by decide

end Tdf.C01
