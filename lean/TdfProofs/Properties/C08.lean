/-
  C08 — Files are only modified inside an explicitly write-enabled context.
  Model: TdfModel/Mode.lean. All statements are about every state / every trace of the machine.
-/
import TdfModel.Mode
namespace Tdf.C08

/-- the bytes of the file can change only through a mutator issued while the object is inside a
    context whose handle was opened for writing -/
theorem disk_changes_only_in_write_ctx (s : MSt) (op : MOp) (h : (mstep s op).1.disk ≠ s.disk) :
    (∃ o i, op = .mutate o i) ∧ s.inCtx = true ∧ s.handle = some true ∧ s.mode = true := by
  cases op with
  | allowWrite => simp [mstep] at h
  | enter => simp only [mstep] at h; split at h <;> simp at h
  | enterInterrupted => simp [mstep] at h
  | exit => simp [mstep] at h
  | read impl nobj => simp only [mstep] at h; repeat' split at h
                      all_goals simp at h
  | mutate o i =>
    simp only [mstep] at h
    by_cases hw : s.writable = true
    · simp only [MSt.writable, Bool.and_eq_true, beq_iff_eq] at hw
      exact ⟨⟨o, i, rfl⟩, hw.1.1, hw.1.2, hw.2⟩
    · have hw' : s.writable = false := by simpa using hw
      simp only [hw', Bool.false_eq_true, if_false] at h
      split at h <;> simp at h

/-- a handle opened for writing exists only inside a context, and was created by an `enter`
    executed while the mode flag was set -/
def Inv (s : MSt) : Prop := (s.inCtx = false → s.handle = none)

theorem inv_init (d : Bytes) : Inv (MSt.init d) := by simp [Inv, MSt.init]

theorem inv_step (s : MSt) (op : MOp) (h : Inv s) : Inv (mstep s op).1 := by
  cases op with
  | allowWrite => simpa [mstep, Inv] using h
  | enter => simp only [mstep]; split <;> simp [Inv]
  | enterInterrupted => simp [mstep, Inv]
  | exit => simp [mstep, Inv]
  | read impl nobj => simp only [mstep]; repeat' split
                      all_goals simp_all [Inv]
  | mutate o i =>
    simp only [mstep]
    repeat' split
    all_goals simp_all [Inv]

theorem inv_run (s : MSt) (ops : List MOp) (h : Inv s) : Inv (mrun s ops) := by
  induction ops generalizing s with
  | nil => exact h
  | cons op ops ih => exact ih _ (inv_step s op h)

/-- the only step that creates a writable handle is `enter` with the mode flag set … -/
theorem writable_handle_from_enter (s : MSt) (op : MOp)
    (h0 : s.handle ≠ some true) (h1 : (mstep s op).1.handle = some true) :
    op = .enter ∧ s.mode = true := by
  cases op with
  | allowWrite => simp [mstep] at h1; exact absurd h1 h0
  | enter => simp only [mstep] at h1; split at h1 <;> simp at h1 <;> exact ⟨rfl, h1⟩
  | enterInterrupted => simp [mstep] at h1
  | exit => simp [mstep] at h1
  | read impl nobj => simp only [mstep] at h1; repeat' split at h1
                      all_goals first | exact absurd h1 h0 | simp at h1
  | mutate o i =>
    simp only [mstep] at h1
    repeat' split at h1
    all_goals first | exact absurd h1 h0 | simp at h1

/-- … and the only step that sets the mode flag is allow_write; every exit and every implicit
    context resets it (so a later plain `with` is read-only again) -/
theorem mode_set_only_by_allow_write (s : MSt) (op : MOp) (h0 : s.mode = false) (h1 : (mstep s op).1.mode = true) :
    op = .allowWrite := by
  cases op with
  | allowWrite => rfl
  | enter => simp only [mstep] at h1; split at h1 <;> simp [h0] at h1
  | enterInterrupted => simp [mstep] at h1
  | exit => simp [mstep] at h1
  | read impl nobj => simp only [mstep] at h1; repeat' split at h1
                      all_goals simp [h0] at h1
  | mutate o i =>
    simp only [mstep] at h1
    repeat' split at h1
    all_goals simp [h0] at h1

theorem exit_resets (s : MSt) : (mstep s .exit).1.mode = false ∧ (mstep s .exit).1.handle = none ∧ (mstep s .exit).1.inCtx = false := by
  simp [mstep]

/-- the same mutation issued anywhere else raises and leaves the file untouched -/
theorem mutator_refused_elsewhere (s : MSt) (o : Op) (i : Bool) (h : s.writable = false) :
    (mstep s (.mutate o i)).2 = true ∧ (mstep s (.mutate o i)).1.disk = s.disk := by
  simp only [mstep, h, Bool.false_eq_true, if_false]; split <;> simp

/-- the six access modes of the property, as traces from a freshly constructed object -/
theorem mode_no_context (d : Bytes) (o : Op) (i : Bool) : mstep (MSt.init d) (.mutate o i) = (MSt.init d, true) := by
  simp [mstep, MSt.init, MSt.writable]
theorem mode_allow_write_without_context (d : Bytes) (o : Op) (i : Bool) :
    (mstep (mrun (MSt.init d) [.allowWrite]) (.mutate o i)).2 = true ∧
    (mstep (mrun (MSt.init d) [.allowWrite]) (.mutate o i)).1.disk = d :=
  mutator_refused_elsewhere _ o i (by simp [mstep, mrun, MSt.init, MSt.writable])
/-- what `__enter__` does: it never touches the bytes; when the file parses the handle is opened in the
    pending mode and the object is inside a context; when it does not (or the entry is cut short) no
    handle, no context and no pending permission are left -/
theorem enter_effect (s : MSt) :
    (mstep s .enter).1.disk = s.disk ∧
    (((mstep s .enter).1.handle = some s.mode ∧ (mstep s .enter).1.inCtx = true ∧ (mstep s .enter).1.mode = s.mode) ∨
     ((mstep s .enter).1.handle = none ∧ (mstep s .enter).1.inCtx = false ∧ (mstep s .enter).1.mode = false)) := by
  simp only [mstep]; cases openFile s.disk <;> simp

/-- a context entered without a pending allow_write is not writable -/
theorem enter_plain_not_writable (s : MSt) (hm : s.mode = false) : (mstep s .enter).1.writable = false := by
  rcases (enter_effect s).2 with ⟨h, _, _⟩ | ⟨h, _, _⟩ <;> simp [MSt.writable, h, hm]

theorem mode_read_only_context (d : Bytes) (o : Op) (i : Bool) :
    (mstep (mrun (MSt.init d) [.enter]) (.mutate o i)).2 = true ∧
    (mstep (mrun (MSt.init d) [.enter]) (.mutate o i)).1.disk = d := by
  have hw : (mrun (MSt.init d) [.enter]).writable = false := enter_plain_not_writable _ rfl
  have := mutator_refused_elsewhere _ o i hw
  exact ⟨this.1, this.2.trans (enter_effect (MSt.init d)).1⟩
theorem mode_reentered_after_write_context (d : Bytes) (ops : List MOp) (o : Op) (i : Bool) :
    let s := mrun (mstep (mrun (MSt.init d) ([.allowWrite, .enter] ++ ops)) .exit).1 [.enter]
    (mstep s (.mutate o i)).2 = true ∧ (mstep s (.mutate o i)).1.disk = s.disk := by
  intro s
  have hw : s.writable = false := enter_plain_not_writable _ (by simp [mstep])
  exact mutator_refused_elsewhere s o i hw
theorem mode_after_context_left_by_exception (s : MSt) (o : Op) (i : Bool) :
    (mstep (mstep s .exit).1 (.mutate o i)).2 = true ∧ (mstep (mstep s .exit).1 (.mutate o i)).1.disk = s.disk :=
  mutator_refused_elsewhere _ o i (by simp [mstep, MSt.writable])

theorem mrun_append (s : MSt) (a b : List MOp) : mrun s (a ++ b) = mrun (mrun s a) b := by
  induction a generalizing s with
  | nil => rfl
  | cons x xs ih => simp only [List.cons_append, mrun]; exact ih _

/-- nesting does not help: however contexts were entered, re-entered and nested on the object before
    (`pre` is ANY trace), once an `__exit__` has run the next mutation raises and leaves the file alone —
    in particular in the outer plain `with` after a nested write-enabled `with` has ended -/
theorem any_exit_ends_write_access (d : Bytes) (pre : List MOp) (o : Op) (i : Bool) :
    let s := mrun (MSt.init d) (pre ++ [.exit])
    (mstep s (.mutate o i)).2 = true ∧ (mstep s (.mutate o i)).1.disk = s.disk := by
  intro s
  have hs : s = (mstep (mrun (MSt.init d) pre) .exit).1 := by simp only [s, mrun_append, mrun]
  rw [hs]
  exact mutator_refused_elsewhere _ o i (by simp [mstep, MSt.writable])

/-- a nested `__enter__` re-opens the file in the mode pending at that moment: entered plainly inside a
    plain context it is read-only, whatever was open before -/
theorem nested_plain_enter_is_read_only (s : MSt) (hm : s.mode = false) (o : Op) (i : Bool) :
    (mstep (mstep s .enter).1 (.mutate o i)).2 = true ∧ (mstep (mstep s .enter).1 (.mutate o i)).1.disk = s.disk := by
  have := mutator_refused_elsewhere _ o i (enter_plain_not_writable s hm)
  exact ⟨this.1, this.2.trans (enter_effect s).1⟩

/-- an `__enter__` that is cut short — by a refused file or by ANY exception raised inside it, a
    KeyboardInterrupt included — leaves nothing behind: whatever permission was pending is gone, so the
    next mutation raises and leaves the file alone, in any later plain context as well -/
theorem interrupted_enter_leaves_nothing (s : MSt) (o : Op) (i : Bool) :
    let s' := (mstep s .enterInterrupted).1
    s'.inCtx = false ∧ s'.handle = none ∧ s'.mode = false ∧ s'.disk = s.disk ∧
    (mstep s' (.mutate o i)).2 = true ∧ (mstep s' (.mutate o i)).1.disk = s.disk ∧
    (mstep (mstep s' .enter).1 (.mutate o i)).2 = true ∧ (mstep (mstep s' .enter).1 (.mutate o i)).1.disk = s.disk := by
  intro s'
  have h0 : s'.mode = false := by simp [s', mstep]
  have hd : s'.disk = s.disk := by simp [s', mstep]
  have hw : s'.writable = false := by simp [s', mstep, MSt.writable]
  have a := mutator_refused_elsewhere s' o i hw
  have b := nested_plain_enter_is_read_only s' h0 o i
  exact ⟨by simp [s', mstep], by simp [s', mstep], h0, hd, a.1, a.2.trans hd, b.1, b.2.trans hd⟩

example (d : Bytes) (o : Op) : (mstep (mrun (MSt.init d) [.enter, .allowWrite, .enter, .exit]) (.mutate o false)).2 = true :=
  (any_exit_ends_write_access d [.enter, .allowWrite, .enter] o false).1

/-- the object `copy()` returns is not write-enabled, whatever the original was doing when the copy was
    made (also in the middle of a write context): a mutation in a plain context of the copy, or outside
    any context, raises and leaves the copy's bytes alone -/
theorem copy_not_write_enabled (s : MSt) (o : Op) (i : Bool) :
    (mstep (mrun (copyObj s) [.enter]) (.mutate o i)).2 = true ∧
    (mstep (mrun (copyObj s) [.enter]) (.mutate o i)).1.disk = s.disk ∧
    (mstep (copyObj s) (.mutate o i)).2 = true ∧ (mstep (copyObj s) (.mutate o i)).1.disk = s.disk := by
  have h := mode_read_only_context s.disk o i
  have h0 := mode_no_context s.disk o i
  refine ⟨h.1, h.2, ?_, ?_⟩
  · simp [copyObj, h0]
  · show (mstep (MSt.init s.disk) (.mutate o i)).1.disk = s.disk
    rw [h0]; rfl

/-- no read operation ever changes the bytes, in any mode -/
theorem readers_pure (s : MSt) (impl nobj : Bool) : (mstep s (.read impl nobj)).1.disk = s.disk := by
  simp only [mstep]; repeat' split
  all_goals rfl

/-- every handle opened implicitly is closed again -/
theorem implicit_handles_closed (s : MSt) (h : s.inCtx = false) (hi : Inv s) (nobj : Bool) :
    (mstep s (.read true nobj)).1.handle = none ∧ (mstep s (.read true nobj)).1.inCtx = false := by
  have := hi h
  simp only [mstep, h]; repeat' split
  all_goals simp_all

/-- an implicit context consumes a pending allow_write: the next plain `with` is read-only -/
theorem implicit_context_consumes_allow_write (d : Bytes) (o : Op) :
    let s := mrun (MSt.init d) [.allowWrite, .read true false, .enter]
    (mstep s (.mutate o false)).2 = true := by
  intro s
  have hw : s.writable = false := by
    have hm : (mrun (MSt.init d) [.allowWrite, .read true false]).mode = false := by
      simp [mrun, mstep, MSt.init]
    exact enter_plain_not_writable _ hm
  exact (mutator_refused_elsewhere s o false hw).1

/-- a whole trace without mutators never changes the file -/
theorem trace_disk (s : MSt) (ops : List MOp) (hnw : ∀ o i, MOp.mutate o i ∉ ops) : (mrun s ops).disk = s.disk := by
  induction ops generalizing s with
  | nil => rfl
  | cons op ops ih =>
    simp only [mrun]
    rw [ih _ (fun o i ho => hnw o i (by simp [ho]))]
    by_cases hd : (mstep s op).1.disk = s.disk
    · exact hd
    · obtain ⟨⟨o, i, rfl⟩, _⟩ := disk_changes_only_in_write_ctx s op hd
      exact absurd (by simp) (hnw o i)

end Tdf.C08
