/-
  C04 — Mutating one block never alters any other block or its metadata.
  By the refinement (C03.history_refines) the file after any history is the image of the layout
  obtained by running the LIST operations of the spec. Frame conditions are therefore statements
  about `List`: appending / erasing one element leaves every other element (payload bytes, format
  code, comment, creation and modification date — the whole `LBlock`) unchanged, whatever its type
  code (decodable or not). `payload_read` ties the list back to the bytes on disk.
-/
import TdfProofs.Lemmas.Layout
import TdfProofs.Lemmas.Foreign
import TdfProofs.Lemmas.ReadBack
import TdfProofs.Properties.C02
namespace Tdf.C04

def lookup (l : Lay) (t : Nat) : Option LBlock := l.bs.find? (fun x => x.typ == t)

theorem removeType_find_other (t t' : Nat) (bs : List LBlock) (h : t' ≠ t) :
    (removeType t bs).find? (fun x => x.typ == t') = bs.find? (fun x => x.typ == t') := by
  induction bs with
  | nil => rfl
  | cons b bs ih =>
    simp only [removeType]
    split
    · rename_i hb
      have : (b.typ == t') = false := by simp [hb]; exact fun h' => h h'.symm
      simp [List.find?_cons, this]
    · simp [List.find?_cons, ih]

theorem append_find_other (bs : List LBlock) (nb : LBlock) (t' : Nat) (h : nb.typ ≠ t') :
    (bs ++ [nb]).find? (fun x => x.typ == t') = bs.find? (fun x => x.typ == t') := by
  have : (nb.typ == t') = false := by simp [h]
  rw [List.find?_append]
  cases bs.find? (fun x => x.typ == t') <;> simp [List.find?_cons, this]

/-- the type an operation touches -/
def touched : Op → Option Nat
  | .add b _ _ => some b.typ
  | .remove t _ => some t
  | .replace b _ _ => some b.typ
  | .set b _ => some b.typ
  | .reopen => none

/-- FRAME: one step leaves every block of another type exactly as it was — bytes, format,
    comment, dates — successful or not -/
theorem frame_step (l : Lay) (op : Op) (t' : Nat) (h : touched op ≠ some t') :
    lookup (l.specStep op).1 t' = lookup l t' := by
  cases op with
  | add b c now =>
    have hb : b.typ ≠ t' := fun e => h (by simp [touched, e])
    simp only [Lay.specStep, lookup]
    repeat' split
    all_goals first | rfl | (simp only [Lay.add, newBlock]; exact append_find_other _ _ _ hb)
  | remove t now =>
    have hb : t' ≠ t := fun e => h (by simp [touched, e])
    simp only [Lay.specStep, lookup]
    split
    · simp only [Lay.remove]; exact removeType_find_other t t' _ hb
    · rfl
  | replace b c now =>
    have hb : b.typ ≠ t' := fun e => h (by simp [touched, e])
    simp only [Lay.specStep, lookup]
    repeat' split
    all_goals first | rfl | (simp only [Lay.add, Lay.remove, newBlock]; rw [append_find_other _ _ _ hb]; exact removeType_find_other _ _ _ (Ne.symm hb))
  | set b now =>
    have hb : b.typ ≠ t' := fun e => h (by simp [touched, e])
    simp only [Lay.specStep, lookup]
    repeat' split
    all_goals first | rfl | (simp only [Lay.add, newBlock]; exact append_find_other _ _ _ hb) | (simp only [Lay.add, Lay.remove, newBlock]; rw [append_find_other _ _ _ hb]; exact removeType_find_other _ _ _ (Ne.symm hb))
  | reopen => rfl

/-- a history that never touches type t' leaves the block of type t' untouched -/
theorem frame_history (l : Lay) (ops : List Op) (t' : Nat) (h : ∀ op ∈ ops, touched op ≠ some t') :
    lookup (l.specRun ops) t' = lookup l t' := by
  induction ops generalizing l with
  | nil => rfl
  | cons op ops ih =>
    simp only [Lay.specRun]
    rw [ih _ (fun o ho => h o (by simp [ho])), frame_step l op t' (h op (by simp))]

/-- a removed type is absent -/
theorem removed_absent (l : Lay) (ok : l.Ok) (t : Nat) (now : Int) :
    lookup (l.specStep (.remove t now)).1 t = none := by
  simp only [Lay.specStep, lookup]
  split
  · simp only [Lay.remove]
    have := removeType_no_type t l.bs ok.nodup
    rw [List.find?_eq_none]; intro x hx
    simp only [List.any_eq_false] at this
    exact this x hx
  · rename_i hh
    have : l.hasType t = false := by simpa using hh
    rw [hasType_iff_find] at this
    simpa using this

/-- a successful add stores exactly what was given -/
theorem add_stores (l : Lay) (ok : l.Ok) (b : BlkArg) (c : Str) (now : Int) (pl : Bytes)
    (hd : l.hasType b.typ = false) :
    lookup (l.add b pl c now) b.typ = some ⟨b.typ, b.fmt, pl, b.cdate, b.mdate, now, c⟩ := by
  rw [hasType_iff_find] at hd
  simp only [lookup, Lay.add, newBlock, List.find?_append]
  have : l.bs.find? (fun x => x.typ == b.typ) = none := by simpa using hd
  rw [this]; simp

/-- replacing without a comment keeps the previous comment; with one, installs it -/
theorem replace_comment (l : Lay) (ok : l.Ok) (b : BlkArg) (c : Option Str) (now : Int) (old : LBlock)
    (hold : lookup l b.typ = some old) (hok : (l.specStep (.replace b c now)).2 = .ok) :
    ∃ nb, lookup (l.specStep (.replace b c now)).1 b.typ = some nb ∧ nb.comment = c.getD old.comment
      ∧ nb.fmt = b.fmt ∧ nb.cdate = b.cdate ∧ nb.mdate = b.mdate ∧ b.payload = some nb.payload := by
  simp only [lookup] at hold
  simp only [Lay.specStep, hold] at hok ⊢
  cases hc : checkArg b (c.getD old.comment) now with
  | error e => simp [hc] at hok
  | ok pl =>
    simp only [lookup, Lay.add, Lay.remove, newBlock, List.find?_append]
    have := removeType_no_type b.typ l.bs ok.nodup
    have hnone : (removeType b.typ l.bs).find? (fun x => x.typ == b.typ) = none := by
      rw [List.find?_eq_none]; intro x hx
      simp only [List.any_eq_false] at this; exact this x hx
    rw [hnone]
    exact ⟨⟨b.typ, b.fmt, pl, b.cdate, b.mdate, now, c.getD old.comment⟩, by simp, rfl, rfl, rfl, rfl, (checkArg_payload b _ now pl hc)⟩

/-- reading a live entry's byte range from the file returns exactly the stored bytes (also for
    blocks of types the library cannot decode: nothing here looks inside the payload) -/
theorem stored_bytes (l : Lay) (ok : l.Ok) (pre post : List LBlock) (x : LBlock) (hbs : l.bs = pre ++ x :: post) :
    payloadOf l.state (liveEntry (tableStart l.n + (dataOf pre).length) x) = x.payload :=
  payload_read l ok pre post x hbs

/-- "reading it returns content equal to what was stored": any valid block found in a well-formed
    file (whoever wrote it) is returned by lookup-by-type + decode exactly as stored -/
theorem read_returns_stored (l : Lay) (ok : l.Ok) (pre post : List LBlock) (x : LBlock) (b : Wire.AnyBlock)
    (hbs : l.bs = pre ++ x :: post) (hpre : ∀ y ∈ pre, y.typ ≠ x.typ)
    (hv : b.valid = true) (htyp : x.typ = b.typ) (hfmt : x.fmt = b.fmt) (hpl : x.payload = b.enc) :
    getBlock l.state x.typ = some b := read_back l ok pre post x b hbs hpre hv htyp hfmt hpl

/-- … in particular right after it was added through the container (the object and the file are the
    L0 state produced by `add_block`) -/
theorem read_after_add (l : Lay) (ok : l.Ok) (b : Wire.AnyBlock) (c : Str) (now cd md : Int)
    (hv : b.valid = true) (hne : l.fs ≠ []) (hdup : l.hasType b.typ = false)
    (hfit : l.eod + b.size < 2147483648)
    (hchk : checkArg (C02.argOf b.typ b cd md) c now = .ok b.enc) :
    getBlock (addBlock l.state (C02.argOf b.typ b cd md) c now).1 b.typ = some b := by
  have ht : b.typ ≠ 0 := by cases b <;> simp [Wire.AnyBlock.typ]
  have hsim := add_sim l ok (C02.argOf b.typ b cd md) c now b.enc hne hdup ht hchk (C02.written_any b hv) hfit
  rw [hsim.1]
  simp only
  have hpre : ∀ y ∈ l.bs, y.typ ≠ b.typ := by
    intro y hy heq
    simp only [Lay.hasType, List.any_eq_false, beq_iff_eq] at hdup
    exact hdup y hy heq
  exact read_back _ hsim.2 l.bs [] (newBlock (C02.argOf b.typ b cd md) b.enc c now) b
    (by simp [Lay.add]) hpre hv rfl rfl rfl


/-- FOREIGN FILES, table level (`_partial`): on ANY table — entries in any order, gaps between the blocks — `remove_block` leaves
    the other entries in their table order with their type, format code, size, three dates and comment as they were; an offset
    changes only by the removed block's size and only for an entry whose data lay after the removed block. (The byte level — that
    the payload bytes move with the offsets — is what `frame_step` proves for compact layouts and what the frame-condition oracle
    checks on permuted and gappy files.) -/
theorem remove_any_table_frame_partial (s : TdfSt) (t : Nat) (now : Int) (pos : Nat) (hfind : findType t s.entries = some pos) :
    let old := s.entries.getD pos unusedEntry
    ∃ fresh : Entry, fresh.typ = 0 ∧ fresh.size = 0 ∧
      (removeBlock s t now).1.entries = (s.entries.take pos ++ s.entries.drop (pos + 1)).map (shiftAfter old) ++ [fresh]
      ∧ ∀ x : Entry, (shiftAfter old x).typ = x.typ ∧ (shiftAfter old x).fmt = x.fmt ∧ (shiftAfter old x).size = x.size
          ∧ (shiftAfter old x).cdate = x.cdate ∧ (shiftAfter old x).mdate = x.mdate ∧ (shiftAfter old x).adate = x.adate
          ∧ (shiftAfter old x).comment = x.comment
          ∧ ((shiftAfter old x).off = if x.off > old.off then x.off - old.size else x.off) := by
  intro old
  refine ⟨_, rfl, rfl, removeBlock_entries s t now pos hfind, ?_⟩
  intro x
  unfold shiftAfter
  split <;> simp [*]


/-- FOREIGN FILES, table level (`_partial`), the ADD half: an accepted `add_block` on ANY table leaves every entry before the slot it takes
    exactly as it was, writes the new entry (type, format, size, dates of the block; the offset the slot carried; the comment given)
    into that slot, and changes nothing but the offset of the unused slots behind it. -/
theorem add_any_table_frame_partial (s : TdfSt) (b : BlkArg) (c : Str) (now : Int) (pos : Nat) (pl : Bytes)
    (hd : hasType b.typ s.entries = false) (hf : firstUnused s.entries = some pos) (hchk : checkArg b c now = .ok pl)
    (hh : (s.entries.drop (pos + 1)).any (fun e => e.typ != 0) = false) :
    (addBlock s b c now).1.entries.take pos = s.entries.take pos
    ∧ (addBlock s b c now).1.entries[pos]? = some ⟨b.typ, b.fmt, (s.entries.getD pos unusedEntry).off, b.size, b.cdate, b.mdate, now, c⟩
    ∧ ∀ x ∈ (addBlock s b c now).1.entries.drop (pos + 1), x.typ = 0 := by
  rw [addBlock_entries s b c now pos pl hd hf hchk hh]
  obtain ⟨slot, h1, _, _⟩ := findIdxBy_some _ _ _ hf
  have hlt : pos < s.entries.length := (List.getElem?_eq_some_iff.mp h1).1
  have hlen : (s.entries.take pos).length = pos := by simp; omega
  refine ⟨?_, ?_, ?_⟩
  · rw [List.take_append_of_le_length (by omega)]
    simp [List.take_take]
  · rw [List.getElem?_append_right (by omega), hlen]; simp
  · intro x hx
    have hd2 : (s.entries.take pos ++ (⟨b.typ, b.fmt, (s.entries.getD pos unusedEntry).off, b.size, b.cdate, b.mdate, now, c⟩ : Entry)
          :: (s.entries.drop (pos + 1)).map (fun x => { x with off := (s.entries.getD pos unusedEntry).off + b.size })).drop (pos + 1)
        = (s.entries.drop (pos + 1)).map (fun x => { x with off := (s.entries.getD pos unusedEntry).off + b.size }) := by
      have e1 : s.entries.take pos ++ (⟨b.typ, b.fmt, (s.entries.getD pos unusedEntry).off, b.size, b.cdate, b.mdate, now, c⟩ : Entry)
            :: (s.entries.drop (pos + 1)).map (fun x => { x with off := (s.entries.getD pos unusedEntry).off + b.size })
          = (s.entries.take pos ++ [(⟨b.typ, b.fmt, (s.entries.getD pos unusedEntry).off, b.size, b.cdate, b.mdate, now, c⟩ : Entry)])
            ++ (s.entries.drop (pos + 1)).map (fun x => { x with off := (s.entries.getD pos unusedEntry).off + b.size }) := by simp
      have e2 : (s.entries.take pos ++ [(⟨b.typ, b.fmt, (s.entries.getD pos unusedEntry).off, b.size, b.cdate, b.mdate, now, c⟩ : Entry)]).length = pos + 1 := by
        simp; omega
      rw [e1, ← e2, List.drop_left]
    rw [hd2] at hx
    obtain ⟨y, hy, rfl⟩ := List.mem_map.mp hx
    have := List.any_eq_false.mp hh y hy
    simpa using this


/-- FOREIGN FILES, table level (`_partial`), HISTORIES: on ANY table — any order of the entries, gaps, unused slots anywhere — a block
    whose type no call of the history is about keeps its format code, size, creation and modification date and comment through every
    finite mix of accepted and refused add / remove / replace / setter calls ("blocks never touched, including blocks of types the
    library cannot decode"). Offsets may change (`remove_any_table_frame_partial` says how); that the payload bytes move with them is
    what `frame_history` proves for compact layouts and the frame-condition oracle checks on foreign files. -/
theorem foreign_frame_history_partial (s : TdfSt) (ops : List Op) (hops : ∀ op ∈ ops, TableOp op) (x : Entry) (hx : x ∈ s.entries)
    (hx0 : x.typ ≠ 0) (hxt : ∀ op ∈ ops, x.typ ≠ op.typ) :
    ∃ x' ∈ (runOps s ops).entries, x'.typ = x.typ ∧ x'.fmt = x.fmt ∧ x'.size = x.size ∧ x'.cdate = x.cdate ∧ x'.mdate = x.mdate
      ∧ x'.comment = x.comment := by
  obtain ⟨x', h1, h2⟩ := frame_history_any s ops hops x hx hx0 hxt
  refine ⟨x', h1, ?_⟩
  simp only [Entry.meta, Prod.mk.injEq] at h2
  exact h2

/-! ### every state (session 5): what an accepted add stores, on ANY table — any order, gaps, ill-formed or not -/

theorem readAt_writeAt_same (v new : Bytes) (off : Nat) : readAt (writeAt v off new) off new.length = new := by
  unfold readAt writeAt
  split
  · rename_i h
    have : (List.take off v).length = off := by simp [List.length_take]; omega
    rw [List.append_assoc, List.drop_append, this]
    simp [List.drop_eq_nil_of_le, this]
  · rename_i h
    have hl : (v ++ zeros (off - v.length)).length = off := by simp; omega
    rw [List.drop_append, hl]
    simp [List.drop_eq_nil_of_le, hl]

/-- ANY state: after an accepted `add_block` the slot that was the first unused one holds the entry of the new block, and reading that
    entry's byte range through the open object returns exactly the bytes the block wrote — wherever the slot pointed (inside the file,
    at its end, behind it) -/
theorem add_stores_any (s : TdfSt) (b : BlkArg) (c : Str) (now : Int) (pos : Nat) (pl : Bytes)
    (hd : hasType b.typ s.entries = false) (hf : firstUnused s.entries = some pos) (hchk : checkArg b c now = .ok pl)
    (hh : (s.entries.drop (pos + 1)).any (fun e => e.typ != 0) = false) (hsz : pl.length = b.size) :
    (addBlock s b c now).1.entries[pos]? =
        some ⟨b.typ, b.fmt, (s.entries.getD pos unusedEntry).off, b.size, b.cdate, b.mdate, now, c⟩
    ∧ payloadOf (addBlock s b c now).1 ⟨b.typ, b.fmt, (s.entries.getD pos unusedEntry).off, b.size, b.cdate, b.mdate, now, c⟩ = pl := by
  have hlt : pos < s.entries.length := by
    obtain ⟨e, h1, _, _⟩ := findIdxBy_some _ _ _ hf
    exact (List.getElem?_eq_some_iff.mp h1).1
  constructor
  · rw [addBlock_entries s b c now pos pl hd hf hchk hh]
    have hlen : (List.take pos s.entries).length = pos := by simp [List.length_take]; omega
    rw [List.getElem?_append_right (by omega), hlen]
    simp
  · unfold addBlock payloadOf
    simp only [hd, hf, hchk, hh, Bool.false_eq_true, if_false]
    have : ((b.size : Nat) : Int).toNat = pl.length := by omega
    rw [this]
    exact readAt_writeAt_same _ _ _

end Tdf.C04
