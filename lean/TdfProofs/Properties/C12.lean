/-
  C12 — Reserved, padding and after-terminator bytes never influence what is read.
  Every decoder of the model (file header, table entry, nine blocks) is a program of the free
  monad `D` built from `take` (care), `skip` (don't care) and `str` (care up to and including the
  first NUL). Non-interference is proved ONCE, by induction on programs, for all of them and for
  every byte string that decodes — library-written, independently encoded or BTS-written.
-/
import TdfProofs.Lemmas.Dec
import TdfProofs.Lemmas.Entry
import TdfProofs.Lemmas.Data2D
import TdfProofs.Lemmas.Compact
import TdfProofs.Lemmas.ReadBack
namespace Tdf.C12

/-- NI for every decoder program: if `c` decodes to `a` with care mask `m`, every `c'` that agrees
    with `c` on the care positions decodes to the same `a`, same mask, same consumption -/
theorem non_interference {α : Type} (p : D α) (c r : Bytes) (a : α) (m : List Bool)
    (h : p.runM (c ++ r) = some (a, m, r)) (hc : c.length = m.length)
    (c' r' : Bytes) (hc' : c'.length = m.length) (ha : D.AgreeOn m c c') :
    p.runM (c' ++ r') = some (a, m, r') := D.ni p c r a m h hc c' r' hc' ha

/-- the value/rest computed by the instrumented interpreter are those of the plain one -/
theorem mask_is_faithful {α : Type} (p : D α) (bs : Bytes) :
    p.run bs = (p.runM bs).map (fun x => (x.1, x.2.2)) := D.run_eq_runM p bs

/-- what is consumed is a prefix with one mask flag per consumed byte -/
theorem mask_covers_consumed {α : Type} (p : D α) (bs : Bytes) (a : α) (m : List Bool) (r : Bytes)
    (h : p.runM bs = some (a, m, r)) : ∃ c, bs = c ++ r ∧ c.length = m.length := D.runM_prefix p bs a m r h

/-- scrambling: take any codec with the round-trip law. There is a mask (one flag per byte of the
    canonical encoding) such that EVERY byte string of the same length that agrees with the
    encoding on the flagged positions decodes to the same value, consumes exactly its own length,
    and therefore re-encodes to the canonical bytes of the original size. -/
theorem scramble {α : Type} (dec : D α) (e : Bytes) (x : α)
    (rt : ∀ rest, dec.run (e ++ rest) = some (x, rest)) :
    ∃ m : List Bool, m.length = e.length ∧
      ∀ c' rest', c'.length = e.length → D.AgreeOn m e c' →
        dec.runM (c' ++ rest') = some (x, m, rest') ∧ dec.run (c' ++ rest') = some (x, rest') := by
  have h0 := rt []
  rw [D.run_eq_runM] at h0
  simp only [List.append_nil] at h0
  cases hm : dec.runM e with
  | none => simp [hm] at h0
  | some t =>
    obtain ⟨a, m, r⟩ := t
    rw [hm] at h0
    simp only [Option.map_some, Option.some.injEq, Prod.mk.injEq] at h0
    obtain ⟨ha, hr⟩ := h0
    subst ha; subst hr
    have hm' : dec.runM (e ++ []) = some (a, m, []) := by simpa using hm
    obtain ⟨c, hc, hl⟩ := D.runM_prefix dec _ _ _ _ hm
    simp only [List.append_nil] at hc; subst hc
    refine ⟨m, hl.symm, fun c' rest' hc' ha => ?_⟩
    have := D.ni dec e [] a m hm' hl c' rest' (by omega) ha
    refine ⟨this, ?_⟩
    rw [D.run_eq_runM, this]; rfl

/-- instances: the don't-care bytes of the file header, of table entries and of all nine blocks -/
theorem header (x : Header) (h : x.valid = true) :
    ∃ m : List Bool, m.length = x.enc.length ∧ ∀ c' rest', c'.length = x.enc.length → D.AgreeOn m x.enc c' →
      Header.dec.run (c' ++ rest') = some (x, rest') := by
  obtain ⟨m, hm, hs⟩ := scramble Header.dec x.enc x (Header.dec_enc x h)
  exact ⟨m, hm, fun c' r hc ha => (hs c' r hc ha).2⟩
theorem entry (x : Entry) (h : x.valid = true) :
    ∃ m : List Bool, m.length = x.enc.length ∧ ∀ c' rest', c'.length = x.enc.length → D.AgreeOn m x.enc c' →
      Entry.dec.run (c' ++ rest') = some (x, rest') := by
  obtain ⟨m, hm, hs⟩ := scramble Entry.dec x.enc x (Entry.dec_enc x h)
  exact ⟨m, hm, fun c' r hc ha => (hs c' r hc ha).2⟩
theorem data3d (x : Data3D) (h : x.valid = true) :
    ∃ m : List Bool, m.length = x.enc.length ∧ ∀ c' rest', c'.length = x.enc.length → D.AgreeOn m x.enc c' →
      (Data3D.dec x.fmt).run (c' ++ rest') = some (x, rest') := by
  obtain ⟨m, hm, hs⟩ := scramble _ x.enc x (Data3D.dec_enc x h)
  exact ⟨m, hm, fun c' r hc ha => (hs c' r hc ha).2⟩
theorem emg (x : EMG) (h : x.valid = true) :
    ∃ m : List Bool, m.length = x.enc.length ∧ ∀ c' rest', c'.length = x.enc.length → D.AgreeOn m x.enc c' →
      (EMG.dec 1).run (c' ++ rest') = some (x, rest') := by
  obtain ⟨m, hm, hs⟩ := scramble _ x.enc x (EMG.dec_enc x h)
  exact ⟨m, hm, fun c' r hc ha => (hs c' r hc ha).2⟩
theorem force3d (x : Force3D) (h : x.valid = true) :
    ∃ m : List Bool, m.length = x.enc.length ∧ ∀ c' rest', c'.length = x.enc.length → D.AgreeOn m x.enc c' →
      (Force3D.dec 1).run (c' ++ rest') = some (x, rest') := by
  obtain ⟨m, hm, hs⟩ := scramble _ x.enc x (Force3D.dec_enc x h)
  exact ⟨m, hm, fun c' r hc ha => (hs c' r hc ha).2⟩
theorem platdata (x : PlatData) (h : x.valid = true) :
    ∃ m : List Bool, m.length = x.enc.length ∧ ∀ c' rest', c'.length = x.enc.length → D.AgreeOn m x.enc c' →
      (PlatData.dec 1).run (c' ++ rest') = some (x, rest') := by
  obtain ⟨m, hm, hs⟩ := scramble _ x.enc x (PlatData.dec_enc x h)
  exact ⟨m, hm, fun c' r hc ha => (hs c' r hc ha).2⟩
theorem platcalib (x : PlatCalib) (h : x.valid = true) :
    ∃ m : List Bool, m.length = x.enc.length ∧ ∀ c' rest', c'.length = x.enc.length → D.AgreeOn m x.enc c' →
      (PlatCalib.dec 2).run (c' ++ rest') = some (x, rest') := by
  obtain ⟨m, hm, hs⟩ := scramble _ x.enc x (PlatCalib.dec_enc x h)
  exact ⟨m, hm, fun c' r hc ha => (hs c' r hc ha).2⟩
theorem data2d (x : Data2D) (h : x.valid = true) :
    ∃ m : List Bool, m.length = x.enc.length ∧ ∀ c' rest', c'.length = x.enc.length → D.AgreeOn m x.enc c' →
      (Data2D.dec 2).run (c' ++ rest') = some (x, rest') := by
  obtain ⟨m, hm, hs⟩ := scramble _ x.enc x (Data2D.dec_enc x h)
  exact ⟨m, hm, fun c' r hc ha => (hs c' r hc ha).2⟩
theorem calib (x : Calib) (h : x.valid = true) :
    ∃ m : List Bool, m.length = x.enc.length ∧ ∀ c' rest', c'.length = x.enc.length → D.AgreeOn m x.enc c' →
      (Calib.dec x.fmt).run (c' ++ rest') = some (x, rest') := by
  obtain ⟨m, hm, hs⟩ := scramble _ x.enc x (Calib.dec_enc x h)
  exact ⟨m, hm, fun c' r hc ha => (hs c' r hc ha).2⟩
theorem optical (x : Optical) (h : x.valid = true) :
    ∃ m : List Bool, m.length = x.enc.length ∧ ∀ c' rest', c'.length = x.enc.length → D.AgreeOn m x.enc c' →
      (Optical.dec x.fmt).run (c' ++ rest') = some (x, rest') := by
  obtain ⟨m, hm, hs⟩ := scramble _ x.enc x (Optical.dec_enc x h)
  exact ⟨m, hm, fun c' r hc ha => (hs c' r hc ha).2⟩
theorem events (x : Events) (h : x.valid = true) :
    ∃ m : List Bool, m.length = x.enc.length ∧ ∀ c' rest', c'.length = x.enc.length → D.AgreeOn m x.enc c' →
      (Events.dec x.fmt).run (c' ++ rest') = some (x, rest') := by
  obtain ⟨m, hm, hs⟩ := scramble _ x.enc x (Events.dec_enc x h)
  exact ⟨m, hm, fun c' r hc ha => (hs c' r hc ha).2⟩

/-- WHOLE FILES: for the header and jump table of any well-formed file there is a mask such that every
    file whose first 64 + 288·N bytes agree with it on the flagged positions — whatever its reserved
    header words, reserved entry words and comment tails hold, and whatever data follows — opens
    with the same header fields and the same table (types, formats, offsets, sizes, dates, comments) -/
theorem file_table (l : Lay) (ok : l.Ok) :
    ∃ (h : Header) (m : List Bool), m.length = (l.hdr ++ l.table.flatMap Entry.enc).length ∧
      ∀ c' data', c'.length = (l.hdr ++ l.table.flatMap Entry.enc).length →
        D.AgreeOn m (l.hdr ++ l.table.flatMap Entry.enc) c' →
        decTable.run (c' ++ data') = some ((h, l.table), data') := by
  obtain ⟨h, _, hp0, _⟩ := decTable_prefix l ok []
  have rt : ∀ rest, decTable.run ((l.hdr ++ l.table.flatMap Entry.enc) ++ rest) = some ((h, l.table), rest) := by
    intro rest
    obtain ⟨h', _, hp', hr⟩ := decTable_prefix l ok rest
    obtain ⟨h'', _, hp'', _⟩ := decTable_prefix l ok []
    have e1 : h' = h'' := by
      have a := hp' []; have b := hp'' []
      rw [a] at b; simpa using b
    have e2 : h = h'' := by
      have a := hp0 []; have b := hp'' []
      rw [a] at b; simpa using b
    rw [e2, ← e1]; exact hr
  obtain ⟨m, hm, hs⟩ := scramble decTable _ (h, l.table) rt
  exact ⟨h, m, hm, fun c' d hc ha => (hs c' d hc ha).2⟩

/-- WHOLE FILES, THROUGH TO THE CONTENT OF A BLOCK: take any well-formed file and any valid block `b`
    stored in it. There are masks `mt` (header + jump table) and `mb` (the block's own bytes) such that
    EVERY file made of
      * a header and table that agree with the original on `mt` (reserved header words, reserved entry
        words, comment tails: anything),
      * ANY bytes of the right length where the blocks stored before `b` were,
      * block bytes that agree with `b`'s encoding on `mb` (padding words, label tails, the 256-byte pad
        of platform records: anything),
      * ANYTHING after it,
    opens with the same table and `get_block(type)` returns exactly `b`. What a file yields for a block
    depends on nothing but the care bytes of its header, its table and that block. -/
theorem file_block (l : Lay) (ok : l.Ok) (pre post : List LBlock) (x : LBlock) (b : Wire.AnyBlock)
    (hbs : l.bs = pre ++ x :: post) (hpre : ∀ y ∈ pre, y.typ ≠ x.typ)
    (hv : b.valid = true) (htyp : x.typ = b.typ) (hfmt : x.fmt = b.fmt) (hpl : x.payload = b.enc) :
    ∃ (mt mb : List Bool), mt.length = (l.hdr ++ l.table.flatMap Entry.enc).length ∧ mb.length = b.enc.length ∧
      ∀ (t' dpre' cx' dpost' : Bytes),
        t'.length = (l.hdr ++ l.table.flatMap Entry.enc).length →
        D.AgreeOn mt (l.hdr ++ l.table.flatMap Entry.enc) t' →
        dpre'.length = (dataOf pre).length →
        cx'.length = b.enc.length → D.AgreeOn mb b.enc cx' →
        ∃ s', openFile (t' ++ (dpre' ++ (cx' ++ dpost'))) = some s' ∧ s'.entries = l.table ∧
              getBlock s' x.typ = some b := by
  obtain ⟨h, mt, hmt, hft⟩ := file_table l ok
  obtain ⟨k, d, hk, hd, _⟩ := decoder_roundtrip b hv []
  have rt : ∀ rest, d.run (b.enc ++ rest) = some (b, rest) := by
    intro rest
    obtain ⟨k', d', hk', hd', hrun'⟩ := decoder_roundtrip b hv rest
    have ek : k' = k := by rw [hk] at hk'; injection hk' with e; exact e.symm
    subst ek
    have ed : d' = d := by rw [hd] at hd'; injection hd' with e; exact e.symm
    subst ed
    exact hrun'
  obtain ⟨mb, hmb, hsb⟩ := scramble d b.enc b rt
  refine ⟨mt, mb, hmt, hmb, ?_⟩
  intro t' dpre' cx' dpost' ht' hat hdpre hcx hab
  have hopen := hft t' (dpre' ++ (cx' ++ dpost')) ht' hat
  have htl : (l.hdr ++ l.table.flatMap Entry.enc).length = tableStart l.n := by
    have htn : l.table.length = l.n := by simp [Lay.table, ok.count]
    simp [ok.hdr_len, table_bytes_length l.table ok.valid, htn, tableStart]
  refine ⟨⟨t' ++ (dpre' ++ (cx' ++ dpost')), t' ++ (dpre' ++ (cx' ++ dpost')), l.table, h.nEntries.toNat⟩, ?_, rfl, ?_⟩
  · simp only [openFile, hopen]
  · have hfind : (l.table).find? (fun y => y.typ == x.typ) = some (liveEntry (tableStart l.n + (dataOf pre).length) x) := by
      simp only [Lay.table, hbs]
      exact find_table_at _ _ pre post x l.fs x.typ rfl hpre
    simp only [getBlock, entryByType, hfind]
    simp only [liveEntry]
    rw [htyp, hk]
    simp only [hfmt, hd]
    have hpay : payloadOf ⟨t' ++ (dpre' ++ (cx' ++ dpost')), t' ++ (dpre' ++ (cx' ++ dpost')), l.table, h.nEntries.toNat⟩
        ⟨b.typ, b.fmt, ((tableStart l.n + (dataOf pre).length : Nat) : Int), (x.payload.length : Int), x.cdate, x.mdate, x.adate, x.comment⟩ = cx' := by
      simp only [payloadOf, readAt, Int.toNat_natCast]
      have hl : (t' ++ dpre').length = tableStart l.n + (dataOf pre).length := by
        rw [List.length_append, ht', htl, hdpre]
      rw [← List.append_assoc, ← hl, List.drop_left]
      rw [hpl, ← hcx, List.take_left]
    rw [hpay]
    have := (hsb cx' [] hcx hab).2
    simp only [List.append_nil] at this
    rw [this]; rfl

/-- the masks are not trivially "all care": text fields really ignore what follows the first NUL,
    and skipped words really are skipped -/
example : (D.text 4).runM [65, 0, 7, 9] = some ([65], [true, true, false, false], []) := by decide
example : (D.pad 2).runM [5, 6, 7] = some ((), [false, false], [7]) := by decide

end Tdf.C12
