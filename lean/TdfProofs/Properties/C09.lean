/-
  C09 — The file stays compact: no holes, no leaked bytes, free slots point at EOF.
  Compactness IS the layout function of the spec: `l.table` lists the live blocks back to back from
  the end of the table (running sums), then the unused slots, all carrying the end-of-data offset;
  `l.image` has exactly header + table + the live payloads. The refinement theorem says every
  history stays inside the range of that function.
-/
import TdfProofs.Lemmas.Layout
import TdfProofs.Lemmas.Compact
import TdfProofs.Properties.C03
namespace Tdf.C09

/-- after any history the open object and the file are the image of a (well-formed) layout -/
theorem history_compact (l : Lay) (ok : l.Ok) (ops : List Op) (hops : OpsOk l ops) :
    ∃ l' : Lay, l'.Ok ∧ runOps l.state ops = l'.state ∧ l'.n = l.n := by
  obtain ⟨h1, h2⟩ := run_sim l ok ops hops
  exact ⟨l.specRun ops, h2, h1, (C09_n l ops)⟩
where
  C09_n (l : Lay) (ops : List Op) : (l.specRun ops).n = l.n := by
    induction ops generalizing l with
    | nil => rfl
    | cons op ops ih =>
      have hs : (l.specStep op).1.n = l.n := by
        cases op <;> simp only [Lay.specStep] <;> (repeat' split) <;> simp [Lay.add, Lay.remove]
      simp only [Lay.specRun]; rw [ih, hs]

/-- the executable compactness predicate (run on real bytes by the oracle) accepts every such file -/
theorem history_compactB (l : Lay) (ok : l.Ok) (ops : List Op) (hops : OpsOk l ops) :
    compactB (runOps l.state ops).disk = true := by
  obtain ⟨h1, h2⟩ := run_sim l ok ops hops
  rw [h1]; exact compactB_image _ h2

/-- live blocks back to back in table order from the end of the table; unused slots after all live
    ones, carrying the end-of-data offset, size zero -/
theorem table_shape (l : Lay) :
    l.table = liveEntries (tableStart l.n) l.bs ++ l.fs.map (fun f => ⟨0, f.fmt, (l.eod : Int), 0, f.cdate, f.mdate, f.adate, f.comment⟩) := rfl

theorem live_back_to_back (s : Nat) (b : LBlock) (bs : List LBlock) :
    liveEntries s (b :: bs) = ⟨b.typ, b.fmt, s, b.payload.length, b.cdate, b.mdate, b.adate, b.comment⟩
      :: liveEntries (s + b.payload.length) bs := rfl

/-- file length = header + table + sum of live block sizes -/
theorem file_length (l : Lay) (ok : l.Ok) :
    l.image.length = 64 + 288 * l.n + ((l.bs.map (fun b => b.payload.length)).sum) := by
  rw [Lay.image_length l ok, Lay.eod, tableStart]
  congr 1
  induction l.bs with
  | nil => rfl
  | cons b bs ih => simp [dataOf, List.flatMap_cons] at ih ⊢ <;> omega

/-- adding a block grows the file by exactly its size -/
theorem add_grows (l : Lay) (ok : l.Ok) (b : BlkArg) (c : Str) (now : Int) (hop : OpOk l (.add b c now))
    (hok : (l.specStep (.add b c now)).2 = .ok) :
    (step l.state (.add b c now)).1.disk.length = l.state.disk.length + b.size := by
  obtain ⟨h1, h2⟩ := step_sim l ok _ hop
  rw [h1]
  simp only [Lay.state]
  rw [Lay.image_length _ h2, Lay.image_length l ok]
  simp only [Lay.specStep] at hok ⊢
  split at hok <;> try (cases hok)
  rename_i hd
  simp only [hd, if_false] at hok ⊢
  split at hok <;> try (cases hok)
  rename_i hf
  simp only [hf, if_false] at hok ⊢
  cases hc : checkArg b c now with
  | error e => simp [hc] at hok
  | ok pl =>
    have hpl := hop.honest pl (checkArg_payload b c now pl hc)
    simp only [Lay.add, Lay.eod, dataOf_append, List.length_append]
    simp [dataOf, newBlock, hpl]; omega

/-- removing a block shrinks the file by exactly that block's size -/
theorem remove_shrinks (l : Lay) (ok : l.Ok) (t : Nat) (now : Int) (pre post : List LBlock) (x : LBlock)
    (hbs : l.bs = pre ++ x :: post) (hx : x.typ = t) (hpre : ∀ b ∈ pre, b.typ ≠ t) (hnow : inI32 now = true) :
    (removeBlock l.state t now).1.disk.length + x.payload.length = l.state.disk.length := by
  obtain ⟨h1, h2⟩ := remove_sim l ok t now pre post x hbs hx hpre hnow
  rw [h1]
  simp only [Lay.state]
  rw [Lay.image_length _ h2, Lay.image_length l ok]
  simp only [Lay.eod, Lay.remove, hbs, removeType_split t pre post x hx hpre, dataOf_append]
  simp [dataOf, List.flatMap_cons]; omega

/-- the file `Tdf.new` writes is such a start state: every history on a freshly created file stays
    well-formed (C03) and compact (C09), and reopening it reproduces the object (C10) -/
theorem histories_on_new_file (now : Int) (hnow : inI32 now = true) (ops : List Op)
    (hops : OpsOk (C03.freshLay now) ops) :
    let s := runOps (C03.freshLay now).state ops
    s.disk.take 16 = SIG ∧ wfB s.disk = true ∧ compactB s.disk = true ∧ typesNodupB s.disk = true
      ∧ openFile s.disk = some s := by
  intro s
  have ok := C03.fresh_ok now hnow
  obtain ⟨h1, h2⟩ := run_sim _ ok ops hops
  have hhdr := (C03.header_untouched _ ok ops hops).1
  simp only [s, h1]
  refine ⟨?_, wfB_image _ h2, compactB_image _ h2, typesNodupB_image _ h2, reopen_same _ h2⟩
  simp only [Lay.state, Lay.image, List.append_assoc, hhdr]
  simp [C03.freshLay, Header.enc, SIG]

/-- THE JUDGE IS EXACT. `compactB` — the executable predicate the harness runs on the bytes the real
    code leaves on disk — accepts a file iff its table parses and is, declaratively: some live
    entries (non-zero type, size ≥ 0) whose offsets are the running sums of their sizes starting at
    the end of the table, followed only by unused slots of size 0 that point at the end of the file,
    and the file ends exactly where the last live block ends. So a "held" verdict of the oracle means
    C09's own sentence, and a file with a hole, a leaked tail or a stale unused slot is rejected. -/
theorem judge_exact (file : Bytes) :
    compactB file = true ↔
      ∃ h es rest, decTable.run file = some ((h, es), rest)
        ∧ CompactTable (64 + 288 * h.nEntries.toNat : Int) file.length es :=
  compactB_iff file

/-- compactness implies well-formedness (C09 ⇒ C03) on any bytes whatsoever, not only on images -/
theorem compact_implies_wellformed (file : Bytes) (h : compactB file = true) : wfB file = true :=
  compactB_wfB file h

/-- a leaked tail is rejected: bytes left after the last live block of an otherwise compact file make
    the judge refuse it (the parse ignores what follows the table, the length equation does not) -/
theorem leaked_tail_rejected (l : Lay) (ok : l.Ok) (junk : Bytes) (hj : junk ≠ []) :
    compactB (l.image ++ junk) = false :=
  compactB_leak l ok junk hj

example : (C03.freshLay 1700000000).eod = 4096 := by decide

/-! ### every state (session 5): the length delta of a removal on ANY table — any order, gaps, unused slots anywhere -/

/-- the byte motion of `remove_block` alone: move the tail up over the removed range and truncate — the file loses exactly `size` bytes -/
theorem remove_motion_length (v1 : Bytes) (off size : Nat) (h : off + size ≤ v1.length) :
    (truncateAt (writeAt v1 off (v1.drop (off + size))) (off + (v1.drop (off + size)).length)).length + size = v1.length := by
  simp only [truncateAt, List.length_take, writeAt_length, List.length_drop]
  omega

theorem remove_len (view tab : Bytes) (off size : Int) (h0 : 0 ≤ off) (h1 : 0 ≤ size) (hin : off + size ≤ view.length)
    (hfit : slotPos 0 + tab.length ≤ view.length) :
    (truncateAt (writeAt (writeAt view (slotPos 0) tab) off.toNat ((writeAt view (slotPos 0) tab).drop (off + size).toNat))
      (off.toNat + ((writeAt view (slotPos 0) tab).drop (off + size).toNat).length)).length + size.toNat = view.length := by
  have hv1 : (writeAt view (slotPos 0) tab).length = view.length := by
    rw [writeAt_length]; omega
  have hsum : (off + size).toNat = off.toNat + size.toNat := by omega
  rw [hsum]
  have := remove_motion_length (writeAt view (slotPos 0) tab) off.toNat size.toNat (by rw [hv1]; omega)
  rw [hv1] at this
  exact this

/-- ANY state whose removed block lies inside the file and whose jump table lies inside the file: removing the block shrinks the file
    by exactly that block's size — whatever the order of the table, whatever lies between the blocks. (The compact case is
    `remove_shrinks`; this one needs no layout; that disk = view afterwards is `C10.remove_pending_any`.) -/
theorem remove_shrinks_any (s : TdfSt) (t : Nat) (now : Int) (pos : Nat) (hpos : findType t s.entries = some pos)
    (h0 : 0 ≤ (s.entries.getD pos unusedEntry).off) (h1 : 0 ≤ (s.entries.getD pos unusedEntry).size)
    (hin : (s.entries.getD pos unusedEntry).off + (s.entries.getD pos unusedEntry).size ≤ s.view.length)
    (hfit : slotPos 0 + ((removeBlock s t now).1.entries.flatMap Entry.enc).length ≤ s.view.length) :
    (removeBlock s t now).1.view.length + (s.entries.getD pos unusedEntry).size.toNat = s.view.length := by
  rw [removeBlock_entries s t now pos hpos] at hfit
  unfold removeBlock
  simp only [hpos]
  exact remove_len _ _ _ _ h0 h1 hin hfit

/-- table level and byte level joined (this closes half of what `C03.remove_any_table_wf_partial` lists as missing): on ANY well-formed
    table — any order, gaps — whose jump table lies inside the file, the table `remove_block` leaves is well-formed for the file AS LONG AS
    IT REALLY IS afterwards (the length of the bytes seen through the handle, which are the bytes on disk) -/
theorem remove_any_table_wf_file (s : TdfSt) (t : Nat) (now : Int) (pos : Nat) (ht : t ≠ 0)
    (hfind : findType t s.entries = some pos) (hwf : WFTable s.nEntries s.view.length s.entries)
    (hfit : slotPos 0 + ((removeBlock s t now).1.entries.flatMap Entry.enc).length ≤ s.view.length) :
    WFTable s.nEntries (removeBlock s t now).1.view.length (removeBlock s t now).1.entries := by
  have hw := C03.remove_any_table_wf_partial s t now s.view.length pos ht hfind hwf
  obtain ⟨e, h1, h2, _⟩ := findIdxBy_some _ _ _ hfind
  have hget : s.entries.getD pos unusedEntry = e := by simp [List.getD_eq_getElem?_getD, h1]
  have hmem : e ∈ liveOf s.entries := by
    unfold liveOf
    refine List.mem_filter.mpr ⟨List.mem_of_getElem? h1, ?_⟩
    have : e.typ = t := by simpa using h2
    simp [this, ht]
  obtain ⟨hlo, hsz, hhi⟩ := hwf.1 e hmem
  have hl := remove_shrinks_any s t now pos hfind (by rw [hget]; omega) (by rw [hget]; exact hsz) (by rw [hget]; exact hhi) hfit
  have : (removeBlock s t now).1.view.length = s.view.length - (s.entries.getD pos unusedEntry).size.toNat := by omega
  rw [this]
  exact hw

/-! the ADD half on any state -/

theorem writeEntries_length (v : Bytes) (start : Nat) (es : List Entry) (henc : ∀ e ∈ es, e.enc.length = 288)
    (hfit : slotPos (start + es.length) ≤ v.length) : (writeEntries v start es).length = v.length := by
  induction es generalizing v start with
  | nil => rfl
  | cons e es ih =>
    have he := henc e (by simp)
    have h1 : (writeAt v (slotPos start) e.enc).length = v.length := by
      rw [writeAt_length, he]; simp only [slotPos, List.length_cons] at hfit ⊢; omega
    unfold writeEntries
    rw [ih _ _ (fun x hx => henc x (by simp [hx])) (by rw [h1]; simp only [List.length_cons] at hfit; rw [show start + 1 + es.length = start + (es.length + 1) by omega]; exact hfit)]
    exact h1

/-- ANY state — table in any order, gaps between the blocks —: when the first unused slot carries the end of the file, the jump table lies
    inside the file and every entry of the new table has its 288 bytes, an accepted `add_block` makes the file longer by exactly the bytes
    the block wrote. (The compact case, with `nBytes` for the written bytes, is `add_grows`.) -/
theorem add_grows_any (s : TdfSt) (b : BlkArg) (c : Str) (now : Int) (pos : Nat) (pl : Bytes)
    (hd : hasType b.typ s.entries = false) (hf : firstUnused s.entries = some pos) (hchk : checkArg b c now = .ok pl)
    (hh : (s.entries.drop (pos + 1)).any (fun e => e.typ != 0) = false)
    (henc : ∀ e ∈ (addBlock s b c now).1.entries, e.enc.length = 288)
    (hfit : slotPos s.entries.length ≤ s.view.length)
    (heof : (s.entries.getD pos unusedEntry).off.toNat = s.view.length) :
    (addBlock s b c now).1.view.length = s.view.length + pl.length := by
  rw [addBlock_entries s b c now pos pl hd hf hchk hh] at henc
  have hlt := C03.findIdxBy_lt _ _ _ hf
  unfold addBlock
  simp only [hd, hf, hchk, hh, Bool.false_eq_true, if_false]
  rw [writeAt_length, heof]
  have he := henc _ (List.mem_append_right _ List.mem_cons_self)
  have h1 : (writeAt s.view (slotPos pos) (Entry.enc ⟨b.typ, b.fmt, (s.entries.getD pos unusedEntry).off, b.size, b.cdate, b.mdate, now, c⟩)).length
      = s.view.length := by
    rw [writeAt_length, he]; simp only [slotPos] at hfit ⊢; omega
  rw [writeEntries_length _ _ _ (fun x hx => henc x (List.mem_append_right _ (List.mem_cons_of_mem _ hx))) (by
    rw [h1]; simp only [List.length_map, List.length_drop]
    rw [show pos + 1 + (s.entries.length - (pos + 1)) = s.entries.length by omega]; exact hfit)]
  rw [h1]; omega

/-- non-vacuity of the byte motion: 10 bytes, remove [3,5) -/
example : (truncateAt (writeAt [0,1,2,3,4,5,6,7,8,9] 3 (([0,1,2,3,4,5,6,7,8,9] : Bytes).drop 5)) (3 + 5)) = [0,1,2,5,6,7,8,9] := by decide

end Tdf.C09
