/-
  C16 — No track of the wrong length enters a block; list assignment is all-or-nothing.
-/
import TdfModel.Tracks
namespace Tdf.C16

def Inv (b : TB) : Prop := ∀ t ∈ b.tracks, t.2 = b.n

theorem addTrack_n (b : TB) (o : Offered) : (b.addTrack o).1.n = b.n := by
  cases o with
  | other => rfl
  | track id f => simp only [TB.addTrack]; split <;> rfl

theorem inv_addTrack (b : TB) (o : Offered) (h : Inv b) : Inv (b.addTrack o).1 := by
  cases o with
  | other => exact h
  | track id f =>
    simp only [TB.addTrack]
    split
    · rename_i hf
      intro t ht; simp at ht
      rcases ht with ht | rfl
      · exact h t ht
      · exact hf
    · exact h

/-- a refused add leaves the block unchanged; an accepted one appends exactly that track -/
theorem add_refused_unchanged (b : TB) (o : Offered) (h : (b.addTrack o).2 ≠ .ok) : (b.addTrack o).1 = b := by
  cases o with
  | other => rfl
  | track id f => simp only [TB.addTrack] at h ⊢; split <;> simp_all

theorem add_outcome (b : TB) (o : Offered) : ((b.addTrack o).2 = .ok) ↔ b.accepts o = true := by
  cases o with
  | other => simp [TB.addTrack, TB.accepts]
  | track id f => simp only [TB.addTrack, TB.accepts]; split <;> simp_all

theorem add_wrong_length_refused (b : TB) (id f : Nat) (h : f ≠ b.n) : b.addTrack (.track id f) = (b, .valueError) := by
  simp [TB.addTrack, h]
theorem add_wrong_kind_refused (b : TB) : b.addTrack .other = (b, .typeError) := rfl

def tracksOf (os : List Offered) : List (Nat × Nat) :=
  os.filterMap (fun o => match o with | .track id f => some (id, f) | .other => none)

theorem addAll_spec (b : TB) (os : List Offered) :
    (b.addAll os).2 = os.all b.accepts ∧
    (os.all b.accepts = true → (b.addAll os).1 = { b with tracks := b.tracks ++ tracksOf os }) := by
  induction os generalizing b with
  | nil => simp [TB.addAll, tracksOf]
  | cons o os ih =>
    cases o with
    | other => simp [TB.addAll, TB.addTrack, TB.accepts]
    | track id f =>
      simp only [TB.addAll, TB.addTrack]
      by_cases hf : f = b.n
      · simp only [hf, if_true]
        have hacc : ∀ o, ({ b with tracks := b.tracks ++ [(id, b.n)] } : TB).accepts o = b.accepts o := by
          intro o; cases o <;> rfl
        have hall : os.all ({ b with tracks := b.tracks ++ [(id, b.n)] } : TB).accepts = os.all b.accepts := by
          congr 1
        obtain ⟨i1, i2⟩ := ih { b with tracks := b.tracks ++ [(id, b.n)] }
        refine ⟨?_, ?_⟩
        · rw [i1, hall]; simp [TB.accepts]
        · intro h
          simp only [List.all_cons, Bool.and_eq_true] at h
          rw [i2 (by rw [hall]; exact h.2)]
          simp [tracksOf, List.filterMap_cons]
      · simp [hf, TB.accepts]

/-- ALL-OR-NOTHING: the assignment either installs exactly the given list, or raises and leaves the
    previous tracks in place (an invalid element anywhere, or an iterable that raises midway) -/
theorem assign_all_or_nothing (b : TB) (vs : List Offered) (boom : Option Nat) :
    b.assign vs boom =
      if boom.isNone ∧ vs.all b.accepts then ({ b with tracks := tracksOf vs }, false) else (b, true) := by
  have hacc : ∀ (l : List Offered), l.all ({ b with tracks := [] } : TB).accepts = l.all b.accepts := by
    intro l; congr 1
  cases boom with
  | none =>
    simp only [TB.assign, Option.isSome_none, Option.isNone_none, true_and]
    obtain ⟨i1, i2⟩ := addAll_spec { b with tracks := [] } vs
    rw [hacc] at i1 i2
    cases h : ({ b with tracks := [] } : TB).addAll vs with
    | mk b' r =>
      rw [h] at i1 i2
      simp only at i1 i2
      cases r with
      | true =>
        have hall : vs.all b.accepts = true := i1.symm
        simp only [hall, if_true, Bool.false_eq_true, if_false]
        rw [i2 hall]; simp
      | false =>
        have hall : vs.all b.accepts = false := i1.symm
        simp [hall]
  | some k =>
    simp only [TB.assign, Option.isSome_some, Option.isNone_some, Bool.false_eq_true, false_and, if_false, if_true]
    cases h : ({ b with tracks := [] } : TB).addAll (vs.take k) with
    | mk b' r => cases r <;> rfl

theorem inv_assign (b : TB) (vs : List Offered) (boom : Option Nat) (h : Inv b) : Inv (b.assign vs boom).1 := by
  rw [assign_all_or_nothing]
  split
  · rename_i hc
    intro t ht
    simp only [tracksOf, List.mem_filterMap] at ht
    obtain ⟨o, ho, hm⟩ := ht
    have := List.all_eq_true.mp hc.2 o ho
    cases o with
    | other => simp at hm
    | track id f => simp at hm; subst hm; simpa [TB.accepts] using this
  · exact h

/-- what a block offers when its own tracks are handed back to it -/
def own (b : TB) : List Offered := b.tracks.map (fun t => .track t.1 t.2)

theorem tracksOf_own (ts : List (Nat × Nat)) : tracksOf (ts.map (fun t => Offered.track t.1 t.2)) = ts := by
  induction ts with
  | nil => rfl
  | cons t ts ih => simp [tracksOf, List.filterMap_cons] at ih ⊢; exact ih

/-- ASSIGNING A BLOCK ITS OWN TRACKS BACK — its list object, a lazy view of it, any re-ordering `p` of it —
    installs exactly those tracks: the new value is read before anything happens to the old container -/
theorem assign_own_tracks (b : TB) (h : Inv b) : b.assign (own b) none = (b, false) := by
  rw [assign_all_or_nothing]
  have hall : (own b).all b.accepts = true := by
    simp only [own, List.all_map, List.all_eq_true]
    intro t ht
    simp [TB.accepts, h t ht]
  have hall' : (List.map (fun t => Offered.track t.fst t.snd) b.tracks).all b.accepts = true := hall
  simp only [Option.isNone_none, own, hall', and_self, if_true, tracksOf_own]

theorem assign_own_tracks_reordered (b : TB) (h : Inv b) (ts : List (Nat × Nat)) (hp : ∀ t ∈ ts, t ∈ b.tracks) :
    b.assign (ts.map (fun t => .track t.1 t.2)) none = ({ b with tracks := ts }, false) := by
  rw [assign_all_or_nothing]
  have hall : (ts.map (fun t => Offered.track t.1 t.2)).all b.accepts = true := by
    simp only [List.all_map, List.all_eq_true]
    intro t ht
    simp [TB.accepts, h t (hp t ht)]
  simp only [Option.isNone_none, hall, and_self, if_true, tracksOf_own]

example : (TB.mk 5 [(1, 5), (2, 5)]).assign (own (TB.mk 5 [(1, 5), (2, 5)])) none = (TB.mk 5 [(1, 5), (2, 5)], false) := by decide

inductive Call where
  | add (o : Offered)
  | assign (vs : List Offered) (boom : Option Nat)

def apply (b : TB) : Call → TB
  | .add o => (b.addTrack o).1
  | .assign vs boom => (b.assign vs boom).1

/-- through the public interface a block never comes to contain a track of another length -/
theorem inv_history (b : TB) (cs : List Call) (h : Inv b) : Inv (cs.foldl apply b) := by
  induction cs generalizing b with
  | nil => exact h
  | cons c cs ih =>
    apply ih
    cases c with
    | add o => exact inv_addTrack b o h
    | assign vs boom => exact inv_assign b vs boom h

example : (TB.mk 5 [(1, 5)]).assign [.track 2 5, .other, .track 3 5] none = (TB.mk 5 [(1, 5)], true) := by decide
example : (TB.mk 5 [(1, 5)]).assign [.track 2 5, .track 3 5] none = (TB.mk 5 [(2, 5), (3, 5)], false) := by decide
example : (TB.mk 5 [(1, 5)]).assign [.track 2 5, .track 3 5] (some 1) = (TB.mk 5 [(1, 5)], true) := by decide

end Tdf.C16
