/-
  C17 — Creating or copying a file never clobbers an existing one; opening refuses what is not a TDF.
-/
import TdfModel.Fs
import TdfProofs.Properties.C06
namespace Tdf.C17

theorem get_set_same (fs : Fs) (p : Nat) (n : Node) : (fs.set p n).get p = some n := by simp [Fs.set, Fs.get]
theorem get_set_other (fs : Fs) (p q : Nat) (n : Node) (h : q ≠ p) : (fs.set p n).get q = fs.get q := by
  simp [Fs.set, Fs.get, Ne.symm h]

/-- a new file on a free path is the well-formed empty container: signature, version 1, 14 unused
    slots all pointing at the end of the 4096-byte table, nothing after it; every other path untouched -/
theorem new_wellformed (fs : Fs) (p : Nat) (now : Int) (hfree : fs.get p = none) (hnow : inI32 now = true) :
    (fsNew fs p now).2 = .ok ∧ (fsNew fs p now).1.get p = some (.file (newFile now)) ∧
    (newFile now).length = 4096 ∧ (newFile now).take 16 = SIG ∧
    (∃ hd : Header, hd.version = 1 ∧ hd.nEntries = 14 ∧
      decTable.run (newFile now) = some ((hd, List.replicate 14 ⟨0, 0, 4096, 0, now, now, now, defaultComment⟩), [])) ∧
    (∀ q, q ≠ p → (fsNew fs p now).1.get q = fs.get q) := by
  obtain ⟨h1, h2, h3⟩ := C06.new_file now hnow
  refine ⟨by simp [fsNew, hfree], by simp [fsNew, hfree, get_set_same], h1, h2, h3, ?_⟩
  intro q hq; simp [fsNew, hfree, get_set_other _ _ _ _ hq]

/-- new refuses an existing target of any kind (TDF, non-TDF, empty file, directory) and leaves
    the whole file system — in particular that file's bytes — untouched -/
theorem new_exists_refused (fs : Fs) (p : Nat) (now : Int) (n : Node) (h : fs.get p = some n) :
    fsNew fs p now = (fs, .fileExists) := by simp [fsNew, h]

/-- copy yields a byte-identical file and touches nothing else -/
theorem copy_identical (fs : Fs) (src dst : Nat) (b : Bytes) (hs : fs.get src = some (.file b)) (hd : fs.get dst = none) :
    (fsCopy fs src dst).2 = .ok ∧ (fsCopy fs src dst).1.get dst = some (.file b) ∧
    (∀ q, q ≠ dst → (fsCopy fs src dst).1.get q = fs.get q) := by
  refine ⟨by simp [fsCopy, hs, hd], by simp [fsCopy, hs, hd, get_set_same], ?_⟩
  intro q hq; simp [fsCopy, hs, hd, get_set_other _ _ _ _ hq]

theorem copy_exists_refused (fs : Fs) (src dst : Nat) (n : Node) (h : fs.get dst = some n) :
    fsCopy fs src dst = (fs, .fileExists) := by simp [fsCopy, h]

/-- the copy is independent of the original: any later mutation of either file leaves the other's
    bytes unchanged -/
theorem copy_independent (fs : Fs) (p q : Nat) (op : Op) (h : q ≠ p) :
    (fsMutate fs p op).get q = fs.get q := by
  unfold fsMutate
  cases fsOpen fs p with
  | error e => rfl
  | ok s => exact get_set_other _ _ _ _ h

theorem mutations_independent (fs : Fs) (p q : Nat) (ops : List Op) (h : q ≠ p) :
    (ops.foldl (fun f op => fsMutate f p op) fs).get q = fs.get q := by
  induction ops generalizing fs with
  | nil => rfl
  | cons op ops ih => simp only [List.foldl_cons]; rw [ih, copy_independent fs p q op h]

theorem open_missing_refused (fs : Fs) (p : Nat) (h : fs.get p = none) : fsOpen fs p = .error .notFound := by
  simp [fsOpen, h]

/-- anything that does not start with the 16 signature bytes is refused rather than yielding data -/
theorem open_bad_signature_refused (b : Bytes) (h : b.take 16 ≠ SIG) : openFile b = none := by
  unfold openFile decTable
  simp only [D.bind_eq]
  rw [D.run_bind]
  have : Header.dec.run b = none := by
    unfold Header.dec
    simp only [D.bind_eq]
    rw [D.run_bind]
    simp only [D.raw, D.run, D.short_eq, decide_eq_true_eq]
    split
    · rfl
    · rename_i a r heq
      split at heq
      · cases heq
      · simp only [Option.some.injEq, Prod.mk.injEq] at heq
        obtain ⟨ha, _⟩ := heq
        subst ha
        rw [D.run_bind]
        have hg : (b.take 16 == SIG) = false := by simpa using h
        simp [D.guard, hg, D.run, h]
  rw [this]

theorem open_bad_signature_refused_fs (fs : Fs) (p : Nat) (b : Bytes) (hp : fs.get p = some (.file b))
    (h : b.take 16 ≠ SIG) : fsOpen fs p = .error .invalid := by
  simp [fsOpen, hp, open_bad_signature_refused b h]

/-! ### long-lived objects: every context entry validates the file as it is NOW -/

/-- whatever happened before — the object may have opened the same path successfully any number of
    times, the file may have been replaced, deleted and recreated — an entry made while the path holds
    bytes that do not start with the signature is refused -/
theorem enter_checks_every_time (w : World) (ops : List WOp) (o p : Nat) (b : Bytes)
    (ho : (w.run ops).pathOf o = some p) (hp : (w.run ops).fs.get p = some (.file b)) (h : b.take 16 ≠ SIG) :
    ((w.run ops).step (.enter o)).2 = .invalid := by
  simp [World.step, ho, open_bad_signature_refused_fs _ p b hp h]

/-- … and while the path does not exist it is refused with FileNotFoundError -/
theorem enter_missing_refused (w : World) (ops : List WOp) (o p : Nat)
    (ho : (w.run ops).pathOf o = some p) (hp : (w.run ops).fs.get p = none) :
    ((w.run ops).step (.enter o)).2 = .notFound := by
  simp [World.step, ho, open_missing_refused _ p hp]

/-- entering never changes any file, accepted or refused -/
theorem enter_changes_nothing (w : World) (o : Nat) : (w.step (.enter o)).1 = w := by
  simp only [World.step]; split <;> rfl

/-- the outcome of an entry is a function of the current bytes at the object's path alone: two worlds
    that agree there give the same answer, whatever their histories were -/
theorem enter_depends_on_current_bytes_only (w₁ w₂ : World) (o₁ o₂ p₁ p₂ : Nat)
    (h₁ : w₁.pathOf o₁ = some p₁) (h₂ : w₂.pathOf o₂ = some p₂) (h : w₁.fs.get p₁ = w₂.fs.get p₂) :
    (w₁.step (.enter o₁)).2 = (w₂.step (.enter o₂)).2 := by
  simp [World.step, h₁, h₂, fsOpen, h]

/-- new/copy through the world never touch an existing target, whatever came before -/
theorem world_new_exists_refused (w : World) (p : Nat) (now : Int) (n : Node) (h : w.fs.get p = some n) :
    (w.step (.new p now)) = (w, .fileExists) := by
  simp [World.step, new_exists_refused w.fs p now n h]

theorem world_copy_exists_refused (w : World) (o src dst : Nat) (n : Node) (ho : w.pathOf o = some src)
    (h : w.fs.get dst = some n) : (w.step (.copy o dst)) = (w, .fileExists) := by
  simp [World.step, ho, copy_exists_refused w.fs src dst n h]

-- non-vacuity: an object that opened a good file, whose file is then replaced by junk, is refused
example : let w := (World.run { fs := [(1, .file (newFile 0))] } [.construct 9 1, .enter 9, .put 1 [1, 2, 3]])
          (w.step (.enter 9)).2 = .invalid ∧ ((World.run { fs := [(1, .file (newFile 0))] } [.construct 9 1]).step (.enter 9)).2 = .ok := by
  decide +kernel

example : fsNew [(7, .dir)] 7 0 = ([(7, .dir)], .fileExists) := by decide
example : (fsCopy [(1, .file [1, 2, 3])] 1 2).1.get 2 = some (.file [1, 2, 3]) := by decide

end Tdf.C17
