/-
  C20 — Separately created blocks share no state.
-/
import TdfModel.Store
namespace Tdf.C20

/-- a constructor or decode call yields an instance distinct from every existing one, and leaves
    every existing instance exactly as it was -/
theorem fresh_alloc (s : Store) (op : SOp) (j : Nat) (h : (s.step op).2 = some j) :
    s.content j = none ∧ ∀ i, i < s.cells.length → (s.step op).1.content i = s.content i := by
  cases op with
  | construct items =>
    cases items <;> (
      simp only [Store.step] at h ⊢
      injection h with h; subst h
      refine ⟨by simp [Store.content], fun i hi => by simp [Store.content, List.getElem?_append_left hi]⟩)
  | decode items =>
    simp only [Store.step] at h ⊢
    injection h with h; subst h
    exact ⟨by simp [Store.content], fun i hi => by simp [Store.content, List.getElem?_append_left hi]⟩
  | add i it => simp [Store.step] at h
  | remove i k => simp [Store.step] at h
  | edit i k => simp only [Store.step] at h; split at h <;> simp at h
  | assign i items => simp [Store.step] at h

/-- a block constructed without items starts empty, no matter what was done to earlier instances -/
theorem new_without_items_is_empty (s : Store) :
    (s.step (.construct none)).1.content s.cells.length = some [] := by
  simp [Store.step, Store.content]

/-- decoding yields exactly the decoded items, in a container of its own -/
theorem decode_content (s : Store) (items : List Nat) :
    (s.step (.decode items)).1.content s.cells.length = some items := by
  simp [Store.step, Store.content]

/-- SEPARATION: adding to / removing from one instance never changes what another one contains -/
theorem separation (s : Store) (i j : Nat) (h : i ≠ j) (it k : Nat) :
    (s.step (.add i it)).1.content j = s.content j ∧ (s.step (.remove i k)).1.content j = s.content j := by
  simp only [Store.step, Store.content]
  constructor <;> rw [List.getElem?_modify] <;> simp [h]

/-- list assignment installs exactly the given items in the addressed instance and changes no other
    instance — also when the items (or the very list object handed over) belong to another instance -/
theorem assign_separate (s : Store) (i j : Nat) (h : i ≠ j) (items : List Nat) :
    (s.step (.assign i items)).1.content j = s.content j := by
  simp only [Store.step, Store.content]; rw [List.getElem?_modify]; simp [h]

theorem assign_installs (s : Store) (i : Nat) (hi : i < s.cells.length) (items : List Nat) :
    (s.step (.assign i items)).1.content i = some items := by
  simp only [Store.step, Store.content]; rw [List.getElem?_modify]; simp [hi]

/-- after `b.items = a.items` the two instances hold the same objects in containers of their own:
    adding to or removing from either leaves the other as it was -/
theorem assign_then_edit_independent (s : Store) (a b : Nat) (hab : a ≠ b) (ca : List Nat) (ha : s.content a = some ca)
    (hb : b < s.cells.length) (it k : Nat) :
    let s1 := (s.step (.assign b ca)).1
    (s1.step (.add a it)).1.content b = some ca ∧ (s1.step (.remove a k)).1.content b = some ca ∧
    (s1.step (.add b it)).1.content a = some ca ∧ (s1.step (.remove b k)).1.content a = some ca := by
  intro s1
  have hb1 : s1.content b = some ca := assign_installs s b hb ca
  have ha1 : s1.content a = some ca := by rw [assign_separate s b a (Ne.symm hab) ca]; exact ha
  refine ⟨?_, ?_, ?_, ?_⟩
  · rw [(separation s1 a b hab it 0).1]; exact hb1
  · rw [(separation s1 a b hab 0 k).2]; exact hb1
  · rw [(separation s1 b a (Ne.symm hab) it 0).1]; exact ha1
  · rw [(separation s1 b a (Ne.symm hab) 0 k).2]; exact ha1

/-- over any interleaving: an instance's content is changed only by operations addressed to it -/
theorem instance_independent (s : Store) (ops : List SOp) (j : Nat) (hj : j < s.cells.length)
    (h : ∀ op ∈ ops, ∀ it k items, op ≠ .add j it ∧ op ≠ .remove j k ∧ op ≠ .assign j items) :
    (s.run ops).content j = s.content j := by
  induction ops generalizing s with
  | nil => rfl
  | cons op ops ih =>
    simp only [Store.run]
    have hlen : s.cells.length ≤ (s.step op).1.cells.length := by
      cases op with
      | construct items => cases items <;> simp [Store.step]
      | decode items => simp [Store.step]
      | add i it => simp [Store.step]
      | remove i k => simp [Store.step]
      | edit i k => simp only [Store.step]; split <;> simp
      | assign i items => simp [Store.step]
    rw [ih (s.step op).1 (by omega) (fun o ho => h o (by simp [ho]))]
    cases op with
    | construct items => cases items <;> simp [Store.step, Store.content, List.getElem?_append_left hj]
    | decode items => simp [Store.step, Store.content, List.getElem?_append_left hj]
    | add i it =>
      have : i ≠ j := fun e => (h (.add i it) (by simp) it 0 []).1 (by rw [e])
      exact (separation s i j this it 0).1
    | remove i k =>
      have : i ≠ j := fun e => (h (.remove i k) (by simp) 0 k []).2.1 (by rw [e])
      exact (separation s i j this 0 k).2
    | edit i k => simp only [Store.step]; split <;> rfl
    | assign i items =>
      have : i ≠ j := fun e => (h (.assign i items) (by simp) 0 0 items).2.2 (by rw [e])
      exact assign_separate s i j this items

/-- decoding the same bytes twice gives two instances that can be edited independently -/
theorem decode_twice_independent (s : Store) (items : List Nat) (it : Nat) :
    let s1 := (s.step (.decode items)).1
    let a := s.cells.length
    let s2 := (s1.step (.decode items)).1
    let b := s1.cells.length
    a ≠ b ∧ ((s2.step (.add a it)).1.content b = some items) ∧ ((s2.step (.add a it)).1.content a = some (items ++ [it])) := by
  simp only [Store.step, Store.content]
  refine ⟨by simp, ?_, ?_⟩
  · rw [List.getElem?_modify]; simp
  · rw [List.getElem?_modify]; simp

example : ((Store.empty.run [.construct none, .add 0 7, .construct none]).content 1) = some [] := by decide

/-! ### editing an item in place -/

/-- an in-place edit never changes which items an instance holds -/
theorem edit_keeps_content (s : Store) (i k j : Nat) : (s.step (.edit i k)).1.content j = s.content j := by
  simp only [Store.step]; split <;> rfl

/-- an in-place edit changes the encoding of exactly the instances that hold the edited object -/
theorem edit_seen_only_by_holders (s : Store) (i k j : Nat) (id : Nat) (c : List Nat)
    (hid : s.itemAt i k = some id) (hc : s.content j = some c) (hfree : id ∉ c) :
    (s.step (.edit i k)).1.encoding j = s.encoding j := by
  simp only [Store.step, hid, Store.encoding]
  simp only [Store.content] at hc
  rw [hc]
  simp only [Option.map_some, Option.some.injEq]
  apply List.map_congr_left
  intro a ha
  have : a ≠ id := fun e => hfree (e ▸ ha)
  simp [Store.ver, this.symm]

/-- no object is held by two instances -/
def Sep (s : Store) : Prop :=
  ∀ i j ci cj, i ≠ j → s.content i = some ci → s.content j = some cj → ∀ a ∈ ci, a ∉ cj

/-- an operation brings only objects no instance holds yet (what separate constructor / decode calls
    and freshly built items are) -/
def FreshOp (s : Store) : SOp → Prop
  | .construct (some items) => ∀ a ∈ items, ∀ c ∈ s.cells, a ∉ c
  | .decode items => ∀ a ∈ items, ∀ c ∈ s.cells, a ∉ c
  | .add _ it => ∀ c ∈ s.cells, it ∉ c
  | .assign _ items => ∀ a ∈ items, ∀ c ∈ s.cells, a ∉ c
  | _ => True

theorem mem_cells_of_content {s : Store} {i : Nat} {c : List Nat} (h : s.content i = some c) : c ∈ s.cells := by
  simp only [Store.content] at h
  exact List.mem_of_getElem? h

theorem sep_append (s : Store) (items : List Nat) (hs : Sep s) (hf : ∀ a ∈ items, ∀ c ∈ s.cells, a ∉ c) :
    Sep { s with cells := s.cells ++ [items] } := by
  intro i j ci cj hij hi hj a ha
  simp only [Store.content] at hi hj
  rcases Nat.lt_or_ge i s.cells.length with hil | hil
  · rw [List.getElem?_append_left hil] at hi
    rcases Nat.lt_or_ge j s.cells.length with hjl | hjl
    · rw [List.getElem?_append_left hjl] at hj
      exact hs i j ci cj hij hi hj a ha
    · rw [List.getElem?_append_right hjl] at hj
      have : cj = items := by
        cases hk : j - s.cells.length with
        | zero => simp [hk] at hj; exact hj.symm
        | succ n => simp [hk] at hj
      subst this
      intro hmem
      exact hf a hmem ci (List.mem_of_getElem? hi) ha
  · rw [List.getElem?_append_right hil] at hi
    have : ci = items := by
      cases hk : i - s.cells.length with
      | zero => simp [hk] at hi; exact hi.symm
      | succ n => simp [hk] at hi
    subst this
    rcases Nat.lt_or_ge j s.cells.length with hjl | hjl
    · rw [List.getElem?_append_left hjl] at hj
      exact hf a ha cj (List.mem_of_getElem? hj)
    · rw [List.getElem?_append_right hjl] at hj
      exfalso
      have hi0 : i - s.cells.length = 0 := by
        cases hk : i - s.cells.length with
        | zero => rfl
        | succ n => simp [hk] at hi
      have hj0 : j - s.cells.length = 0 := by
        cases hk : j - s.cells.length with
        | zero => rfl
        | succ n => simp [hk] at hj
      omega

theorem modify_get {cells : List (List Nat)} {f : List Nat → List Nat} {i n : Nat} {c : List Nat}
    (h : (cells.modify i f)[n]? = some c) : ∃ c0, cells[n]? = some c0 ∧ c = if i = n then f c0 else c0 := by
  rw [List.getElem?_modify] at h
  cases hc : cells[n]? with
  | none => simp [hc] at h
  | some c0 => simp [hc] at h; exact ⟨c0, rfl, h.symm⟩

/-- separation is an invariant of every operation that brings fresh objects -/
theorem sep_step (s : Store) (op : SOp) (hs : Sep s) (hf : FreshOp s op) : Sep (s.step op).1 := by
  cases op with
  | construct items =>
    cases items with
    | none => exact sep_append s [] hs (by simp)
    | some items => exact sep_append s items hs hf
  | decode items => exact sep_append s items hs hf
  | add i it =>
    intro a b ca cb hab ha hb x hx
    simp only [Store.step, Store.content] at ha hb
    obtain ⟨ca0, hca, rfl⟩ := modify_get ha
    obtain ⟨cb0, hcb, rfl⟩ := modify_get hb
    have fa : it ∉ ca0 := hf ca0 (List.mem_of_getElem? hca)
    have fb : it ∉ cb0 := hf cb0 (List.mem_of_getElem? hcb)
    have base := hs a b ca0 cb0 hab hca hcb
    by_cases hia : i = a
    · have hib : ¬ i = b := fun e => hab (hia ▸ e)
      simp only [hia, if_true, List.mem_append, List.mem_singleton] at hx
      simp only [hib, if_false]
      rcases hx with hx | rfl
      · exact base x hx
      · exact fb
    · simp only [hia, if_false] at hx
      by_cases hib : i = b
      · simp only [hib, if_true, List.mem_append, List.mem_singleton, not_or]
        exact ⟨base x hx, fun e => fa (e ▸ hx)⟩
      · simp only [hib, if_false]; exact base x hx
  | remove i k =>
    intro a b ca cb hab ha hb x hx
    simp only [Store.step, Store.content] at ha hb
    obtain ⟨ca0, hca, rfl⟩ := modify_get ha
    obtain ⟨cb0, hcb, rfl⟩ := modify_get hb
    have base := hs a b ca0 cb0 hab hca hcb
    have hxa : x ∈ ca0 := by
      by_cases hia : i = a
      · simp only [hia, if_true] at hx; exact List.mem_of_mem_eraseIdx hx
      · simpa only [hia, if_false] using hx
    intro hxb
    have hxb0 : x ∈ cb0 := by
      by_cases hib : i = b
      · simp only [hib, if_true] at hxb; exact List.mem_of_mem_eraseIdx hxb
      · simpa only [hib, if_false] using hxb
    exact base x hxa hxb0
  | edit i k =>
    simp only [Store.step]
    split <;> exact hs
  | assign i items =>
    intro a b ca cb hab ha hb x hx
    simp only [Store.step, Store.content] at ha hb
    obtain ⟨ca0, hca, rfl⟩ := modify_get ha
    obtain ⟨cb0, hcb, rfl⟩ := modify_get hb
    have base := hs a b ca0 cb0 hab hca hcb
    by_cases hia : i = a
    · have hib : ¬ i = b := fun e => hab (hia ▸ e)
      simp only [hia, if_true] at hx
      simp only [hib, if_false]
      exact hf x hx cb0 (List.mem_of_getElem? hcb)
    · simp only [hia, if_false] at hx
      by_cases hib : i = b
      · simp only [hib, if_true]
        intro hxi
        exact hf x hxi ca0 (List.mem_of_getElem? hca) hx
      · simp only [hib, if_false]; exact base x hx

/-- the operations of a history all bring fresh objects -/
def FreshOps : Store → List SOp → Prop
  | _, [] => True
  | s, op :: ops => FreshOp s op ∧ FreshOps (s.step op).1 ops

theorem sep_run (s : Store) (ops : List SOp) (hs : Sep s) (hf : FreshOps s ops) : Sep (s.run ops) := by
  induction ops generalizing s with
  | nil => exact hs
  | cons op ops ih => exact ih _ (sep_step s op hs hf.1) hf.2

/-- EDIT INDEPENDENCE: after any interleaving of separate constructions, decodes, additions of new
    items, removals and in-place edits, editing an item of one instance changes neither what another
    instance contains nor what it encodes -/
theorem edit_independent (ops : List SOp) (hf : FreshOps Store.empty ops) (i k j : Nat) (h : i ≠ j) :
    let s := Store.empty.run ops
    (s.step (.edit i k)).1.content j = s.content j ∧ (s.step (.edit i k)).1.encoding j = s.encoding j := by
  intro s
  refine ⟨edit_keeps_content s i k j, ?_⟩
  have hsep : Sep s := sep_run _ ops (by intro i j ci cj _ hi; simp [Store.content, Store.empty] at hi) hf
  cases hid : s.itemAt i k with
  | none => simp [Store.step, hid]
  | some id =>
    cases hc : s.content j with
    | none => simp [Store.step, hid, Store.encoding, Store.content] at hc ⊢; simp [hc]
    | some c =>
      apply edit_seen_only_by_holders s i k j id c hid hc
      simp only [Store.itemAt] at hid
      cases hci : s.cells[i]? with
      | none => simp [hci] at hid
      | some ci =>
        simp [hci] at hid
        exact hsep i j ci c h hci hc id (List.mem_of_getElem? hid)

example : let s := Store.empty.run [.construct (some [1, 2]), .construct none, .assign 1 [1, 2], .add 0 3]
          s.content 1 = some [1, 2] ∧ s.content 0 = some [1, 2, 3] := by decide

/-- two decodes of the same bytes (two fresh sets of objects), one edited in place: the other one
    still encodes the original content, the edited one does not -/
example :
    let s := Store.empty.run [.decode [10, 11], .decode [20, 21], .edit 0 1]
    s.encoding 1 = some [(20, 0), (21, 0)] ∧ s.encoding 0 = some [(10, 0), (11, 1)] := by decide
example : FreshOps Store.empty [.decode [10, 11], .decode [20, 21], .edit 0 1, .add 1 30] := by
  simp [FreshOps, FreshOp, Store.step, Store.empty, Store.itemAt]
/-- and what the theorem rules out — the same objects handed out twice — is visible in the model -/
example :
    let s := Store.empty.run [.decode [10, 11], .decode [10, 11], .edit 0 1]
    s.encoding 1 = some [(10, 0), (11, 1)] := by decide

end Tdf.C20
