/-
  C20 — Separately created blocks share no state.
-/
import TdfModel.Store
namespace Tdf.C20

/-- a constructor or decode call yields an instance distinct from every existing one, and leaves
    every existing instance exactly as it was -/
theorem fresh_alloc (s : Store) (op : SOp) (j : Nat) (h : (s.step op).2 = some j) :
    s.content j = none ∧ ∀ i, i < s.cells.length → (s.step op).1.content i = s.content i := by
  cases op with
  | construct items =>
    cases items <;> (
      simp only [Store.step] at h ⊢
      injection h with h; subst h
      refine ⟨by simp [Store.content], fun i hi => by simp [Store.content, List.getElem?_append_left hi]⟩)
  | decode items =>
    simp only [Store.step] at h ⊢
    injection h with h; subst h
    exact ⟨by simp [Store.content], fun i hi => by simp [Store.content, List.getElem?_append_left hi]⟩
  | add i it => simp [Store.step] at h
  | remove i k => simp [Store.step] at h

/-- a block constructed without items starts empty, no matter what was done to earlier instances -/
theorem new_without_items_is_empty (s : Store) :
    (s.step (.construct none)).1.content s.cells.length = some [] := by
  simp [Store.step, Store.content]

/-- decoding yields exactly the decoded items, in a container of its own -/
theorem decode_content (s : Store) (items : List Nat) :
    (s.step (.decode items)).1.content s.cells.length = some items := by
  simp [Store.step, Store.content]

/-- SEPARATION: adding to / removing from one instance never changes what another one contains -/
theorem separation (s : Store) (i j : Nat) (h : i ≠ j) (it k : Nat) :
    (s.step (.add i it)).1.content j = s.content j ∧ (s.step (.remove i k)).1.content j = s.content j := by
  simp only [Store.step, Store.content]
  constructor <;> rw [List.getElem?_modify] <;> simp [h]

/-- over any interleaving: an instance's content is changed only by operations addressed to it -/
theorem instance_independent (s : Store) (ops : List SOp) (j : Nat) (hj : j < s.cells.length)
    (h : ∀ op ∈ ops, ∀ it k, op ≠ .add j it ∧ op ≠ .remove j k) :
    (s.run ops).content j = s.content j := by
  induction ops generalizing s with
  | nil => rfl
  | cons op ops ih =>
    simp only [Store.run]
    have hlen : s.cells.length ≤ (s.step op).1.cells.length := by
      cases op with
      | construct items => cases items <;> simp [Store.step]
      | decode items => simp [Store.step]
      | add i it => simp [Store.step]
      | remove i k => simp [Store.step]
    rw [ih (s.step op).1 (by omega) (fun o ho => h o (by simp [ho]))]
    cases op with
    | construct items => cases items <;> simp [Store.step, Store.content, List.getElem?_append_left hj]
    | decode items => simp [Store.step, Store.content, List.getElem?_append_left hj]
    | add i it =>
      have : i ≠ j := fun e => (h (.add i it) (by simp) it 0).1 (by rw [e])
      exact (separation s i j this it 0).1
    | remove i k =>
      have : i ≠ j := fun e => (h (.remove i k) (by simp) 0 k).2 (by rw [e])
      exact (separation s i j this 0 k).2

/-- decoding the same bytes twice gives two instances that can be edited independently -/
theorem decode_twice_independent (s : Store) (items : List Nat) (it : Nat) :
    let s1 := (s.step (.decode items)).1
    let a := s.cells.length
    let s2 := (s1.step (.decode items)).1
    let b := s1.cells.length
    a ≠ b ∧ ((s2.step (.add a it)).1.content b = some items) ∧ ((s2.step (.add a it)).1.content a = some (items ++ [it])) := by
  simp only [Store.step, Store.content]
  refine ⟨by simp, ?_, ?_⟩
  · rw [List.getElem?_modify]; simp
  · rw [List.getElem?_modify]; simp

example : ((Store.empty.run [.construct none, .add 0 7, .construct none]).content 1) = some [] := by decide

end Tdf.C20
