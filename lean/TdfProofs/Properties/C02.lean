/-
  C02 — A block's declared size equals the bytes written and the bytes consumed.
  `size` mirrors the Python `nBytes` arithmetic term by term (it is not defined as the length of
  the encoding); `written` is `(enc x).length`; `consumed` is what the decoder takes off the front
  of ANY stream that starts with the encoding (it leaves exactly the bytes that followed).
-/
import TdfModel.Wire
import TdfProofs.Lemmas.RoundTrip
import TdfProofs.Lemmas.Data2D
import TdfProofs.Lemmas.Container
namespace Tdf.C02

theorem written_data3d (x : Data3D) (h : x.valid = true) : x.enc.length = x.size := Data3D.enc_length x h
theorem written_emg (x : EMG) (h : x.valid = true) : x.enc.length = x.size := EMG.enc_length x h
theorem written_force3d (x : Force3D) (h : x.valid = true) : x.enc.length = x.size := Force3D.enc_length x h
theorem written_platdata (x : PlatData) (h : x.valid = true) : x.enc.length = x.size := PlatData.enc_length x h
theorem written_platcalib (x : PlatCalib) (h : x.valid = true) : x.enc.length = x.size := PlatCalib.enc_length x h
theorem written_data2d (x : Data2D) (h : x.valid = true) : x.enc.length = x.size := Data2D.enc_length x h
theorem written_calib (x : Calib) (h : x.valid = true) : x.enc.length = x.size := Calib.enc_length x h
theorem written_optical (x : Optical) (h : x.valid = true) : x.enc.length = x.size := Optical.enc_length x h
theorem written_events (x : Events) (h : x.valid = true) : x.enc.length = x.size := Events.enc_length x h

/-- consumption, generically: a decoder with the round-trip law consumes exactly the encoding —
    no more, no fewer — and leaves the stream at the first byte after the block -/
theorem consumed_exactly {β : Type} (dec : D β) (e : Bytes) (x : β)
    (rt : ∀ rest, dec.run (e ++ rest) = some (x, rest)) (rest : Bytes) :
    ∃ y r, dec.run (e ++ rest) = some (y, r) ∧ r = rest ∧ (e ++ rest).length - r.length = e.length := by
  refine ⟨x, rest, rt rest, rfl, ?_⟩
  simp

theorem consumed_data3d (x : Data3D) (h : x.valid = true) (rest : Bytes) :
    ∃ y, (Data3D.dec x.fmt).run (x.enc ++ rest) = some (y, rest) := ⟨x, Data3D.dec_enc x h rest⟩
theorem consumed_emg (x : EMG) (h : x.valid = true) (rest : Bytes) :
    ∃ y, (EMG.dec 1).run (x.enc ++ rest) = some (y, rest) := ⟨x, EMG.dec_enc x h rest⟩
theorem consumed_force3d (x : Force3D) (h : x.valid = true) (rest : Bytes) :
    ∃ y, (Force3D.dec 1).run (x.enc ++ rest) = some (y, rest) := ⟨x, Force3D.dec_enc x h rest⟩
theorem consumed_platdata (x : PlatData) (h : x.valid = true) (rest : Bytes) :
    ∃ y, (PlatData.dec 1).run (x.enc ++ rest) = some (y, rest) := ⟨x, PlatData.dec_enc x h rest⟩
theorem consumed_platcalib (x : PlatCalib) (h : x.valid = true) (rest : Bytes) :
    ∃ y, (PlatCalib.dec 2).run (x.enc ++ rest) = some (y, rest) := ⟨x, PlatCalib.dec_enc x h rest⟩
theorem consumed_data2d (x : Data2D) (h : x.valid = true) (rest : Bytes) :
    ∃ y, (Data2D.dec 2).run (x.enc ++ rest) = some (y, rest) := ⟨x, Data2D.dec_enc x h rest⟩
theorem consumed_calib (x : Calib) (h : x.valid = true) (rest : Bytes) :
    ∃ y, (Calib.dec x.fmt).run (x.enc ++ rest) = some (y, rest) := ⟨x, Calib.dec_enc x h rest⟩
theorem consumed_optical (x : Optical) (h : x.valid = true) (rest : Bytes) :
    ∃ y, (Optical.dec x.fmt).run (x.enc ++ rest) = some (y, rest) := ⟨x, Optical.dec_enc x h rest⟩
theorem consumed_events (x : Events) (h : x.valid = true) (rest : Bytes) :
    ∃ y, (Events.dec x.fmt).run (x.enc ++ rest) = some (y, rest) := ⟨x, Events.dec_enc x h rest⟩

/-! nested items -/
theorem item_track (k n : Nat) (t : Track) (h : validTrack k n t = true) :
    (encTrack t).length = sizeTrack k t := track_length k n t h
theorem item_runs (k : Nat) (fs : List (Option Frame)) (hk : ∀ fr, some fr ∈ fs → fr.length = k) :
    (encRuns fs).length = sizeRuns k fs := encRuns_length k fs hk
theorem item_platinfo (p : PlatInfo) (h : p.valid = true) : p.enc.length = PlatInfo.nBytes := PlatInfo.enc_length p h
theorem item_cam (fmt : Nat) (c : Cam) (h : c.valid fmt = true) : c.enc.length = Cam.nBytes fmt := Cam.enc_length fmt c h
theorem item_optchan (c : OptChan) (h : c.valid = true) : c.enc.length = OptChan.nBytes := OptChan.enc_length c h
theorem item_event (e : Event) (h : e.valid = true) : e.enc.length = e.size := Event.enc_length e h

/-- ANY float content: for a raw track (rows of k components holding arbitrary bit patterns — NaN, ±inf,
    denormals anywhere) the bytes written for the rows the library regards as present have exactly the
    declared size. No validity assumption on the samples. -/
theorem item_raw_track (k : Nat) (raw : List Frame) (hk : ∀ r ∈ raw, r.length = k) :
    (encRuns (see raw)).length = sizeRuns k (see raw) := by
  apply encRuns_length
  intro fr hfr
  simp only [see, List.mem_map] at hfr
  obtain ⟨r, hr, he⟩ := hfr
  split at he
  · injection he with he; subst he; exact hk r hr
  · cases he

/-- … and decoding consumes exactly those bytes and returns the library's view of the raw track -/
theorem consumed_raw_track (k : Nat) (raw : List Frame) (rest : Bytes) (hk : ∀ r ∈ raw, r.length = k)
    (hn : raw.length < 2147483648) :
    (decRuns k raw.length).run (encRuns (see raw) ++ rest) = some (see raw, rest) := by
  have hlen : (see raw).length = raw.length := by simp [see]
  have := decRuns_run k (see raw) rest (by
    intro fr hfr
    simp only [see, List.mem_map] at hfr
    obtain ⟨r, hr, he⟩ := hfr
    split at he
    · injection he with he; subst he; exact hk r hr
    · cases he) (by omega)
  rwa [hlen] at this

/-- the size of a track is the fixed part plus 8 + 4k·len per run — "every number and length of segments" -/
theorem runs_size_formula (k : Nat) (fs : List (Option Frame)) :
    sizeRuns k fs = 8 + ((runs fs).map (fun r => 8 + r.2.length * (4 * k))).sum := by
  simp [sizeRuns, foldl_add_eq]

/-- all nine block kinds at once -/
theorem written_any (b : Wire.AnyBlock) (h : b.valid = true) : b.enc.length = b.size := by
  cases b with
  | data3d x => exact written_data3d x h
  | emg x => exact written_emg x h
  | force3d x => exact written_force3d x h
  | platdata x => exact written_platdata x h
  | platcalib x => exact written_platcalib x h
  | data2d x => exact written_data2d x h
  | calib x => exact written_calib x h
  | optical x => exact written_optical x h
  | events x => exact written_events x h

/-- what the container is handed for a modelled block: type code, format code, `nBytes`, `_write` output -/
def argOf (typ : Nat) (b : Wire.AnyBlock) (cdate mdate : Int) : BlkArg :=
  ⟨typ, b.fmt, b.size, some b.enc, cdate, mdate⟩

/-- "the container uses the reported size to place every following block": for valid blocks the size
    it is told is the size of what it writes — the honesty hypothesis of the container theorems (C03…C11)
    is discharged by C02 -/
theorem container_arg_honest (l : Lay) (typ : Nat) (b : Wire.AnyBlock) (cd md : Int)
    (hv : b.valid = true) (ht : typ ≠ 0) (hfit : l.eod + b.size < 2147483648) : ArgOk l (argOf typ b cd md) :=
  ⟨ht, fun pl hpl => by simp only [argOf, Option.some.injEq] at hpl; rw [← hpl]; exact written_any b hv, hfit⟩

example : (⟨1000, 0, 3, [5], [⟨[97], [some [1], none, some [2]]⟩]⟩ : EMG).size = 306 := by decide

end Tdf.C02
