/-
  C05 — Missing-data gaps survive storage exactly; gap frames always read as NaN.
  `runs` ≙ masked_invalid + clump_unmasked on the presence component; `fill` ≙ the decoder's loop
  of slice assignments into a buffer pre-filled with "missing". All theorems hold for every frame
  count n and all 2^n presence masks at once (induction on the frame list), and for any sample type.
-/
import TdfProofs.Lemmas.Rle
import TdfProofs.Lemmas.Blocks
namespace Tdf.C05

variable {α : Type}

/-- the runs written are non-empty, in increasing order, non-overlapping, maximal (no two touch:
    the next run starts at least one frame after the previous one ends) and inside the frame range -/
theorem runs_canonical (fs : List (Option α)) :
    canonicalFrom 0 fs.length (segTable (runs fs)) = true := Tdf.runs_canonical fs

/-- what `canonicalFrom` means, spelled out -/
theorem canonical_meaning (lo n s len : Nat) (rest : List (Nat × Nat))
    (h : canonicalFrom lo n ((s, len) :: rest) = true) :
    lo ≤ s ∧ 0 < len ∧ s + len ≤ n ∧ canonicalFrom (s + len + 1) n rest = true := by
  simpa [canonicalFrom, and_assoc] using h

/-- they cover exactly the present frames and carry their values: frame j is inside a run, with
    value a, iff frame j is present with value a -/
theorem runs_cover (fs : List (Option α)) (j : Nat) :
    lookupRuns (runs fs) j = (fs[j]?).join := lookup_runs fs j

/-- decoding the runs into a buffer pre-filled with "missing" restores every frame: frames outside
    the runs are missing, frames inside carry the stored value -/
theorem fill_runs (fs : List (Option α)) :
    fill (runs fs) (List.replicate fs.length none) = some fs := Tdf.fill_runs fs

/-- the same through the byte level, for k float32 components per frame (k = 3, 1, 9, 6) -/
theorem bytes_roundtrip (k : Nat) (fs : List (Option Frame)) (rest : Bytes)
    (hk : ∀ fr, some fr ∈ fs → fr.length = k) (hn : fs.length < 2147483648) :
    (decRuns k fs.length).run (encRuns fs ++ rest) = some (fs, rest) := decRuns_run k fs rest hk hn

/-- a gap frame decodes as missing (NaN in every component), a present frame as its stored bits -/
theorem gap_is_missing (k : Nat) (fs : List (Option Frame)) (rest : Bytes)
    (hk : ∀ fr, some fr ∈ fs → fr.length = k) (hn : fs.length < 2147483648) (j : Nat) (hj : j < fs.length) :
    ∃ out, (decRuns k fs.length).run (encRuns fs ++ rest) = some (out, rest) ∧ out[j]? = some (fs[j]'hj) := by
  exact ⟨fs, decRuns_run k fs rest hk hn, by simp [List.getElem?_eq_getElem hj]⟩

/-- the presence rule of the library on raw rows: frame j is inside a written run iff the FIRST component
    of row j is finite; every other row — NaN or ±inf there, whatever the other components hold — is
    outside the runs and reads back as missing -/
theorem raw_rows_cover (raw : List Frame) (j : Nat) (hj : j < raw.length) :
    lookupRuns (runs (see raw)) j = (if rowPresent (raw[j]'hj) then some (raw[j]'hj) else none) := by
  rw [runs_cover]
  simp only [see, List.getElem?_map, List.getElem?_eq_getElem hj, Option.map_some, Option.join_some]

theorem raw_rows_table_canonical (raw : List Frame) :
    canonicalFrom 0 raw.length (segTable (runs (see raw))) = true := by
  have := runs_canonical (see raw)
  simpa [see] using this

/-- a row whose first component is NaN or ±inf is not stored: +inf = 0x7F800000, −inf = 0xFF800000,
    the canonical NaN = 0x7FC00000 -/
example : rowPresent [0x7F800000, 0, 0] = false ∧ rowPresent [0xFF800000, 0, 0] = false ∧
          rowPresent [0x7FC00000, 0, 0] = false ∧ rowPresent [0x3F800000, 0x7FC00000, 0x7F800000] = true ∧
          rowPresent [0x7F7FFFFF] = true ∧ rowPresent [0x00000001] = true := by decide

/-- identical on every decode of the same bytes: the decoder is a function of the bytes alone -/
theorem deterministic (k n : Nat) (bs : Bytes) (r1 r2 : Option (List (Option Frame) × Bytes))
    (h1 : (decRuns k n).run bs = r1) (h2 : (decRuns k n).run bs = r2) : r1 = r2 := by
  rw [← h1, ← h2]

/-- the number of runs never exceeds ⌈n/2⌉ and every run fits the frame range -/
theorem runs_bounds (fs : List (Option α)) :
    (∀ r ∈ segTable (runs fs), r.1 + r.2 ≤ fs.length) ∧ 2 * (runs fs).length ≤ fs.length + 1 := by
  have := canonicalFrom_bounds 0 fs.length _ (Tdf.runs_canonical fs)
  refine ⟨this.1, ?_⟩
  have h2 := this.2
  simp [segTable] at h2
  omega

example : runs [some 1, none, some 2, some 3, none] = [(0, [1]), (2, [2, 3])] := by decide
example : fill [(0, [1]), (2, [2, 3])] (List.replicate 5 (none : Option Nat)) = some [some 1, none, some 2, some 3, none] := by decide

end Tdf.C05
