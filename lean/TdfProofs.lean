import TdfProofs.Lemmas.Bytes
import TdfProofs.Lemmas.Dec
import TdfProofs.Lemmas.Str
import TdfProofs.Properties.C13
