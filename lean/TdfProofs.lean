import TdfProofs.Lemmas.Bytes
import TdfProofs.Lemmas.Dec
import TdfProofs.Lemmas.Str
import TdfProofs.Properties.C13
import TdfProofs.Lemmas.Rle
import TdfProofs.Lemmas.Blocks
import TdfProofs.Lemmas.RoundTrip
