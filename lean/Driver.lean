/-
  Driver.lean — `tdfdrv`: one s-expression per input line, one per output line.
  Runs the executable definitions of TdfModel so the harness can compare them with /repo.
-/
import TdfModel
open Tdf

def strErrName : StrErr → String
  | .notEncodable => "notEncodable"
  | .tooLong => "tooLong"

def optByte : Option UInt8 → Int
  | some b => b.toNat
  | none => -1

def optNat : Option Nat → Int
  | some b => b
  | none => -1

def handle (cmd : String) (args : List V) : Option V :=
  match cmd, args with
  | "ping", _ => some (.sym "pong")
  -- C13
  | "str.write", [w, s] => do
      let w ← w.nat?; let s ← s.nats?
      match strWrite w s with
      | .ok b => pure (V.ok (.hex b))
      | .error e => pure (V.err (strErrName e))
  | "str.read", [w, b] => do
      let w ← w.nat?; let b ← b.bytes?
      match strRead w b with
      | some s => pure (V.ok (V.ofNats s))
      | none => pure (V.err "raised")
  | "cp.enc.range", [lo, hi] => do
      let lo ← lo.nat?; let hi ← hi.nat?
      pure (V.ofInts ((List.range (hi - lo)).map (fun i => optByte (encCp (lo + i)))))
  | "cp.dec.all", [] =>
      some (V.ofInts ((List.range 256).map (fun i => optNat (decByte (UInt8.ofNat i)))))
  -- blocks (C01 C02 C05 C06 C12)
  | "blk.enc", [.sym kind, v] => do
      let b ← Wire.parseBlock kind v
      pure (V.list [.sym "ok", .hex b.enc, .int b.size, .int (if b.valid then 1 else 0), .int b.fmt])
  | "blk.dec", [.sym kind, fmt, bytes] => do
      let fmt ← fmt.nat?; let bytes ← bytes.bytes?
      let d ← Wire.decoder kind fmt
      match d.runM bytes with
      | some (b, m, _) => pure (V.list [.sym "ok", b.toV, .int m.length, .hex (Wire.maskBytes m)])
      | none => pure (V.err "raised")
  | "blk.eq", [.sym kind, a, b] => do
      let x ← Wire.parseBlock kind a
      let y ← Wire.parseBlock kind b
      let r := match x, y with
        | .data3d p, .data3d q => Data3D.eq p q
        | .emg p, .emg q => EMG.eq p q
        | .force3d p, .force3d q => Force3D.eq p q
        | .platdata p, .platdata q => PlatData.eq p q
        | .platcalib p, .platcalib q => PlatCalib.eq p q
        | .data2d p, .data2d q => Data2D.eq p q
        | .calib p, .calib q => Calib.eq p q
        | .optical p, .optical q => Optical.eq p q
        | .events p, .events q => Events.eq p q
        | _, _ => false
      pure (.int (if r then 1 else 0))
  | "rle.runs", [fs] => do
      let fs ← Wire.frames? fs
      pure (V.list ((runs fs).map (fun r => V.list [.int r.1, .int r.2.length])))
  | "rle.see", [k, raw] => do
      -- raw rows (all components, any bit patterns) -> the library's view, the segment table, written bytes, declared size
      let k ← k.nat?
      let rows ← (← raw.list?).mapM Wire.u32s?
      let fs := see rows
      pure (V.list [Wire.ofFrames fs, V.list ((runs fs).map (fun r => V.list [.int r.1, .int r.2.length])),
                    .int (encRuns fs).length, .int (sizeRuns k fs)])
  | "rle.canon", [n, tbl] => do
      let n ← n.nat?
      let tbl ← (← tbl.list?).mapM Wire.pair?
      pure (.int (if canonicalFrom 0 n tbl then 1 else 0))
  | _, _ => none

/-! container commands: the driver carries one open file -/
def errName : Err → String
  | .duplicate => "duplicate" | .full => "full" | .notEncodable => "notEncodable" | .badEntry => "badEntry"
  | .absent => "absent" | .hole => "hole" | .permission => "permission"

def outV : Outcome → V
  | .ok => .list [.sym "ok"]
  | .err e => V.err (errName e)

def entryV (e : Entry) : V :=
  .list [.int e.typ, .int e.fmt, .int e.off, .int e.size, .int e.cdate, .int e.mdate, .int e.adate, V.ofNats e.comment]

def optPayload : V → Option (Option Bytes)
  | .sym "none" => some none
  | .hex b => some (some b)
  | _ => none

def optStr : V → Option (Option Str)
  | .sym "none" => some none
  | v => (v.nats?).map some

def blkArg? : List V → Option BlkArg
  | [typ, fmt, size, pl, cd, md] => do
    some ⟨← typ.nat?, ← fmt.nat?, ← size.nat?, ← optPayload pl, ← cd.int?, ← md.int?⟩
  | _ => none

def fileCheck (file : Bytes) : V :=
  match decTable.runM file with
  | none => V.err "unreadable"
  | some ((h, es), m, _) =>
    .list [.sym "ok", .int (if wfB file then 1 else 0), .int (if compactB file then 1 else 0),
           .int (if typesNodupB file then 1 else 0),
           .list [.int h.version, .int h.nEntries, .int h.cdate, .int h.mdate, .int h.adate],
           .list (es.map entryV), .hex (Wire.maskBytes m)]

def handleSt (st : Option TdfSt) (cmd : String) (args : List V) : Option (Option TdfSt × V) :=
  match cmd, args with
  | "tdf.load", [b] => do
      let b ← b.bytes?
      match openFile b with
      | some s => pure (some s, V.list [.sym "ok", .int s.nEntries])
      | none => pure (none, V.err "unreadable")
  | "tdf.add", [blk, comment, now] => do
      let s ← st; let b ← blkArg? (← blk.list?); let c ← comment.nats?; let now ← now.int?
      let (s', o) := addBlock s b c now
      pure (some s', outV o)
  | "tdf.remove", [t, now] => do
      let s ← st; let t ← t.nat?; let now ← now.int?
      let (s', o) := removeBlock s t now
      pure (some s', outV o)
  | "tdf.replace", [blk, comment, now] => do
      let s ← st; let b ← blkArg? (← blk.list?); let c ← optStr comment; let now ← now.int?
      let (s', o) := replaceBlock s b c now
      pure (some s', outV o)
  | "tdf.set", [blk, now] => do
      let s ← st; let b ← blkArg? (← blk.list?); let now ← now.int?
      let (s', o) := setBlock s b now
      pure (some s', outV o)
  | "tdf.reopen", [] => do
      let s ← st
      let (s', o) := step s .reopen
      pure (some s', outV o)
  | "tdf.getall", [] => do
      let s ← st
      let live := liveOf s.entries
      pure (st, V.list (live.map (fun e =>
        match getBlock s e.typ with
        | some b => V.list [.int e.typ, b.toV]
        | none => V.list [.int e.typ, .sym "none"])))
  | "tdf.state", [] => do
      let s ← st
      pure (st, V.list [.sym "ok", .hex s.view, .int (if s.disk == s.view then 1 else 0), .list (s.entries.map entryV),
                        .int s.nEntries, .int (lenLive s)])
  | _, _ => none

/-- mode machine commands (C08): `(mode.init #file)`, `(mode.op allow|enter|exit)`, `(mode.read 0|1)`,
    `(mode.mut (tdf.add …))`; each answers `(raised? disk-changed? handle inCtx mode)` -/
def opOf (cmd : String) (args : List V) : Option Op :=
  match cmd, args with
  | "tdf.add", [blk, comment, now] => do
      pure (.add (← blkArg? (← blk.list?)) (← comment.nats?) (← now.int?))
  | "tdf.remove", [t, now] => do pure (.remove (← t.nat?) (← now.int?))
  | "tdf.replace", [blk, comment, now] => do
      pure (.replace (← blkArg? (← blk.list?)) (← optStr comment) (← now.int?))
  | "tdf.set", [blk, now] => do pure (.set (← blkArg? (← blk.list?)) (← now.int?))
  | _, _ => none

def mstV (before : MSt) (r : MSt × Bool) : V :=
  .list [.int (if r.2 then 1 else 0), .int (if r.1.disk == before.disk then 0 else 1),
         .int (match r.1.handle with | none => -1 | some false => 0 | some true => 1),
         .int (if r.1.inCtx then 1 else 0), .int (if r.1.mode then 1 else 0), .hex r.1.disk]

def handleMode (ms : Option MSt) (cmd : String) (args : List V) : Option (Option MSt × V) :=
  match cmd, args with
  | "mode.init", [.hex b] => some (some (MSt.init b), .list [.sym "ok"])
  | "mode.op", [.sym "allow"] => do let s ← ms; let r := mstep s .allowWrite; pure (some r.1, mstV s r)
  | "mode.op", [.sym "enter"] => do let s ← ms; let r := mstep s .enter; pure (some r.1, mstV s r)
  | "mode.op", [.sym "exit"] => do let s ← ms; let r := mstep s .exit; pure (some r.1, mstV s r)
  | "mode.op", [.sym "enter-interrupted"] => do let s ← ms; let r := mstep s .enterInterrupted; pure (some r.1, mstV s r)
  | "mode.read", [.int i, .int n] => do let s ← ms; let r := mstep s (.read (i != 0) (n != 0)); pure (some r.1, mstV s r)
  | "mode.mut", [.list (.sym c :: a), .int i] => do
      let s ← ms; let op ← opOf c a
      let r := mstep s (.mutate op (i != 0)); pure (some r.1, mstV s r)
  | _, _ => none

structure DrvSt where
  tdf : Option TdfSt := none
  mode : Option MSt := none

def handleLine (st0 : DrvSt) (line : String) : DrvSt × String :=
  let st := st0.tdf
  let wrap (p : Option TdfSt × String) : DrvSt × String := ({ st0 with tdf := p.1 }, p.2)
  match V.parse line with
  | some (.list (.sym cmd :: args)) =>
    if cmd.startsWith "mode." then
      match handleMode st0.mode cmd args with
      | some (m', v) => ({ st0 with mode := m' }, v.render)
      | none => (st0, "(bad-op)")
    else wrap <|
    if cmd.startsWith "tdf." then
      match handleSt st cmd args with
      | some (st', v) => (st', v.render)
      | none => (st, "(bad-op)")
    else match cmd, args with
      | "file.check", [.hex b] => (st, (fileCheck b).render)
      | "entry.enc", [.list [t, f, o, sz, cd, md, ad, cm]] =>
        let r := do
          let e : Entry := ⟨← t.nat?, ← f.nat?, ← o.int?, ← sz.int?, ← cd.int?, ← md.int?, ← ad.int?, ← cm.nats?⟩
          pure (V.list [.sym "ok", .hex e.enc, .int (if e.valid then 1 else 0)])
        (st, match r with | some v => v.render | none => "(bad-op)")
      | "entry.dec", [.hex b] =>
        (st, match Entry.dec.runM b with
          | some (e, m, _) => (V.list [.sym "ok", entryV e, .hex (Wire.maskBytes m)]).render
          | none => (V.err "raised").render)
      | "header.dec", [.hex b] =>
        (st, match Header.dec.runM b with
          | some (h, m, _) => (V.list [.sym "ok", .list [.int h.version, .int h.nEntries, .int h.cdate, .int h.mdate, .int h.adate],
                                       .hex (Wire.maskBytes m)]).render
          | none => (V.err "raised").render)
      | "file.new", [.int now] => (st, (V.hex (newFile now)).render)
      | "cm.run", [start, .list edits] =>
        let optInt : V → Option (Option Int)
          | .sym "none" => some none
          | v => (v.int?).map some
        let itc : V → Option (Nat × Option Int)
          | .list [it, c] => do pure (← it.nat?, ← optInt c)
          | _ => none
        let out (r : CM × Bool) : V := .list [.int (if r.2 then 1 else 0), V.ofInts r.1.chans, V.ofNats r.1.items]
        let r : Option (List V) := do
          let s0 ← match start with
            | .list [.sym "empty"] => some CM.empty
            | .list [.sym "construct", items] => do pure (CM.construct (← items.nats?))
            | .list [.sym "decode", ch, items] => CM.decode (← ch.ints?) (← items.nats?)
            | _ => none
          let rec goCm (s : CM) : List V → Option (List V)
            | [] => some []
            | e :: rest => do
              let r ← match e with
                | .list [.sym "add", it, c] => do pure (s.add (← it.nat?) (← optInt c))
                | .list [.sym "removeFirst", ids] => do
                    let ids ← ids.nats?
                    pure (s.removeFirst (fun x => ids.contains x))
                | .list [.sym "removeIndex", i] => do pure (s.removeIndex (← i.int?))
                | .list [.sym "addMany", l] => do pure (s.addMany (← (← l.list?).mapM itc))
                | .list [.sym "removeMany", is] => do pure (s.removeMany (← is.ints?))
                | .list [.sym "assignPairs", ps] => do
                    let ps ← (← ps.list?).mapM (fun p => match p with
                      | .list [c, it] => do pure ((← c.int?), (← it.nat?))
                      | _ => none)
                    pure (CM.assignPairs ps)
                | .list [.sym "assignItems", items, bad] => do pure (s.assignItems (← items.nats?) ((← bad.nat?) != 0))
                | _ => none
              let tl ← goCm r.1 rest
              pure (out r :: tl)
          let tl ← goCm s0 edits
          pure (out (s0, false) :: tl)
        (st, match r with | some vs => (V.list vs).render | none => (V.err "refused").render)
      | "tb.run", [n, .list calls] =>
        -- calls: (add (t id frames)|other) | (assign (offered…) boom|none); answers per call (raised (ids…))
        let off : V → Option Offered
          | .list [.sym "t", id, f] => do pure (.track (← id.nat?) (← f.nat?))
          | .sym "other" => some .other
          | _ => none
        let r : Option (List V) := do
          let n ← n.nat?
          let rec goTb (b : TB) : List V → Option (List V)
            | [] => some []
            | c :: rest => do
              let (b', raised) ← match c with
                | .list [.sym "add", o] => do
                    let r := b.addTrack (← off o)
                    pure (r.1, r.2 != .ok)
                | .list [.sym "assign", .list os, boom] => do
                    let os ← os.mapM off
                    let bm ← match boom with | .sym "none" => some none | v => (v.nat?).map some
                    pure (b.assign os bm)
                | _ => none
              let tl ← goTb b' rest
              pure (V.list [.int (if raised then 1 else 0), V.ofNats (b'.tracks.map (·.1))] :: tl)
          goTb ⟨n, []⟩ calls
        (st, match r with | some vs => (V.list vs).render | none => "(bad-op)")
      | "lk.run", [labels, .list keys] =>
        let r : Option (List V) := do
          let labels ← labels.nats?
          keys.mapM (fun k => do
            let key ← match k with
              | .list [.sym "idx", i] => do pure (Key.idx (← i.int?))
              | .list [.sym "label", l] => do pure (Key.label (← l.nat?))
              | .list [.sym "item", p] => do pure (Key.item (← p.nat?))
              | .sym "other" => some Key.other
              | _ => none
            -- `key in block`: 1 / 0, or -2 for TypeError
            let cont : V := match memberOf labels key with | .yes => .int 1 | .no => .int 0 | .typeError => .int (-2)
            pure (match getItem labels key with
              | .item p => V.list [.sym "item", .int p, cont]
              | .indexError => V.list [.sym "IndexError", cont]
              | .keyError => V.list [.sym "KeyError", cont]
              | .typeError => V.list [.sym "TypeError", cont]))
        (st, match r with | some vs => (V.list vs).render | none => "(bad-op)")
      | "shape.accepts", [.list queries] =>
        -- query: (shape (req…) arg) | (vec2 arg) | (viewport arg) | (coupled a b c) | (event single (sized n)|notIterable)
        let arg : V → Option Arg
          | .list [.sym "nd", s] => do pure (.ndarray (← s.nats?))
          | .list [.sym "list", n] => do pure (.list (← n.nat?))
          | .list [.sym "tuple", n] => do pure (.tuple (← n.nat?))
          | .sym "vp" => some .viewport
          | .sym "other" => some .other
          | _ => none
        let r : Option (List V) := queries.mapM (fun q => do
          let b ← match q with
            | .list [.sym "shape", req, a] => do pure (acceptsShape (← req.nats?) (← arg a))
            | .list [.sym "all", .list reqs, .list as] => do pure (acceptsAll (← reqs.mapM (·.nats?)) (← as.mapM arg))
            | .list [.sym "vec2", a] => do pure (acceptsVec2 (← arg a))
            | .list [.sym "viewport", a] => do pure (acceptsViewport (← arg a))
            | .list [.sym "coupled", a, b, c] => do pure (acceptsCoupled (← arg a) (← arg b) (← arg c))
            | .list [.sym "event", s, .list [.sym "sized", n]] => do pure (acceptsEvent ((← s.nat?) != 0) (.sized (← n.nat?)))
            | .list [.sym "event", s, .sym "notIterable"] => do pure (acceptsEvent ((← s.nat?) != 0) .notIterable)
            | _ => none
          pure (V.int (if b then 1 else 0)))
        (st, match r with | some vs => (V.list vs).render | none => "(bad-op)")
      | "store.run", [.list ops] =>
        let r : Option (List V) := do
          let rec goSt (s : Store) : List V → Option (List V)
            | [] => some []
            | o :: rest => do
              let op ← match o with
                | .list [.sym "construct", .sym "none"] => some (SOp.construct none)
                | .list [.sym "construct", items] => do pure (SOp.construct (some (← items.nats?)))
                | .list [.sym "decode", items] => do pure (SOp.decode (← items.nats?))
                | .list [.sym "add", i, it] => do pure (SOp.add (← i.nat?) (← it.nat?))
                | .list [.sym "remove", i, k] => do pure (SOp.remove (← i.nat?) (← k.nat?))
                | .list [.sym "edit", i, k] => do pure (SOp.edit (← i.nat?) (← k.nat?))
                | .list [.sym "assign", i, items] => do pure (SOp.assign (← i.nat?) (← items.nats?))
                | _ => none
              let r := s.step op
              let tl ← goSt r.1 rest
              -- per instance: the item ids, then the content version of each item
              pure (V.list (r.1.cells.map (fun c => V.list [V.ofNats c, V.ofNats (c.map r.1.ver)])) :: tl)
          goSt Store.empty ops
        (st, match r with | some vs => (V.list vs).render | none => "(bad-op)")
      | "fs.run", [.list nodes, .list ops] =>
        -- nodes: ((path kind #bytes) …) with kind file|dir ; ops: (new p now) | (copy src dst) | (open p)
        let mk : V → Option (Nat × Node)
          | .list [p, .sym "file", .hex b] => do pure (← p.nat?, Node.file b)
          | .list [p, .sym "dir"] => do pure (← p.nat?, Node.dir)
          | _ => none
        let outName : FsOut → String
          | .ok => "ok" | .fileExists => "FileExistsError" | .notFound => "FileNotFoundError" | .invalid => "invalid" | .isDir => "isDir"
        let r : Option (List V) := do
          let fs0 ← nodes.mapM mk
          let rec go (fs : Fs) : List V → Option (List V)
            | [] => some []
            | .list [.sym "new", p, now] :: rest => do
                let r := fsNew fs (← p.nat?) (← now.int?)
                let tl ← go r.1 rest
                pure (.sym (outName r.2) :: tl)
            | .list [.sym "copy", a, b] :: rest => do
                let r := fsCopy fs (← a.nat?) (← b.nat?)
                let tl ← go r.1 rest
                pure (.sym (outName r.2) :: tl)
            | .list [.sym "open", p] :: rest => do
                let o := match fsOpen fs (← p.nat?) with | .ok _ => "ok" | .error e => outName e
                let tl ← go fs rest
                pure (.sym o :: tl)
            | .list [.sym "get", p] :: rest => do
                let v : V := match fs.get (← p.nat?) with | some (.file b) => .hex b | some .dir => .sym "dir" | none => .sym "absent"
                let tl ← go fs rest
                pure (v :: tl)
            | _ => none
          go fs0 ops
        (st, match r with | some vs => (V.list vs).render | none => "(bad-op)")
      | "world.run", [.list nodes, .list ops] =>
        -- long-lived objects (C17): ops (put p #b) (del p) (mkdir p) (construct o p) (enter o) (new p now) (copy o dst) (get p)
        let mk : V → Option (Nat × Node)
          | .list [p, .sym "file", .hex b] => do pure (← p.nat?, Node.file b)
          | .list [p, .sym "dir"] => do pure (← p.nat?, Node.dir)
          | _ => none
        let outName : FsOut → String
          | .ok => "ok" | .fileExists => "FileExistsError" | .notFound => "FileNotFoundError" | .invalid => "invalid" | .isDir => "isDir"
        let r : Option (List V) := do
          let fs0 ← nodes.mapM mk
          let rec goW (w : World) : List V → Option (List V)
            | [] => some []
            | .list [.sym "get", p] :: rest => do
                let v : V := match w.fs.get (← p.nat?) with | some (.file b) => .hex b | some .dir => .sym "dir" | none => .sym "absent"
                let tl ← goW w rest
                pure (v :: tl)
            | o :: rest => do
                let op ← match o with
                  | .list [.sym "put", p, .hex b] => do pure (WOp.put (← p.nat?) b)
                  | .list [.sym "del", p] => do pure (WOp.del (← p.nat?))
                  | .list [.sym "mkdir", p] => do pure (WOp.mkdir (← p.nat?))
                  | .list [.sym "construct", ob, p] => do pure (WOp.construct (← ob.nat?) (← p.nat?))
                  | .list [.sym "enter", ob] => do pure (WOp.enter (← ob.nat?))
                  | .list [.sym "new", p, now] => do pure (WOp.new (← p.nat?) (← now.int?))
                  | .list [.sym "copy", ob, d] => do pure (WOp.copy (← ob.nat?) (← d.nat?))
                  | _ => none
                let r := w.step op
                let tl ← goW r.1 rest
                pure (.sym (outName r.2) :: tl)
          goW { fs := fs0 } ops
        (st, match r with | some vs => (V.list vs).render | none => "(bad-op)")
      | _, _ =>
        match handle cmd args with
        | some v => (st, v.render)
        | none => (st, "(bad-op)")
  | _ => (st0, "(bad-parse)")

partial def loop (hin hout : IO.FS.Stream) (st : DrvSt) : IO Unit := do
  let line ← hin.getLine
  if line.isEmpty then return ()
  let (st', out) := handleLine st line
  hout.putStrLn out
  hout.flush
  loop hin hout st'

def main : IO Unit := do
  loop (← IO.getStdin) (← IO.getStdout) {}
