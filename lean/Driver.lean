/-
  Driver.lean — `tdfdrv`: one s-expression per input line, one per output line.
  Runs the executable definitions of TdfModel so the harness can compare them with /repo.
-/
import TdfModel
open Tdf

def strErrName : StrErr → String
  | .notEncodable => "notEncodable"
  | .tooLong => "tooLong"

def optByte : Option UInt8 → Int
  | some b => b.toNat
  | none => -1

def optNat : Option Nat → Int
  | some b => b
  | none => -1

def handle (cmd : String) (args : List V) : Option V :=
  match cmd, args with
  | "ping", _ => some (.sym "pong")
  -- C13
  | "str.write", [w, s] => do
      let w ← w.nat?; let s ← s.nats?
      match strWrite w s with
      | .ok b => pure (V.ok (.hex b))
      | .error e => pure (V.err (strErrName e))
  | "str.read", [w, b] => do
      let w ← w.nat?; let b ← b.bytes?
      match strRead w b with
      | some s => pure (V.ok (V.ofNats s))
      | none => pure (V.err "raised")
  | "cp.enc.range", [lo, hi] => do
      let lo ← lo.nat?; let hi ← hi.nat?
      pure (V.ofInts ((List.range (hi - lo)).map (fun i => optByte (encCp (lo + i)))))
  | "cp.dec.all", [] =>
      some (V.ofInts ((List.range 256).map (fun i => optNat (decByte (UInt8.ofNat i)))))
  -- blocks (C01 C02 C05 C06 C12)
  | "blk.enc", [.sym kind, v] => do
      let b ← Wire.parseBlock kind v
      pure (V.list [.sym "ok", .hex b.enc, .int b.size, .int (if b.valid then 1 else 0), .int b.fmt])
  | "blk.dec", [.sym kind, fmt, bytes] => do
      let fmt ← fmt.nat?; let bytes ← bytes.bytes?
      let d ← Wire.decoder kind fmt
      match d.runM bytes with
      | some (b, m, _) => pure (V.list [.sym "ok", b.toV, .int m.length, .hex (Wire.maskBytes m)])
      | none => pure (V.err "raised")
  | "rle.runs", [fs] => do
      let fs ← Wire.frames? fs
      pure (V.list ((runs fs).map (fun r => V.list [.int r.1, .int r.2.length])))
  | "rle.canon", [n, tbl] => do
      let n ← n.nat?
      let tbl ← (← tbl.list?).mapM Wire.pair?
      pure (.int (if canonicalFrom 0 n tbl then 1 else 0))
  | _, _ => none

def handleLine (line : String) : String :=
  match V.parse line with
  | some (.list (.sym cmd :: args)) =>
    match handle cmd args with
    | some v => v.render
    | none => "(bad-op)"
  | _ => "(bad-parse)"

partial def loop (hin hout : IO.FS.Stream) : IO Unit := do
  let line ← hin.getLine
  if line.isEmpty then return ()
  hout.putStrLn (handleLine line)
  hout.flush
  loop hin hout

def main : IO Unit := do
  loop (← IO.getStdin) (← IO.getStdout)
