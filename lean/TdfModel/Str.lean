/-
  Str.lean — fixed-width NUL-terminated cp1252 text fields.
  Models BTSString.write / BTSString.read (tdfTypes.py:42-69), same order of checks:
  encode first (an unencodable over-long string is reported as unencodable), then the length check.
-/
import TdfModel.Cp1252
import TdfModel.Dec
namespace Tdf

inductive StrErr where
  | notEncodable   -- UnicodeEncodeError (a ValueError)
  | tooLong        -- ValueError
  deriving Repr, DecidableEq

def strWrite (w : Nat) (s : List Nat) : Except StrErr Bytes :=
  match encStr s with
  | none => .error .notEncodable
  | some e =>
    if e.length + 1 > w then .error .tooLong
    else .ok (e ++ 0 :: zeros (w - (e.length + 1)))

/-- `BTSString.read(w, data)`; `none` = struct.error (wrong length) or UnicodeDecodeError -/
def strRead (w : Nat) (bs : Bytes) : Option (List Nat) :=
  if bs.length ≠ w then none else decStr (D.cutNul bs)

/-- `BTSString.bread(stream, w)` as a decoder program -/
def D.text (w : Nat) : D (List Nat) :=
  .str w (fun b => match decStr b with | some s => .pure s | none => .fail)

/-- writer used by every encoder: total on valid strings, empty otherwise (validity is checked
    separately by `strOk`) -/
def strBytes (w : Nat) (s : List Nat) : Bytes :=
  match strWrite w s with
  | .ok b => b
  | .error _ => []

def strOk (w : Nat) (s : List Nat) : Bool :=
  match strWrite w s with
  | .ok _ => !(s.contains 0)
  | .error _ => false

end Tdf
