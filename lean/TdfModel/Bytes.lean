/-
  Bytes.lean — byte strings, little-endian integers, in-place file writes.
  Models: numpy `<u2/<u4/<i2/<i4` dtype <-> bytes (tdfTypes.py:96-161, 183-194),
          `file.seek(o); file.write(b)`, `file.truncate()` of CPython binary files.
  Core Lean only (no Mathlib) so that the driver links natively.
-/
namespace Tdf

abbrev Bytes := List UInt8

/-- `k` bytes, little endian, of `n` (reduced mod 256^k) — `np.array(n, '<uK').tobytes()` -/
def leBytes : Nat → Nat → Bytes
  | 0, _ => []
  | k+1, n => UInt8.ofNat (n % 256) :: leBytes k (n / 256)

/-- little-endian value of a byte string — `np.frombuffer(b, '<uK')[0]` -/
def leNat : Bytes → Nat
  | [] => 0
  | b :: bs => b.toNat + 256 * leNat bs

def u16le (n : Nat) : Bytes := leBytes 2 n
def u32le (n : Nat) : Bytes := leBytes 4 n
def u64le (n : Nat) : Bytes := leBytes 8 n

/-- two's complement: Int in [-2^(8k-1), 2^(8k-1)) -> Nat in [0, 256^k) -/
def toTwos (k : Nat) (z : Int) : Nat := (z % (256 ^ k : Nat)).toNat
def ofTwos (k : Nat) (n : Nat) : Int :=
  if 2 * n < 256 ^ k then (n : Int) else (n : Int) - (256 ^ k : Nat)

def i16le (z : Int) : Bytes := leBytes 2 (toTwos 2 z)
def i32le (z : Int) : Bytes := leBytes 4 (toTwos 4 z)

def zeros (n : Nat) : Bytes := List.replicate n 0

/-- `f.seek(off); f.write(new)` on a file whose content is `disk`:
    overwrite in place, extend at the end, zero-fill a gap past EOF. -/
def writeAt (disk : Bytes) (off : Nat) (new : Bytes) : Bytes :=
  if off ≤ disk.length then
    disk.take off ++ new ++ disk.drop (off + new.length)
  else
    disk ++ zeros (off - disk.length) ++ new

/-- `f.seek(n); f.truncate()` — only ever used to shrink -/
def truncateAt (disk : Bytes) (n : Nat) : Bytes := disk.take n

/-- `f.seek(off); f.read(n)` -/
def readAt (disk : Bytes) (off n : Nat) : Bytes := (disk.drop off).take n

def hexDigit (n : Nat) : Char :=
  if n < 10 then Char.ofNat (48 + n) else Char.ofNat (87 + n)

def toHex (bs : Bytes) : String :=
  String.ofList (bs.foldr (fun b acc => hexDigit (b.toNat / 16) :: hexDigit (b.toNat % 16) :: acc) [])

def hexVal (c : Char) : Option Nat :=
  if '0' ≤ c ∧ c ≤ '9' then some (c.toNat - 48)
  else if 'a' ≤ c ∧ c ≤ 'f' then some (c.toNat - 87)
  else if 'A' ≤ c ∧ c ≤ 'F' then some (c.toNat - 55)
  else none

def ofHexChars : List Char → Option Bytes
  | [] => some []
  | [_] => none
  | a :: b :: rest => do
    let x ← hexVal a
    let y ← hexVal b
    let r ← ofHexChars rest
    pure (UInt8.ofNat (16 * x + y) :: r)

end Tdf
