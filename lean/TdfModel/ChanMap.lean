/-
  ChanMap.lean — the acquisition-channel maps of EMG, force-platform calibration and force-platform
  data blocks: a list of channel numbers kept parallel to the list of items.
  Anchors: tdfEMG.py:212-249, tdfForcePlatformsCalibration.py:83-92,132-219, tdfForcePlatformsData.py:198-237
  and the three decoders that install the map. Items are opaque ids; what an item "is" does not matter
  to the alignment logic (type/length validation of items is C16/C19).
-/
namespace Tdf

structure CM where
  chans : List Int
  items : List Nat
  deriving DecidableEq, Repr

def CM.empty : CM := ⟨[], []⟩
def CM.pairs (s : CM) : List (Int × Nat) := s.chans.zip s.items

/-- `max(map) + 1`, or 0 for an empty map -/
def autoChan : List Int → Int
  | [] => 0
  | c :: cs => cs.foldl max c + 1

def CM.addAuto (s : CM) (it : Nat) : CM := ⟨s.chans ++ [autoChan s.chans], s.items ++ [it]⟩

/-- explicit channel: honoured, or refused (ValueError) when taken — returns (state, raised) -/
def CM.addExplicit (s : CM) (it : Nat) (c : Int) : CM × Bool :=
  if s.chans.contains c then (s, true) else (⟨s.chans ++ [c], s.items ++ [it]⟩, false)

def CM.add (s : CM) (it : Nat) : Option Int → CM × Bool
  | none => (s.addAuto it, false)
  | some c => s.addExplicit it c

/-- `del items[i]; del map[i]` (index already resolved to 0 ≤ i) -/
def CM.removeAt (s : CM) (i : Nat) : CM × Bool :=
  if i < s.items.length then (⟨s.chans.eraseIdx i, s.items.eraseIdx i⟩, false) else (s, true)

/-- remove the first item satisfying `p` (by label for EMG, by value equality for calibration records) -/
def CM.removeFirst (s : CM) (p : Nat → Bool) : CM × Bool :=
  match s.items.findIdx? p with
  | some i => s.removeAt i
  | none => (s, true)

/-- python index semantics of `remove_platform(int)`: `plat >= len` refused, negative counts from the end -/
def CM.removeIndex (s : CM) (i : Int) : CM × Bool :=
  if i ≥ s.items.length then (s, true)
  else if i ≥ 0 then s.removeAt i.toNat
  else if -i ≤ s.items.length then s.removeAt (s.items.length - (-i).toNat)
  else (s, true)

/-- sequential adds; stops at the first refusal (what was added before stays) -/
def CM.addMany (s : CM) : List (Nat × Option Int) → CM × Bool
  | [] => (s, false)
  | (it, c) :: rest =>
    match s.add it c with
    | (s', false) => s'.addMany rest
    | (s', true) => (s', true)

/-- `remove_platforms`: sequential removals, stopping at the first refusal -/
def CM.removeMany (s : CM) : List Int → CM × Bool
  | [] => (s, false)
  | i :: is => match s.removeIndex i with
    | (s', false) => s'.removeMany is
    | (s', true) => (s', true)

/-- constructor given items: every item gets an automatic channel -/
def CM.construct (items : List Nat) : CM := (CM.empty.addMany (items.map (fun it => (it, none)))).1

/-- bulk assignment of (channel, item) pairs: start from empty, add in order -/
def CM.assignPairs (ps : List (Int × Nat)) : CM × Bool := CM.empty.addMany (ps.map (fun p => (p.2, some p.1)))

/-- bulk assignment of items with rollback (platform-data setter): all get automatic channels;
    `bad` = an element of the wrong kind was met, in which case the previous state is restored -/
def CM.assignItems (s : CM) (items : List Nat) (bad : Bool) : CM × Bool :=
  if bad then (s, true) else (CM.construct items, false)

/-- decoders install the map read from the bytes, refusing duplicate channels -/
def CM.decode (chans : List Int) (items : List Nat) : Option CM :=
  (CM.empty.addMany ((items.zip chans).map (fun p => (p.1, some p.2)))).2 |> fun raised =>
    if raised || chans.length != items.length then none
    else some (CM.empty.addMany ((items.zip chans).map (fun p => (p.1, some p.2)))).1

end Tdf
