/-
  Store.lean — instance independence (C20): every constructor / decoder call allocates the containers
  of the new instance; item operations act on that instance's container only; items are objects of
  their own, and editing one in place is seen exactly by the instances that hold that object.
  Anchors: the `self._tracks = []`-style initialisations of every block __init__ and the default
  argument of OpticalSetupBlock.__init__ (tdfOpticalSystem.py:123-135), Event.__init__ copying values,
  the fresh buffers of every track `_build`.
  An instance is the index of its container cell; items are opaque object ids; the content of an
  item is abstracted to the number of in-place edits it has received.
-/
namespace Tdf

structure Store where
  cells : List (List Nat)
  edits : List Nat := []          -- log of edited item ids
  deriving DecidableEq, Repr

inductive SOp where
  | construct (items : Option (List Nat))   -- a constructor call, with or without an explicit item list
  | decode (items : List Nat)               -- a decode call producing these items
  | add (inst : Nat) (item : Nat)
  | remove (inst : Nat) (idx : Nat)
  | edit (inst : Nat) (idx : Nat)           -- in-place edit of the idx-th item of an instance
  | assign (inst : Nat) (items : List Nat)  -- `inst.tracks = <any iterable yielding these items>`: the setter fills a list of
                                            -- the instance's own (tdfData3D.py:261-273, tdfForce3D.py:303-315, platforms setter)
  deriving DecidableEq, Repr

def Store.empty : Store := ⟨[], []⟩
def Store.content (s : Store) (i : Nat) : Option (List Nat) := s.cells[i]?

/-- content version of an item -/
def Store.ver (s : Store) (id : Nat) : Nat := s.edits.count id

/-- what an instance encodes: its items, in order, each with its current content -/
def Store.encoding (s : Store) (i : Nat) : Option (List (Nat × Nat)) :=
  (s.cells[i]?).map (fun c => c.map (fun id => (id, s.ver id)))

def Store.itemAt (s : Store) (i k : Nat) : Option Nat := (s.cells[i]?).bind (·[k]?)

/-- returns the new store and, for allocating calls, the new instance -/
def Store.step (s : Store) : SOp → Store × Option Nat
  | .construct none => ({ s with cells := s.cells ++ [[]] }, some s.cells.length)
  | .construct (some items) => ({ s with cells := s.cells ++ [items] }, some s.cells.length)
  | .decode items => ({ s with cells := s.cells ++ [items] }, some s.cells.length)
  | .add i it => ({ s with cells := s.cells.modify i (· ++ [it]) }, none)
  | .remove i k => ({ s with cells := s.cells.modify i (·.eraseIdx k) }, none)
  | .assign i items => ({ s with cells := s.cells.modify i (fun _ => items) }, none)
  | .edit i k =>
    match s.itemAt i k with
    | some id => ({ s with edits := id :: s.edits }, none)
    | none => (s, none)

def Store.run (s : Store) : List SOp → Store
  | [] => s
  | op :: ops => (s.step op).1.run ops

end Tdf
