/-
  Store.lean — instance independence (C20): every constructor / decoder call allocates the containers
  of the new instance; item operations act on that instance's container only.
  Anchors: the `self._tracks = []`-style initialisations of every block __init__ and the default
  argument of OpticalSetupBlock.__init__ (tdfOpticalSystem.py:123-135), Event.__init__ copying values.
  An instance is the index of its container cell; items are opaque ids.
-/
namespace Tdf

structure Store where
  cells : List (List Nat)
  deriving DecidableEq, Repr

inductive SOp where
  | construct (items : Option (List Nat))   -- a constructor call, with or without an explicit item list
  | decode (items : List Nat)               -- a decode call producing these items
  | add (inst : Nat) (item : Nat)
  | remove (inst : Nat) (idx : Nat)
  deriving DecidableEq, Repr

def Store.empty : Store := ⟨[]⟩
def Store.content (s : Store) (i : Nat) : Option (List Nat) := s.cells[i]?

/-- returns the new store and, for allocating calls, the new instance -/
def Store.step (s : Store) : SOp → Store × Option Nat
  | .construct none => (⟨s.cells ++ [[]]⟩, some s.cells.length)
  | .construct (some items) => (⟨s.cells ++ [items]⟩, some s.cells.length)
  | .decode items => (⟨s.cells ++ [items]⟩, some s.cells.length)
  | .add i it => (⟨s.cells.modify i (· ++ [it])⟩, none)
  | .remove i k => (⟨s.cells.modify i (·.eraseIdx k)⟩, none)

def Store.run (s : Store) : List SOp → Store
  | [] => s
  | op :: ops => (s.step op).1.run ops

end Tdf
