/-
  ReadBack.lean — `Tdf.get_block(type)`: find the entry, seek to its offset, decode with the class
  chosen by the entry's type code and the entry's format code (basictdf.py:35-71, 209-229).
-/
import TdfModel.Container
import TdfModel.Wire
namespace Tdf

def kindOfType : Nat → Option String
  | 2 => some "calib" | 4 => some "data2d" | 5 => some "data3d" | 6 => some "optical" | 7 => some "platcalib"
  | 9 => some "platdata" | 11 => some "emg" | 12 => some "force3d" | 16 => some "events"
  | _ => none

def Wire.AnyBlock.typ : Wire.AnyBlock → Nat
  | .data3d _ => 5 | .emg _ => 11 | .force3d _ => 12 | .platdata _ => 9 | .platcalib _ => 7
  | .data2d _ => 4 | .calib _ => 2 | .optical _ => 6 | .events _ => 16

/-- `none` = the type is absent, undecodable (no decoder for that type code) or the bytes do not decode -/
def getBlock (s : TdfSt) (t : Nat) : Option Wire.AnyBlock :=
  match entryByType s t with
  | none => none
  | some e =>
    match kindOfType e.typ with
    | none => none
    | some k =>
      match Wire.decoder k e.fmt with
      | none => none
      | some d => (d.run (payloadOf s e)).map (·.1)

end Tdf
