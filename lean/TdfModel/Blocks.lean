/-
  Blocks.lean — the nine writable block types: abstract value, validity, encoder (`_write`),
  decoder program (`_build`) and declared size (`nBytes`, mirrored term by term — NOT defined as
  the length of the encoding).
  Anchors: tdfData3D.py, tdfEMG.py, tdfForce3D.py, tdfForcePlatformsData.py,
  tdfForcePlatformsCalibration.py, tdfData2D.py, tdfCalibrationData.py, tdfOpticalSystem.py,
  tdfEvents.py. float samples are bit patterns at their on-disk width (UInt32 / UInt64).
-/
import TdfModel.Str
import TdfModel.Rle
namespace Tdf

abbrev Str := List Nat

def inI16 (z : Int) : Bool := -32768 ≤ z && z < 32768
def inI32 (z : Int) : Bool := -2147483648 ≤ z && z < 2147483648
def encF32s (l : List UInt32) : Bytes := l.flatMap f32le
def encF64s (l : List UInt64) : Bytes := l.flatMap f64le
def encI16s (l : List Int) : Bytes := l.flatMap i16le
def encI32s (l : List Int) : Bytes := l.flatMap i32le
def encU16s (l : List Nat) : Bytes := l.flatMap u16le
def D.f32s (n : Nat) : D (List UInt32) := D.rep n D.f32
def D.f64s (n : Nat) : D (List UInt64) := D.rep n D.f64
def sumBy {α : Type} (f : α → Nat) (l : List α) : Nat := l.foldl (fun acc a => acc + f a) 0
def nodupB {α : Type} [DecidableEq α] : List α → Bool
  | [] => true
  | a :: as => !as.contains a && nodupB as

/-! ## labelled run-length-coded track (marker k=3, EMG k=1, force/torque k=9) -/
structure Track where
  label : Str
  frames : List (Option Frame)
  deriving DecidableEq, Repr

def validFrames (k n : Nat) (fs : List (Option Frame)) : Bool :=
  fs.length == n && fs.all (fun f => match f with | none => true | some fr => fr.length == k)
def validTrack (k n : Nat) (t : Track) : Bool := strOk 256 t.label && validFrames k n t.frames
def encTrack (t : Track) : Bytes := strBytes 256 t.label ++ encRuns t.frames
def decTrack (k n : Nat) : D Track := do
  let label ← D.text 256
  let frames ← decRuns k n
  pure ⟨label, frames⟩
def sizeTrack (k : Nat) (t : Track) : Nat := 256 + sizeRuns k t.frames

/-! ## 3D marker data (type 5) -/
structure Data3D where
  fmt : Nat                 -- 1 = byTrack (with links), 2 = byTrackWithoutLinks
  nFrames : Nat
  freq : Int
  startTime : UInt32
  volume : List UInt32      -- 3
  rot : List UInt32         -- 9
  transl : List UInt32      -- 3
  flag : Nat                -- 0 raw, 1 filtered
  links : List (Nat × Nat)
  tracks : List Track
  deriving DecidableEq, Repr

def Data3D.valid (x : Data3D) : Bool :=
  (x.fmt == 1 || x.fmt == 2) && 1 ≤ x.nFrames && x.nFrames < 2147483648 && inI32 x.freq
  && x.volume.length == 3 && x.rot.length == 9 && x.transl.length == 3 && x.flag ≤ 1
  && (x.fmt == 1 || x.links.isEmpty) && x.links.length < 2147483648
  && x.links.all (fun l => l.1 < 4294967296 && l.2 < 4294967296)
  && x.tracks.length < 4294967296 && x.tracks.all (validTrack 3 x.nFrames)

def encLink (l : Nat × Nat) : Bytes := u32le l.1 ++ u32le l.2
/-- the link table exists only in format 1 -/
def encLinks (fmt : Nat) (links : List (Nat × Nat)) : Bytes :=
  if fmt = 1 then i32le links.length ++ zeros 4 ++ links.flatMap encLink else []
def decLinks (fmt : Nat) : D (List (Nat × Nat)) :=
  if fmt = 1 then do
    let n ← D.nat32
    D.pad 4
    D.rep n (do let a ← D.u32; let b ← D.u32; pure (a, b))
  else pure []
def Data3D.enc (x : Data3D) : Bytes :=
  i32le x.nFrames ++ i32le x.freq ++ f32le x.startTime ++ u32le x.tracks.length
  ++ encF32s x.volume ++ encF32s x.rot ++ encF32s x.transl ++ u32le x.flag
  ++ encLinks x.fmt x.links
  ++ x.tracks.flatMap encTrack

def Data3D.dec (fmt : Nat) : D Data3D := do
  D.guard (fmt == 1 || fmt == 2)
  let nFrames ← D.nat32
  let freq ← D.i32
  let startTime ← D.f32
  let nTracks ← D.u32
  let volume ← D.f32s 3
  let rot ← D.f32s 9
  let transl ← D.f32s 3
  let flag ← D.u32
  D.guard (flag ≤ 1)
  let links ← decLinks fmt
  let tracks ← D.rep nTracks (decTrack 3 nFrames)
  pure ⟨fmt, nFrames, freq, startTime, volume, rot, transl, flag, links, tracks⟩

def Data3D.size (x : Data3D) : Nat :=
  (4 + 4 + 4 + 4 + 12 + 36 + 12 + 4)
  + (if x.fmt = 1 then 4 + 4 + 8 * x.links.length else 0)
  + sumBy (sizeTrack 3) x.tracks

/-! ## EMG (type 11), format 1 = byTrack -/
structure EMG where
  freq : Int
  startTime : UInt32
  nSamples : Nat
  chans : List Int          -- i16 acquisition channels, parallel to `tracks`
  tracks : List Track       -- k = 1
  deriving DecidableEq, Repr

def EMG.valid (x : EMG) : Bool :=
  inI32 x.freq && 1 ≤ x.nSamples && x.nSamples < 2147483648
  && x.chans.length == x.tracks.length && x.tracks.length < 2147483648
  && x.chans.all inI16 && nodupB x.chans && x.tracks.all (validTrack 1 x.nSamples)

def EMG.enc (x : EMG) : Bytes :=
  i32le x.tracks.length ++ i32le x.freq ++ f32le x.startTime ++ i32le ((x.nSamples : Int) - 49)
  ++ encI16s x.chans ++ x.tracks.flatMap encTrack

def EMG.dec (fmt : Nat) : D EMG := do
  D.guard (fmt == 1)
  let n ← D.nat32
  let freq ← D.i32
  let startTime ← D.f32
  let ns ← D.i32
  D.guard (0 ≤ ns + 49)
  let nSamples := (ns + 49).toNat
  let chans ← D.rep n D.i16
  let tracks ← D.rep n (decTrack 1 nSamples)
  D.guard (nodupB chans)          -- addSignal refuses a channel already in use
  pure ⟨freq, startTime, nSamples, chans, tracks⟩

def EMG.size (x : EMG) : Nat := (4 + 4 + 4 + 2 * x.tracks.length + 4) + sumBy (sizeTrack 1) x.tracks

/-! ## force / torque (type 12), format 1 = byTrack -/
structure Force3D where
  freq : Int
  startTime : UInt32
  nFrames : Nat
  volume : List UInt32
  rot : List UInt32
  transl : List UInt32
  tracks : List Track       -- k = 9: application point, force, torque interleaved per frame
  deriving DecidableEq, Repr

def Force3D.valid (x : Force3D) : Bool :=
  inI32 x.freq && 1 ≤ x.nFrames && x.nFrames < 2147483648
  && x.volume.length == 3 && x.rot.length == 9 && x.transl.length == 3
  && x.tracks.length < 2147483648 && x.tracks.all (validTrack 9 x.nFrames)

def Force3D.enc (x : Force3D) : Bytes :=
  u32le x.tracks.length ++ i32le x.freq ++ f32le x.startTime ++ i32le x.nFrames
  ++ encF32s x.volume ++ encF32s x.rot ++ encF32s x.transl ++ zeros 4
  ++ x.tracks.flatMap encTrack

def Force3D.dec (fmt : Nat) : D Force3D := do
  D.guard (fmt == 1)
  let nTracks ← D.nat32
  let freq ← D.i32
  let startTime ← D.f32
  let nFrames ← D.u32
  let volume ← D.f32s 3
  let rot ← D.f32s 9
  let transl ← D.f32s 3
  D.pad 4
  let tracks ← D.rep nTracks (decTrack 9 nFrames)
  pure ⟨freq, startTime, nFrames, volume, rot, transl, tracks⟩

def Force3D.size (x : Force3D) : Nat :=
  (4 + 4 + 4 + 4 + 12 + 36 + 12 + 4) + sumBy (sizeTrack 9) x.tracks

/-! ## force-platform data (type 9), format 1 = byTrack ISS -/
structure PlatData where
  freq : Int
  startTime : UInt32
  nFrames : Nat
  chans : List Nat                      -- u16
  plats : List (List (Option Frame))    -- k = 6: application point (2), force (3), torque (1)
  deriving DecidableEq, Repr

def PlatData.valid (x : PlatData) : Bool :=
  inI32 x.freq && 1 ≤ x.nFrames && x.nFrames < 2147483648
  && x.chans.length == x.plats.length && x.plats.length < 2147483648
  && x.chans.all (· < 65536) && nodupB x.chans && x.plats.all (validFrames 6 x.nFrames)

def PlatData.enc (x : PlatData) : Bytes :=
  i32le x.plats.length ++ i32le x.freq ++ f32le x.startTime ++ i32le x.nFrames
  ++ encU16s x.chans ++ x.plats.flatMap encRuns

def PlatData.dec (fmt : Nat) : D PlatData := do
  D.guard (fmt == 1)
  let n ← D.nat32
  let freq ← D.i32
  let startTime ← D.f32
  let nFrames ← D.nat32
  let chans ← D.rep n D.u16
  let plats ← D.rep n (decRuns 6 nFrames)
  D.guard (nodupB chans)          -- add_platform refuses a channel already in use
  pure ⟨freq, startTime, nFrames, chans, plats⟩

def PlatData.size (x : PlatData) : Nat :=
  (4 + 4 + 4 + 4 + x.plats.length * 2) + sumBy (sizeRuns 6) x.plats

/-! ## force-platform calibration (type 7), format 2 = GRP -/
structure PlatInfo where
  label : Str
  size : List UInt32        -- 2
  position : List UInt32    -- 12
  deriving DecidableEq, Repr

structure PlatCalib where
  chans : List Int          -- i16
  plats : List PlatInfo
  deriving DecidableEq, Repr

def PlatInfo.valid (p : PlatInfo) : Bool :=
  strOk 256 p.label && p.size.length == 2 && p.position.length == 12
def PlatInfo.enc (p : PlatInfo) : Bytes :=
  strBytes 256 p.label ++ encF32s p.size ++ encF32s p.position ++ zeros 256
def PlatInfo.dec : D PlatInfo := do
  let label ← D.text 256
  let size ← D.f32s 2
  let position ← D.f32s 12
  D.pad 256                 -- undocumented pad: skipped, never interpreted
  pure ⟨label, size, position⟩
def PlatInfo.nBytes : Nat := 256 + (4 * 2) + (4 * 3 * 4) + 256

def PlatCalib.valid (x : PlatCalib) : Bool :=
  x.chans.length == x.plats.length && x.plats.length < 2147483648
  && x.chans.all inI16 && nodupB x.chans && x.plats.all PlatInfo.valid
def PlatCalib.enc (x : PlatCalib) : Bytes :=
  i32le x.plats.length ++ zeros 4 ++ encI16s x.chans ++ x.plats.flatMap PlatInfo.enc
def PlatCalib.dec (fmt : Nat) : D PlatCalib := do
  D.guard (fmt == 2)
  let n ← D.nat32
  D.pad 4
  let chans ← D.rep n D.i16
  let plats ← D.rep n PlatInfo.dec
  D.guard (nodupB chans)
  pure ⟨chans, plats⟩
def PlatCalib.size (x : PlatCalib) : Nat :=
  4 + 4 + 2 * x.chans.length + sumBy (fun _ => PlatInfo.nBytes) x.plats

/-! ## 2D camera data (type 4), format 2 = PCK -/
structure Data2D where
  nCams : Nat
  nFrames : Nat
  freq : Int
  startTime : UInt32
  flags : Nat               -- 0 | 1
  camMap : List Nat
  cells : List (List (Option (List Frame)))   -- [frame][camera]; a point is a 2-component frame
  deriving DecidableEq, Repr

def validCell (c : Option (List Frame)) : Bool :=
  match c with
  | none => true
  | some pts => 1 ≤ pts.length && pts.length < 65536 && pts.all (·.length == 2)

def Data2D.valid (x : Data2D) : Bool :=
  x.nCams < 2147483648 && x.nFrames < 2147483648 && inI32 x.freq && x.flags ≤ 1
  && x.camMap.length == x.nCams && x.camMap.all (· < 32768)
  && x.cells.length == x.nFrames && x.cells.all (fun row => row.length == x.nCams && row.all validCell)

def cellCount (c : Option (List Frame)) : Nat := match c with | none => 0 | some pts => pts.length
def encCell (c : Option (List Frame)) : Bytes := match c with | none => [] | some pts => encFrames pts

def Data2D.enc (x : Data2D) : Bytes :=
  i32le x.nCams ++ i32le x.nFrames ++ i32le x.freq ++ f32le x.startTime ++ u32le x.flags
  ++ encI16s (x.camMap.map Int.ofNat)
  ++ (List.range x.nCams).flatMap (fun c => x.cells.flatMap (fun row => u16le (cellCount (row.getD c none))))
  ++ x.cells.flatMap (fun row => row.flatMap encCell)

def decCell (n : Nat) : D (Option (List Frame)) :=
  if n = 0 then pure none else do
    let pts ← D.rep n (D.rep 2 D.f32)
    pure (some pts)

def Data2D.dec (fmt : Nat) : D Data2D := do
  D.guard (fmt == 2)
  let nCams ← D.nat32
  let nFrames ← D.nat32
  let freq ← D.i32
  let startTime ← D.f32
  let flags ← D.u32
  D.guard (flags ≤ 1)
  let camMap ← D.rep nCams D.u16
  let counts ← D.rep (nCams * nFrames) D.u16
  let cells ← D.forM' (List.range nFrames) (fun f =>
    D.forM' (List.range nCams) (fun c => decCell (counts.getD (c * nFrames + f) 0)))
  pure ⟨nCams, nFrames, freq, startTime, flags, camMap, cells⟩

def Data2D.size (x : Data2D) : Nat :=
  (4 + 4 + 4 + 4 + 4 + 2 * x.nCams)
  + (2 * x.nCams * x.nFrames + sumBy (fun row => sumBy (fun c => 8 * cellCount c) row) x.cells)

/-! ## camera calibration (type 2), formats 1 = Seelab1 (22 doubles), 2 = BTS (156 doubles) -/
structure Cam where
  fl : List UInt64          -- rotation 9, translation 3, focus 2, centre 2, then distortion terms
  vp : List Int             -- viewport: origin x,y, size x,y (i32)
  deriving DecidableEq, Repr

structure Calib where
  fmt : Nat
  distModel : Int           -- 0..3
  volume : List UInt32
  rot : List UInt32
  transl : List UInt32
  camMap : List Int         -- i16
  cams : List Cam
  deriving DecidableEq, Repr

def camFloats (fmt : Nat) : Nat := if fmt = 1 then 22 else 156
def Cam.valid (fmt : Nat) (c : Cam) : Bool :=
  c.fl.length == camFloats fmt && c.vp.length == 4 && c.vp.all inI32
def Cam.enc (c : Cam) : Bytes := encF64s c.fl ++ encI32s c.vp
def Cam.dec (fmt : Nat) : D Cam := do
  let fl ← D.f64s (camFloats fmt)
  let vp ← D.rep 4 D.i32
  pure ⟨fl, vp⟩
def Cam.nBytes (fmt : Nat) : Nat :=
  if fmt = 1 then 72 + 24 + 16 + 16 + 16 + 16 + 16 + 16 else 72 + 24 + 16 + 16 + 8 * 70 + 8 * 70 + 16

def Calib.valid (x : Calib) : Bool :=
  (x.fmt == 1 || x.fmt == 2) && 0 ≤ x.distModel && x.distModel ≤ 3
  && x.volume.length == 3 && x.rot.length == 9 && x.transl.length == 3
  && x.camMap.length == x.cams.length && x.cams.length < 2147483648
  && x.camMap.all inI16 && x.cams.all (Cam.valid x.fmt)
def Calib.enc (x : Calib) : Bytes :=
  i32le x.cams.length ++ i32le x.distModel ++ encF32s x.volume ++ encF32s x.rot ++ encF32s x.transl
  ++ encI16s x.camMap ++ x.cams.flatMap Cam.enc
def Calib.dec (fmt : Nat) : D Calib := do
  D.guard (fmt == 1 || fmt == 2)
  let n ← D.nat32
  let dm ← D.i32
  D.guard (0 ≤ dm && dm ≤ 3)
  let volume ← D.f32s 3
  let rot ← D.f32s 9
  let transl ← D.f32s 3
  let camMap ← D.rep n D.i16
  let cams ← D.rep n (Cam.dec fmt)
  pure ⟨fmt, dm, volume, rot, transl, camMap, cams⟩
def Calib.size (x : Calib) : Nat :=
  (4 + 4 + 12 + 36 + 12 + 2 * x.cams.length) + sumBy (fun _ => Cam.nBytes x.fmt) x.cams

/-! ## optical setup (type 6) -/
structure OptChan where
  idx : Int
  lens : Str
  camType : Str
  name : Str
  vp : List Int
  deriving DecidableEq, Repr

structure Optical where
  fmt : Nat                 -- 0 | 1 (both are members of the format enum; nothing depends on it)
  chans : List OptChan
  deriving DecidableEq, Repr

def OptChan.valid (c : OptChan) : Bool :=
  inI32 c.idx && strOk 32 c.lens && strOk 32 c.camType && strOk 32 c.name
  && c.vp.length == 4 && c.vp.all inI32
def OptChan.enc (c : OptChan) : Bytes :=
  i32le c.idx ++ zeros 4 ++ strBytes 32 c.lens ++ strBytes 32 c.camType ++ strBytes 32 c.name ++ encI32s c.vp
def OptChan.dec : D OptChan := do
  let idx ← D.i32
  D.pad 4
  let lens ← D.text 32
  let camType ← D.text 32
  let name ← D.text 32
  let vp ← D.rep 4 D.i32
  pure ⟨idx, lens, camType, name, vp⟩
def OptChan.nBytes : Nat := 4 + 4 + 32 + 32 + 32 + (8 + 8)

def Optical.valid (x : Optical) : Bool :=
  x.fmt ≤ 1 && x.chans.length < 2147483648 && x.chans.all OptChan.valid
def Optical.enc (x : Optical) : Bytes :=
  i32le x.chans.length ++ zeros 4 ++ x.chans.flatMap OptChan.enc
def Optical.dec (fmt : Nat) : D Optical := do
  D.guard (fmt ≤ 1)
  let n ← D.nat32
  D.pad 4
  let chans ← D.rep n OptChan.dec
  pure ⟨fmt, chans⟩
def Optical.size (x : Optical) : Nat := (4 + 4) + sumBy (fun _ => OptChan.nBytes) x.chans

/-! ## temporal events (type 16) -/
structure Event where
  label : Str
  kind : Nat                -- 0 single event, 1 event sequence
  values : List UInt32
  deriving DecidableEq, Repr

structure Events where
  fmt : Nat                 -- 0 | 1
  startTime : UInt32
  events : List Event
  deriving DecidableEq, Repr

def Event.valid (e : Event) : Bool :=
  strOk 256 e.label && e.kind ≤ 1 && e.values.length < 2147483648 && (e.kind == 1 || e.values.length ≤ 1)
def Event.enc (e : Event) : Bytes :=
  strBytes 256 e.label ++ u32le e.kind ++ u32le e.values.length ++ encF32s e.values
def Event.dec : D Event := do
  let label ← D.text 256
  let kind ← D.u32
  D.guard (kind ≤ 1)
  let n ← D.nat32
  let values ← D.f32s n
  D.guard (kind == 1 || n ≤ 1)
  pure ⟨label, kind, values⟩
def Event.size (e : Event) : Nat := 256 + 4 + 4 + e.values.length * 4

def Events.valid (x : Events) : Bool :=
  x.fmt ≤ 1 && x.events.length < 2147483648 && x.events.all Event.valid
def Events.enc (x : Events) : Bytes :=
  i32le x.events.length ++ f32le x.startTime ++ x.events.flatMap Event.enc
def Events.dec (fmt : Nat) : D Events := do
  D.guard (fmt ≤ 1)
  let n ← D.nat32
  let startTime ← D.f32
  let events ← D.rep n Event.dec
  pure ⟨fmt, startTime, events⟩
def Events.size (x : Events) : Nat := (4 + 4) + sumBy Event.size x.events

end Tdf
