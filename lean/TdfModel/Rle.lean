/-
  Rle.lean — run-length coding of tracks with missing frames.
  Models:
   * `np.ma.clump_unmasked(np.ma.masked_invalid(data).T[0])`  → `runs`   (maximal runs of present frames)
   * `buf[start:start+n] = dat` on a NaN-prefilled buffer        → `setRange` / `fill`
   * the writer/reader pairs of MarkerTrack, EMGTrack, ForceTorqueTrack, ForcePlatformData
     (tdfData3D.py:110-144, tdfEMG.py:71-103, tdfForce3D.py:81-140, tdfForcePlatformsData.py:59-103):
     i32 nSegments, 4 pad bytes, nSegments × (i32 start, i32 count), then per run count × k float32.
  A frame is `none` (wholly missing, decoded as NaN in every component) or `some [c₀ … c_{k-1}]`
  (float32 bit patterns). k = 3 (marker), 1 (EMG), 9 (force/torque), 6 (platform).
-/
import TdfModel.Dec
namespace Tdf

abbrev Frame := List UInt32

/-- maximal runs of present frames of `fs`, whose first frame has index `i` -/
def runsFrom {α : Type} : Nat → List (Option α) → List (Nat × List α)
  | _, [] => []
  | i, none :: fs => runsFrom (i+1) fs
  | i, some a :: fs =>
    match runsFrom (i+1) fs with
    | (s, as) :: rest => if s = i+1 then (i, a :: as) :: rest else (i, [a]) :: (s, as) :: rest
    | [] => [(i, [a])]

def runs {α : Type} (fs : List (Option α)) : List (Nat × List α) := runsFrom 0 fs

/-- numpy slice assignment `buf[s:s+len(xs)] = xs`; `none` = the slice leaves the buffer
    (numpy: "could not broadcast") -/
def setRange {α : Type} (buf : List (Option α)) (s : Nat) (xs : List α) : Option (List (Option α)) :=
  if s + xs.length ≤ buf.length then
    some (buf.take s ++ xs.map some ++ buf.drop (s + xs.length))
  else none

/-- the decoder's loop: apply the runs, in order, to a buffer -/
def fill {α : Type} : List (Nat × List α) → List (Option α) → Option (List (Option α))
  | [], buf => some buf
  | (s, xs) :: rest, buf =>
    match setRange buf s xs with
    | some b => fill rest b
    | none => none

/-- decidable form of "the segment table is canonical" for a track of `n` frames:
    non-empty runs, increasing, not touching, inside the frame range -/
def canonicalFrom (lo n : Nat) : List (Nat × Nat) → Bool
  | [] => true
  | (s, len) :: rest => lo ≤ s && 0 < len && s + len ≤ n && canonicalFrom (s + len + 1) n rest

def f32le (x : UInt32) : Bytes := leBytes 4 x.toNat
def f64le (x : UInt64) : Bytes := leBytes 8 x.toNat
def encFrame (f : Frame) : Bytes := f.flatMap f32le
def encFrames (fs : List Frame) : Bytes := fs.flatMap encFrame

def D.f32 : D UInt32 := .take 4 (fun b => .pure (UInt32.ofNat (leNat b)))
def D.f64 : D UInt64 := .take 8 (fun b => .pure (UInt64.ofNat (leNat b)))

/-- writer: segment table, then the samples of each run -/
def encRuns (fs : List (Option Frame)) : Bytes :=
  let rs := runs fs
  i32le rs.length ++ zeros 4
    ++ rs.flatMap (fun r => i32le r.1 ++ i32le r.2.length)
    ++ rs.flatMap (fun r => encFrames r.2)

def D.nat32 : D Nat := do
  let z ← D.i32
  if z < 0 then .fail else pure z.toNat

/-- reader: `nFrames` comes from the block header, `k` is the number of components per frame -/
def decRuns (k nFrames : Nat) : D (List (Option Frame)) := do
  let nSeg ← D.nat32
  D.pad 4
  let segs ← D.rep nSeg (do let s ← D.nat32; let n ← D.nat32; pure (s, n))
  let rs ← D.forM' segs (fun sn => do let fr ← D.rep sn.2 (D.rep k D.f32); pure (sn.1, fr))
  match fill rs (List.replicate nFrames none) with
  | some b => pure b
  | none => .fail

/-! ### what the user holds: raw rows, and how the library sees them

A track in memory is an (n, k) float array: every row has all k components, any bit patterns. Which
rows count as present is decided by `np.ma.masked_invalid(data)` followed by `clump_unmasked` of
column 0 (tdfData3D.py:107-108, tdfEMG.py:68-69, tdfForce3D.py:59-60, tdfForcePlatformsData.py:78-79):
a row is present iff its FIRST component is finite — neither NaN nor ±inf — whatever the others hold. -/

/-- IEEE-754 single: finite iff the exponent field is not all ones -/
def finite32 (b : UInt32) : Bool := (b.toNat / 8388608) % 256 != 255

def rowPresent : Frame → Bool
  | [] => false
  | c :: _ => finite32 c

/-- the library's view of a raw track: absent rows are dropped from storage and read back as NaN -/
def see (raw : List Frame) : List (Option Frame) := raw.map (fun r => if rowPresent r then some r else none)

/-- size as `nBytes` computes it: 4 + 4 + Σ (8 + w·len) -/
def sizeRuns (k : Nat) (fs : List (Option Frame)) : Nat :=
  (runs fs).foldl (fun acc r => acc + (4 + 4 + r.2.length * (4 * k))) (4 + 4)

end Tdf
