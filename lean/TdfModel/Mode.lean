/-
  Mode.lean — the access-mode state machine of a Tdf object.
  Anchors: Tdf.__init__/allow_write/__enter__/__exit__ (basictdf.py:158-201), the three decorators
  of tdfUtils.py:18-56, the in-body permission checks of add_block/remove_block.
   * `mode`   ≙ `_mode` ("r+b" = true), set by allow_write, consumed by open(), reset by __exit__
   * `inCtx`  ≙ `_inside_context`
   * `handle` ≙ the file handle: none = closed/never opened, some false = opened "rb" (refuses
                writes), some true = opened "r+b"
   * a public mutator touches the file only through an r+b handle; in every other situation one of
     {decorator, explicit PermissionError, missing attribute, closed handle, read-only handle} makes
     it raise before any byte is written — which of them fires is not modelled, only "raises".
   * a reader decorated with provide_context_if_needed called outside a context enters and exits
     one itself: the handle is closed again and a pending allow_write is consumed (mode reset).
-/
import TdfModel.Container
namespace Tdf

structure MSt where
  disk : Bytes
  mode : Bool
  inCtx : Bool
  handle : Option Bool
  obj : Option TdfSt
  deriving Repr

inductive MOp where
  | allowWrite
  | enter
  | enterInterrupted        -- __enter__ cut short by ANY exception raised inside it (a BaseException such as KeyboardInterrupt
                            -- included): the handle it had opened is closed, the mode reset, no context is left behind
  | exit                    -- normal exit or exit by exception: __exit__ does the same
  | mutate (op : Op) (implicitCtx : Bool)
      -- add_block / remove_block / replace_block / a property setter; implicitCtx: the four setters that
      -- first evaluate a has_* property, which provides (and leaves) a context of its own when outside one
  | read (implicitCtx : Bool) (needsObj : Bool)
      -- any public reader; implicitCtx = decorated with provide_context_if_needed;
      -- needsObj = it first touches attributes that only exist after a first __enter__ (==, len)
  deriving Repr

def MSt.init (disk : Bytes) : MSt := ⟨disk, false, false, none, none⟩

def MSt.writable (s : MSt) : Bool := s.inCtx && s.handle == some true && s.mode

/-- returns the new state and whether the call raised -/
def mstep (s : MSt) : MOp → MSt × Bool
  | .allowWrite => ({ s with mode := true }, false)
  | .enter =>
    match openFile s.disk with
    | some o => ({ s with inCtx := true, handle := some s.mode, obj := some o }, false)
    | none => ({ s with inCtx := false, mode := false, handle := none }, true)
        -- (since the repair of /repo: a refused __enter__ closes its handle, resets the mode and leaves no context)
  | .enterInterrupted => ({ s with inCtx := false, mode := false, handle := none }, true)
  | .exit => ({ s with inCtx := false, mode := false, handle := none }, false)
  | .mutate op impl =>
    if s.writable then
      match s.obj with
      | some o =>
        let r := step o op
        ({ s with obj := some r.1, disk := r.1.disk }, r.2 != .ok)
      | none => (s, true)
    else if impl && !s.inCtx && s.mode then
      -- the setter's has_* check ran in a context of its own: allow_write is consumed, then it raises
      ({ s with mode := false, handle := none, obj := (openFile s.disk).orElse (fun _ => s.obj) }, true)
    else (s, true)
  | .read impl needsObj =>
    if needsObj && s.obj.isNone then (s, true)
    else if s.inCtx || !impl then (s, false)
    else ({ s with mode := false, handle := none, obj := (openFile s.disk).orElse (fun _ => s.obj) }, false)

/-- `Tdf.copy(path)`: the file's bytes go to a new path and a NEW object for that path is returned
    (basictdf.py: `shutil.copyfile` + `Tdf(new_file_path)`): read-only mode, outside any context, nothing
    remembered — whatever state the original object is in -/
def copyObj (s : MSt) : MSt := MSt.init s.disk

def mrun (s : MSt) : List MOp → MSt
  | [] => s
  | op :: ops => mrun (mstep s op).1 ops

end Tdf
