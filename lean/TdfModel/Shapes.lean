/-
  Shapes.lean — what the validated constructor arguments accept (C19).
  Anchors: tdfData3D.py:201-224, tdfForce3D.py:41-47,190-212, tdfCalibrationData.py:48-109,218-230,315-355,
  tdfTypes.py:200-213 (CameraViewPort), tdfOpticalSystem.py:36-46, tdfEvents.py:28-39.
  An argument is described by its kind and shape only; element values never matter to acceptance.
-/
namespace Tdf

inductive Arg where
  | ndarray (shape : List Nat)     -- a numpy array of that shape (any numeric dtype)
  | list (len : Nat)               -- a flat python list
  | tuple (len : Nat)
  | viewport                       -- a CameraViewPort object
  | other                          -- None, str, scalar, dict, …
  deriving DecidableEq, Repr

/-- fixed-shape geometry parameters: volume [3], rotation [3,3], translation [3], Seelab [2]-vectors -/
def acceptsShape (req : List Nat) : Arg → Bool
  | .ndarray s => s == req
  | _ => false

/-- a constructor that takes several fixed-shape arguments at once (volume, rotation, translation; the
    seven Seelab camera parameters): every argument is checked against its own required shape, on its
    own — the arguments are never compared with one another -/
def acceptsAll : List (List Nat) → List Arg → Bool
  | [], [] => true
  | r :: rs, a :: as => acceptsShape r a && acceptsAll rs as
  | _, _ => false

/-- one half (origin / size) of a CameraViewPort: a 2-element array, list or tuple -/
def acceptsVec2 : Arg → Bool
  | .ndarray s => s == [2]
  | .list n => n == 2
  | .tuple n => n == 2
  | _ => false

/-- the viewport parameter of channel / camera records: a CameraViewPort or a (2,2) array -/
def acceptsViewport : Arg → Bool
  | .viewport => true
  | .ndarray s => s == [2, 2]
  | _ => false

/-- coupled arrays of one force/torque track: three arrays of one shape (n, 3) -/
def acceptsCoupled (a b c : Arg) : Bool :=
  match a, b, c with
  | .ndarray [n, 3], .ndarray sb, .ndarray sc => sb == [n, 3] && sc == [n, 3]
  | _, _, _ => false

/-- bytes the writer emits for an array argument stored with `w`-byte elements -/
def encodedLen (w : Nat) : Arg → Nat
  | .ndarray s => w * s.foldl (· * ·) 1
  | .list n => w * n
  | .tuple n => w * n
  | _ => 0

/-- event values: must be iterable (sized); a single (non-sequence) event holds at most one value -/
inductive EvArg where
  | sized (len : Nat)     -- list / tuple / array of that many values
  | notIterable
  deriving DecidableEq, Repr

def acceptsEvent (single : Bool) : EvArg → Bool
  | .sized n => !(single && n > 1)
  | .notIterable => false

end Tdf
