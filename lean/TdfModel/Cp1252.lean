/-
  Cp1252.lean — Python's "windows-1252" codec as a table (strict error mode).
  Models: `str.encode("windows-1252")`, `bytes.decode("windows-1252")` used by BTSString
  (tdfTypes.py:42-69). Strings are lists of code points (so lone surrogates exist, as in Python).
  Bytes 0x81 0x8D 0x8F 0x90 0x9D are undefined in CPython's cp1252.
-/
import TdfModel.Bytes
namespace Tdf

def hiTable : List (Option Nat) :=
  [some 0x20AC, none, some 0x201A, some 0x0192, some 0x201E, some 0x2026, some 0x2020, some 0x2021,
   some 0x02C6, some 0x2030, some 0x0160, some 0x2039, some 0x0152, none, some 0x017D, none,
   none, some 0x2018, some 0x2019, some 0x201C, some 0x201D, some 0x2022, some 0x2013, some 0x2014,
   some 0x02DC, some 0x2122, some 0x0161, some 0x203A, some 0x0153, none, some 0x017E, some 0x0178]

def decNat (n : Nat) : Option Nat :=
  if n < 0x80 then some n
  else if n < 0xA0 then (hiTable[n - 0x80]?).join
  else some n

def decByte (b : UInt8) : Option Nat := decNat b.toNat

def findIdx (c : Nat) : List (Option Nat) → Nat → Option Nat
  | [], _ => none
  | x :: xs, i => if x = some c then some i else findIdx c xs (i+1)

def encNat (c : Nat) : Option Nat :=
  if c < 0x80 then some c
  else if 0xA0 ≤ c ∧ c < 0x100 then some c
  else (findIdx c hiTable 0).map (fun i => 0x80 + i)

def encCp (c : Nat) : Option UInt8 := (encNat c).map UInt8.ofNat

/-- `s.encode("windows-1252")`; `none` = UnicodeEncodeError -/
def encStr : List Nat → Option Bytes
  | [] => some []
  | c :: cs => match encCp c, encStr cs with
    | some b, some bs => some (b :: bs)
    | _, _ => none

/-- `b.decode("windows-1252")`; `none` = UnicodeDecodeError -/
def decStr : Bytes → Option (List Nat)
  | [] => some []
  | b :: bs => match decByte b, decStr bs with
    | some c, some cs => some (c :: cs)
    | _, _ => none

end Tdf
