/-
  Equality.lean — the `__eq__` of the nine block classes and of Tdf, as implemented (C14).
  Three blocks compare their encodings (Data3D, ForceTorque3D, OpticalSetupBlock); the others compare
  field by field, items pairwise over `zip` guarded by a length / channel-map comparison.
  Samples and scalars are compared as bit patterns here; numpy's tolerance (allclose) and ±0/NaN
  corner cases of float comparison are outside the model (the correspondence only uses pairs that
  are bit-identical or far apart).
-/
import TdfModel.Blocks
namespace Tdf

/-- python `all(x == y for x, y in zip(xs, ys))` -/
def zipAll {α : Type} [BEq α] (xs ys : List α) : Bool := (xs.zip ys).all (fun q => q.1 == q.2)

def Data3D.eq (a b : Data3D) : Bool := a.enc == b.enc
def Force3D.eq (a b : Force3D) : Bool := a.enc == b.enc
def Optical.eq (a b : Optical) : Bool := a.enc == b.enc

def EMG.eq (a b : EMG) : Bool :=
  a.freq == b.freq && a.startTime == b.startTime && a.nSamples == b.nSamples
  && a.chans == b.chans && a.tracks.length == b.tracks.length && zipAll a.tracks b.tracks

def PlatData.eq (a b : PlatData) : Bool :=
  a.startTime == b.startTime && a.freq == b.freq && a.nFrames == b.nFrames
  && a.chans == b.chans && zipAll a.plats b.plats

def PlatCalib.eq (a b : PlatCalib) : Bool := a.chans == b.chans && a.plats == b.plats

def Data2D.eq (a b : Data2D) : Bool :=
  a.nCams == b.nCams && a.nFrames == b.nFrames && a.freq == b.freq && a.startTime == b.startTime
  && a.flags == b.flags && a.camMap == b.camMap
  && (List.range a.nFrames).all (fun i => (List.range a.nCams).all (fun j =>
        (a.cells.getD i []).getD j none == (b.cells.getD i []).getD j none))
  && a.size == b.size

def Calib.eq (a b : Calib) : Bool :=
  a.distModel == b.distModel && a.volume == b.volume && a.rot == b.rot && a.transl == b.transl
  && a.camMap == b.camMap && zipAll a.cams b.cams && a.fmt == b.fmt

def Events.eq (a b : Events) : Bool :=
  a.fmt == b.fmt && a.startTime == b.startTime && a.events.length == b.events.length && zipAll a.events b.events

/-- a file as `Tdf.__eq__` sees it: version, slot count, list of blocks (one entry per slot; an
    unused slot is an `UnusedBlock`, equal to any other unused slot) -/
structure FileView (β : Type) where
  version : Nat
  nEntries : Int
  blocks : List (Option β)      -- none = unused slot

def FileView.eq {β : Type} [BEq β] (f g : FileView β) : Bool :=
  f.version == g.version && f.nEntries == g.nEntries && f.blocks == g.blocks

end Tdf
