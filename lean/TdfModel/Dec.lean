/-
  Dec.lean — decoders as programs of a small free monad, with two interpreters:
  `run` (value + remaining bytes) and `runM` (value + care mask + remaining bytes).
  Every decoder of the model (header, table entry, nine blocks) is a `D` program, so the
  non-interference theorem of C12 is proved once, by induction on programs.
  Models: `file.read(n)` + numpy/struct decode (take), `TdfType.skip` (skip),
          `BTSString.bread` (str: the continuation only sees the bytes before the first NUL).
-/
import TdfModel.Bytes
namespace Tdf

inductive D (α : Type) : Type where
  | pure : α → D α
  | fail : D α
  | take : Nat → (Bytes → D α) → D α
  | skip : Nat → D α → D α
  | str  : Nat → (Bytes → D α) → D α

namespace D

def bind : D α → (α → D β) → D β
  | .pure a, f => f a
  | .fail, _ => .fail
  | .take n k, f => .take n (fun b => (k b).bind f)
  | .skip n k, f => .skip n (k.bind f)
  | .str n k, f => .str n (fun b => (k b).bind f)

instance : Monad D where
  pure := D.pure
  bind := D.bind

/-- bytes of a fixed-width text field before the first NUL (all of it when there is none) -/
def cutNul : Bytes → Bytes
  | [] => []
  | b :: bs => if b = 0 then [] else b :: cutNul bs

/-- care mask of a text field: everything up to and including the first NUL -/
def strMask : Bytes → List Bool
  | [] => []
  | b :: bs => if b = 0 then true :: List.replicate bs.length false else true :: strMask bs

/-- `bs.length < n`, looking at no more than `n` cells (whole files travel through `run`) -/
def short : Nat → Bytes → Bool
  | 0, _ => false
  | _+1, [] => true
  | n+1, _ :: bs => short n bs

def run : D α → Bytes → Option (α × Bytes)
  | .pure a, bs => some (a, bs)
  | .fail, _ => none
  | .take n k, bs => if short n bs then none else (k (bs.take n)).run (bs.drop n)
  | .skip n k, bs => if short n bs then none else k.run (bs.drop n)
  | .str n k, bs => if short n bs then none else (k (cutNul (bs.take n))).run (bs.drop n)

/-- instrumented interpreter: also returns, for every consumed byte, whether it was looked at -/
def runM : D α → Bytes → Option (α × List Bool × Bytes)
  | .pure a, bs => some (a, [], bs)
  | .fail, _ => none
  | .take n k, bs =>
      if short n bs then none else
      match (k (bs.take n)).runM (bs.drop n) with
      | none => none
      | some (a, m, r) => some (a, List.replicate n true ++ m, r)
  | .skip n k, bs =>
      if short n bs then none else
      match k.runM (bs.drop n) with
      | none => none
      | some (a, m, r) => some (a, List.replicate n false ++ m, r)
  | .str n k, bs =>
      if short n bs then none else
      match (k (cutNul (bs.take n))).runM (bs.drop n) with
      | none => none
      | some (a, m, r) => some (a, strMask (bs.take n) ++ m, r)

/-- `n` repetitions of `p`, in continuation-passing form so that running it is linear
    (left-nested binds of a free monad are quadratic) -/
def repK : Nat → D α → (List α → D β) → D β
  | 0, _, k => k []
  | n+1, p, k => p.bind (fun a => repK n p (fun as => k (a :: as)))

/-- `n` repetitions of `p` -/
def rep (n : Nat) (p : D α) : D (List α) := repK n p D.pure

def forK : List γ → (γ → D α) → (List α → D β) → D β
  | [], _, k => k []
  | b :: bs, f, k => (f b).bind (fun a => forK bs f (fun as => k (a :: as)))

/-- run `f` over a list of arguments, left to right -/
def forM' (bs : List γ) (f : γ → D α) : D (List α) := forK bs f D.pure

def guard (c : Bool) : D Unit := if c then pure () else .fail

/-! primitive readers -/
def u16 : D Nat := .take 2 (fun b => .pure (leNat b))
def u32 : D Nat := .take 4 (fun b => .pure (leNat b))
def u64 : D Nat := .take 8 (fun b => .pure (leNat b))
def i16 : D Int := .take 2 (fun b => .pure (ofTwos 2 (leNat b)))
def i32 : D Int := .take 4 (fun b => .pure (ofTwos 4 (leNat b)))
def raw (n : Nat) : D Bytes := .take n (fun b => .pure b)
def pad (n : Nat) : D Unit := .skip n (.pure ())

end D
end Tdf
