/-
  Spec.lean — L1: a TDF file is a list of blocks (at most N, distinct types) plus don't-care
  metadata of its unused slots. The byte layout is a FUNCTION of that list (`Lay.image`): offsets
  are running sums from the end of the table, unused slots point at the end of the data.
  `Lay.state` is the L0 state (open object + file) that represents a layout; the refinement
  theorems (TdfProofs/Lemmas/Container.lean) show that add/remove/replace/setters on such a state
  yield the state of the layout given by the list operations below.
-/
import TdfModel.Container
namespace Tdf

structure LBlock where
  typ : Nat
  fmt : Nat
  payload : Bytes
  cdate : Int
  mdate : Int
  adate : Int
  comment : Str
  deriving DecidableEq, Repr

/-- what an unused slot carries besides its (determined) offset and size -/
structure FreeMeta where
  fmt : Nat
  cdate : Int
  mdate : Int
  adate : Int
  comment : Str
  deriving DecidableEq, Repr

def LBlock.fieldsOk (b : LBlock) : Bool :=
  b.typ ≤ 16 && b.fmt < 4294967296 && inI32 b.cdate && inI32 b.mdate && inI32 b.adate && strOk 256 b.comment
def FreeMeta.fieldsOk (f : FreeMeta) : Bool :=
  f.fmt < 4294967296 && inI32 f.cdate && inI32 f.mdate && inI32 f.adate && strOk 256 f.comment

def tableStart (n : Nat) : Nat := 64 + 288 * n

def dataOf (bs : List LBlock) : Bytes := bs.flatMap (·.payload)

def liveEntry (start : Nat) (b : LBlock) : Entry :=
  ⟨b.typ, b.fmt, start, b.payload.length, b.cdate, b.mdate, b.adate, b.comment⟩

def liveEntries (start : Nat) : List LBlock → List Entry
  | [] => []
  | b :: bs => liveEntry start b :: liveEntries (start + b.payload.length) bs

def freeEntry (eod : Nat) (f : FreeMeta) : Entry := ⟨0, f.fmt, eod, 0, f.cdate, f.mdate, f.adate, f.comment⟩
def freeEntries (eod : Nat) (fs : List FreeMeta) : List Entry := fs.map (freeEntry eod)

structure Lay where
  hdr : Bytes               -- the 64 header bytes as found (reserved words may hold anything)
  n : Nat                   -- number of slots
  bs : List LBlock          -- live blocks, in table order
  fs : List FreeMeta        -- unused slots
  deriving Repr

def Lay.eod (l : Lay) : Nat := tableStart l.n + (dataOf l.bs).length
def Lay.table (l : Lay) : List Entry := liveEntries (tableStart l.n) l.bs ++ freeEntries l.eod l.fs
def Lay.image (l : Lay) : Bytes := l.hdr ++ l.table.flatMap Entry.enc ++ dataOf l.bs
def Lay.state (l : Lay) : TdfSt := ⟨l.image, l.image, l.table, l.n⟩

def freshMeta (now : Int) : FreeMeta := ⟨0, now, now, now, defaultComment⟩
def newBlock (b : BlkArg) (pl : Bytes) (comment : Str) (now : Int) : LBlock :=
  ⟨b.typ, b.fmt, pl, b.cdate, b.mdate, now, comment⟩

def removeType (t : Nat) : List LBlock → List LBlock
  | [] => []
  | b :: bs => if b.typ = t then bs else b :: removeType t bs

def Lay.hasType (l : Lay) (t : Nat) : Bool := l.bs.any (fun b => b.typ == t)

/-- the abstract operations: what a history means on the list of blocks -/
def Lay.add (l : Lay) (b : BlkArg) (pl : Bytes) (comment : Str) (now : Int) : Lay :=
  { l with bs := l.bs ++ [newBlock b pl comment now], fs := l.fs.tail }
def Lay.remove (l : Lay) (t : Nat) (now : Int) : Lay :=
  { l with bs := removeType t l.bs, fs := l.fs ++ [freshMeta now] }

def Lay.specStep (l : Lay) : Op → Lay × Outcome
  | .add b c now =>
    if l.hasType b.typ then (l, .err .duplicate)
    else if l.fs = [] then (l, .err .full)
    else match checkArg b c now with
      | .error e => (l, .err e)
      | .ok pl => (l.add b pl c now, .ok)
  | .remove t now =>
    if l.hasType t then (l.remove t now, .ok) else (l, .err .absent)
  | .replace b c now =>
    match l.bs.find? (fun x => x.typ == b.typ) with
    | none => (l, .err .absent)
    | some old =>
      let c' := c.getD old.comment
      match checkArg b c' now with
      | .error e => (l, .err e)
      | .ok pl => ((l.remove b.typ now).add b pl c' now, .ok)
  | .set b now =>
    match l.bs.find? (fun x => x.typ == b.typ) with
    | none =>
      if l.fs = [] then (l, .err .full)
      else match checkArg b defaultComment now with
        | .error e => (l, .err e)
        | .ok pl => (l.add b pl defaultComment now, .ok)
    | some old =>
      match checkArg b old.comment now with
      | .error e => (l, .err e)
      | .ok pl => ((l.remove b.typ now).add b pl old.comment now, .ok)
  | .reopen => (l, .ok)

end Tdf
