/-
  Container.lean — L0: the open Tdf object and its file, as basictdf.py manipulates them:
  in-memory table `entries`, the bytes seen through the handle (`view`) and the bytes flushed to
  disk (`disk`), mutated by seek/write/truncate/flush.
  Anchors: add_block (basictdf.py:329-406), remove_block (408-471), replace_block (528-541),
  the convenience setters (244-313), accessors (203-229, 548-552), __enter__ (172-196).
  A block enters as `BlkArg`: the container only uses its type, format code, reported size
  (`nBytes`), what `_write` produces (`none` = it raises) and its two dates.
  Every operation returns the state it leaves behind TOGETHER with its outcome, so that
  "a rejected call leaves the file as it was" is a statement, not a convention.
-/
import TdfModel.Entry
namespace Tdf

inductive Err where
  | duplicate      -- ValueError: a block of that type already exists
  | full           -- ValueError: no unused slot
  | notEncodable   -- the block's _write raises (bad label, unsupported format, wrong object)
  | badEntry       -- the table entry cannot be encoded (comment too long / not cp1252, date, size)
  | absent         -- ValueError: no block of that type
  | hole           -- IOError: a live entry after the first unused slot
  | permission     -- PermissionError / OutsideOfContextError
  deriving DecidableEq, Repr

inductive Outcome where
  | ok
  | err (e : Err)
  deriving DecidableEq, Repr

structure BlkArg where
  typ : Nat
  fmt : Nat
  size : Nat
  payload : Option Bytes
  cdate : Int
  mdate : Int
  deriving DecidableEq, Repr

structure TdfSt where
  view : Bytes
  disk : Bytes
  entries : List Entry
  nEntries : Nat
  deriving DecidableEq, Repr

def slotPos (i : Nat) : Nat := 64 + 288 * i

def findIdxBy (p : Entry → Bool) : List Entry → Option Nat
  | [] => none
  | e :: es => if p e then some 0 else (findIdxBy p es).map (· + 1)

def firstUnused (es : List Entry) : Option Nat := findIdxBy (fun e => e.typ == 0) es
def findType (t : Nat) (es : List Entry) : Option Nat := findIdxBy (fun e => e.typ == t) es
def hasType (t : Nat) (es : List Entry) : Bool := es.any (fun e => e.typ == t)

def unusedEntry : Entry := ⟨0, 0, 0, 0, 0, 0, 0, []⟩

/-- everything `add_block`/`replace_block` must be able to serialise, checked before the file is touched -/
def checkArg (b : BlkArg) (comment : Str) (now : Int) : Except Err Bytes :=
  match b.payload with
  | none => .error .notEncodable
  | some pl =>
    if (⟨b.typ, b.fmt, 0, b.size, b.cdate, b.mdate, now, comment⟩ : Entry).valid then .ok pl
    else .error .badEntry

/-- `for n, entry in enumerate(later, start): seek(64+288n); entry._write(handler)` -/
def writeEntries (v : Bytes) (start : Nat) : List Entry → Bytes
  | [] => v
  | e :: es => writeEntries (writeAt v (slotPos start) e.enc) (start + 1) es

def addBlock (s : TdfSt) (b : BlkArg) (comment : Str) (now : Int) : TdfSt × Outcome :=
  if hasType b.typ s.entries then (s, .err .duplicate) else
  match firstUnused s.entries with
  | none => (s, .err .full)
  | some pos =>
    match checkArg b comment now with
    | .error e => (s, .err e)
    | .ok pl =>
      if (s.entries.drop (pos + 1)).any (fun e => e.typ != 0) then (s, .err .hole) else
      let off := (s.entries.getD pos unusedEntry).off
      let e : Entry := ⟨b.typ, b.fmt, off, b.size, b.cdate, b.mdate, now, comment⟩
      let later := (s.entries.drop (pos + 1)).map (fun x => { x with off := off + b.size })
      let v1 := writeAt s.view (slotPos pos) e.enc
      let v2 := writeEntries v1 (pos + 1) later
      let v3 := writeAt v2 off.toNat pl
      ({ s with view := v3, disk := v3, entries := s.entries.take pos ++ e :: later }, .ok)

def liveOf (es : List Entry) : List Entry := es.filter (fun e => e.typ != 0)

/-- `max([64 + 288 * nEntries] + [e.offset + e.size for e in entries if e.type != unusedSlot])`: the end of the data -/
def dataEnd (kept : List Entry) (n : Nat) : Int :=
  (liveOf kept).foldl (fun m e => max m (e.off + e.size)) (64 + 288 * n)

/-- `if entry.offset > oldEntry.offset: entry.offset -= oldEntry.size`: an entry whose data lie after the removed block
    moves up by its size, wherever the entry is in the table -/
def shiftAfter (old x : Entry) : Entry := if x.off > old.off then { x with off := x.off - old.size } else x

def removeBlock (s : TdfSt) (t : Nat) (now : Int) : TdfSt × Outcome :=
  match findType t s.entries with
  | none => (s, .err .absent)
  | some pos =>
    let old := s.entries.getD pos unusedEntry
    let kept := (s.entries.take pos ++ s.entries.drop (pos + 1)).map (shiftAfter old)
    let newOff : Int := dataEnd kept s.nEntries
    let fresh : Entry := ⟨0, 0, newOff, 0, now, now, now, defaultComment⟩
    -- `seek(64)`, then consecutive `_write` calls of the whole table: one contiguous write
    let v1 := writeAt s.view (slotPos 0) ((kept ++ [fresh]).flatMap Entry.enc)
    let tail := v1.drop (old.off + old.size).toNat
    let v2 := writeAt v1 old.off.toNat tail
    let v3 := truncateAt v2 (old.off.toNat + tail.length)
    ({ s with view := v3, disk := v3, entries := kept ++ [fresh] }, .ok)

/-- `[i for i in self.entries if i is not old_entry]` where `old_entry` is the first entry of that type -/
def eraseFirst (p : Entry → Bool) : List Entry → List Entry
  | [] => []
  | e :: es => if p e then es else e :: eraseFirst p es

/-- `any(i.type != unusedSlot for i in rest[firstUnused + 1:])`: a live entry behind the first unused slot -/
def holeIn (rest : List Entry) : Bool :=
  match firstUnused rest with
  | none => false
  | some p => (rest.drop (p + 1)).any (fun e => e.typ != 0)

def replaceBlock (s : TdfSt) (b : BlkArg) (comment : Option Str) (now : Int) : TdfSt × Outcome :=
  match s.entries.find? (fun e => e.typ == b.typ) with
  | none => (s, .err .absent)
  | some old =>
    let c := comment.getD old.comment
    match checkArg b c now with
    | .error e => (s, .err e)
    | .ok _ =>
      -- what add_block would refuse AFTER the old block is gone is refused before anything is touched
      if holeIn (eraseFirst (fun e => e.typ == b.typ) s.entries) then (s, .err .hole) else
      match removeBlock s b.typ now with
      | (s1, .ok) => addBlock s1 b c now
      | (s1, .err e) => (s1, .err e)

/-- the convenience setters: `replace if has_x else add` -/
def setBlock (s : TdfSt) (b : BlkArg) (now : Int) : TdfSt × Outcome :=
  if hasType b.typ s.entries then replaceBlock s b none now else addBlock s b defaultComment now

/-! accessors -/
def lenLive (s : TdfSt) : Nat := (s.entries.filter (fun e => e.typ != 0)).length
def entryByType (s : TdfSt) (t : Nat) : Option Entry := s.entries.find? (fun e => e.typ == t)
def entryByIndex (s : TdfSt) (i : Int) : Option Entry :=
  if 0 ≤ i ∧ i.toNat < s.entries.length then s.entries[i.toNat]? else none
def payloadOf (s : TdfSt) (e : Entry) : Bytes := readAt s.view e.off.toNat e.size.toNat

/-- `Tdf.__enter__`: parse header and table from the bytes on disk -/
def openFile (disk : Bytes) : Option TdfSt :=
  match decTable.run disk with
  | some ((h, es), _) => some ⟨disk, disk, es, h.nEntries.toNat⟩
  | none => none

/-! operations of a history -/
inductive Op where
  | add (b : BlkArg) (comment : Str) (now : Int)
  | remove (t : Nat) (now : Int)
  | replace (b : BlkArg) (comment : Option Str) (now : Int)
  | set (b : BlkArg) (now : Int)
  | reopen                       -- leave the context and enter a new one
  deriving Repr

def step (s : TdfSt) : Op → TdfSt × Outcome
  | .add b c now => addBlock s b c now
  | .remove t now => removeBlock s t now
  | .replace b c now => replaceBlock s b c now
  | .set b now => setBlock s b now
  | .reopen => match openFile s.disk with
    | some s' => (s', .ok)
    | none => (s, .err .permission)

def runOps (s : TdfSt) : List Op → TdfSt
  | [] => s
  | op :: ops => runOps (step s op).1 ops

/-! independent reader: executable well-formedness / compactness predicates on raw bytes -/

/-- two byte ranges do not overlap -/
def Disjoint2 (a b : Entry) : Prop := a.off + a.size ≤ b.off ∨ b.off + b.size ≤ a.off
instance (a b : Entry) : Decidable (Disjoint2 a b) := by unfold Disjoint2; infer_instance

/-- C03 on a parsed table: every live range lies after the table and inside the file, live ranges
    are pairwise disjoint, unused slots have size zero -/
def WFTable (n flen : Nat) (es : List Entry) : Prop :=
  (∀ e ∈ liveOf es, (64 + 288 * n : Int) ≤ e.off ∧ 0 ≤ e.size ∧ e.off + e.size ≤ flen)
  ∧ (liveOf es).Pairwise Disjoint2
  ∧ (∀ e ∈ es, e.typ = 0 → e.size = 0)
instance (n flen : Nat) (es : List Entry) : Decidable (WFTable n flen es) := by unfold WFTable; infer_instance

/-- the executable form run on real bytes: signature ok (the parse succeeds) and `WFTable` -/
def wfB (file : Bytes) : Bool :=
  match decTable.run file with
  | none => false
  | some ((h, es), _) => decide (WFTable h.nEntries.toNat file.length es)

def compactFrom (start : Int) : List Entry → Option Int
  | [] => some start
  | e :: es => if e.typ != 0 && e.off == start && 0 ≤ e.size then compactFrom (start + e.size) es
               else if (e :: es).all (fun x => x.typ == 0) then some start else none

/-- C09: live blocks back to back in table order from the end of the table, all unused slots
    after all live ones carrying the end-of-data offset, file length = end of data -/
def compactB (file : Bytes) : Bool :=
  match decTable.run file with
  | none => false
  | some ((h, es), _) =>
    let n := h.nEntries.toNat
    match compactFrom (64 + 288 * n) es with
    | none => false
    | some eod =>
      eod == file.length
      && es.all (fun e => e.typ != 0 || (e.size == 0 && e.off == eod))

def typesNodupB (file : Bytes) : Bool :=
  match decTable.run file with
  | none => false
  | some ((_, es), _) => nodupB ((liveOf es).map (·.typ))

end Tdf
