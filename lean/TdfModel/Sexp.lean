/-
  Sexp.lean — the wire format between the Python harness and the model driver.
  One s-expression per line:  ints `-12`, symbols `abc.def`, byte strings `#0a0b` (`#` = empty),
  lists `( … )`.  Not part of any theorem; part of the trusted correspondence glue.
-/
import TdfModel.Bytes
namespace Tdf

inductive V where
  | int : Int → V
  | sym : String → V
  | hex : Bytes → V
  | list : List V → V
  deriving Inhabited

namespace V

private def isWs (c : UInt8) : Bool := c == 32 || c == 9 || c == 10 || c == 13
private def isDelim (c : UInt8) : Bool := isWs c || c == 40 || c == 41

private def hexv (c : UInt8) : Option UInt8 :=
  if 48 ≤ c && c ≤ 57 then some (c - 48)
  else if 97 ≤ c && c ≤ 102 then some (c - 87)
  else if 65 ≤ c && c ≤ 70 then some (c - 55)
  else none

partial def skipWs (s : ByteArray) (i : Nat) : Nat :=
  if i < s.size && isWs (s.get! i) then skipWs s (i+1) else i

partial def tokEnd (s : ByteArray) (i : Nat) : Nat :=
  if i < s.size && !isDelim (s.get! i) then tokEnd s (i+1) else i

partial def parseHex (s : ByteArray) (i e : Nat) (acc : Array UInt8) : Option (Array UInt8) :=
  if i ≥ e then some acc
  else if i + 1 ≥ e then none
  else match hexv (s.get! i), hexv (s.get! (i+1)) with
    | some a, some b => parseHex s (i+2) e (acc.push (a * 16 + b))
    | _, _ => none

partial def parseNat (s : ByteArray) (i e : Nat) (acc : Nat) : Option Nat :=
  if i ≥ e then some acc
  else
    let c := s.get! i
    if 48 ≤ c && c ≤ 57 then parseNat s (i+1) e (acc * 10 + (c - 48).toNat) else none

mutual
partial def parseV (s : ByteArray) (i0 : Nat) : Option (V × Nat) :=
  let i := skipWs s i0
  if i ≥ s.size then none
  else
    let c := s.get! i
    if c == 40 then parseList s (i+1) #[]
    else if c == 41 then none
    else
      let e := tokEnd s i
      if c == 35 then
        (parseHex s (i+1) e #[]).map (fun a => (V.hex a.toList, e))
      else if c == 45 && i + 1 < e then
        (parseNat s (i+1) e 0).map (fun n => (V.int (-(n : Int)), e))
      else if 48 ≤ c && c ≤ 57 then
        (parseNat s i e 0).map (fun n => (V.int n, e))
      else
        some (V.sym (String.fromUTF8! (s.extract i e)), e)
partial def parseList (s : ByteArray) (i0 : Nat) (acc : Array V) : Option (V × Nat) :=
  let i := skipWs s i0
  if i ≥ s.size then none
  else if s.get! i == 41 then some (V.list acc.toList, i+1)
  else match parseV s i with
    | none => none
    | some (v, j) => parseList s j (acc.push v)
end

def parse (line : String) : Option V := (parseV line.toUTF8 0).map (·.1)

partial def render : V → String
  | .int z => toString z
  | .sym s => s
  | .hex b => "#" ++ toHex b
  | .list vs => "(" ++ " ".intercalate (vs.map render) ++ ")"

/-! accessors used by the command handlers -/
def nat? : V → Option Nat | .int z => if z ≥ 0 then some z.toNat else none | _ => none
def int? : V → Option Int | .int z => some z | _ => none
def bytes? : V → Option Bytes | .hex b => some b | _ => none
def list? : V → Option (List V) | .list l => some l | _ => none
def sym? : V → Option String | .sym s => some s | _ => none
def nats? (v : V) : Option (List Nat) := do (← v.list?).mapM nat?
def ints? (v : V) : Option (List Int) := do (← v.list?).mapM int?

def ofNats (l : List Nat) : V := .list (l.map (fun n => .int (Int.ofNat n)))
def ofInts (l : List Int) : V := .list (l.map .int)
def ok (v : V) : V := .list [.sym "ok", v]
def err (s : String) : V := .list [.sym "err", .sym s]

end V
end Tdf
