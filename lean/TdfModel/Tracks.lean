/-
  Tracks.lean — add_track / tracks-setter of Data3D and ForceTorque3D, addSignal of EMG (C16), and
  the list-like lookup interface of the four indexable blocks (C18).
  Anchors: tdfData3D.py:231-273,312-349; tdfForce3D.py:272-352; tdfEMG.py:179-225; tdfEvents.py:115-136.
-/
namespace Tdf

/-- something offered to a block: a track of the block's own track class with `frames` frames, or
    any other object (None, str, ndarray, a track of another block kind, …) -/
inductive Offered where
  | track (id : Nat) (frames : Nat)
  | other
  deriving DecidableEq, Repr

structure TB where
  n : Nat                         -- the block's own frame count
  tracks : List (Nat × Nat)       -- (id, frames) of the tracks it holds
  deriving DecidableEq, Repr

inductive AddOut where
  | ok
  | typeError      -- not a track of the right class
  | valueError     -- wrong number of frames
  deriving DecidableEq, Repr

def TB.accepts (b : TB) : Offered → Bool
  | .track _ f => f == b.n
  | .other => false

def TB.addTrack (b : TB) : Offered → TB × AddOut
  | .other => (b, .typeError)
  | .track id f => if f = b.n then ({ b with tracks := b.tracks ++ [(id, f)] }, .ok) else (b, .valueError)

/-- the loop of the `tracks` setter over the elements the iterable yields before it stops or raises -/
def TB.addAll (b : TB) : List Offered → TB × Bool
  | [] => (b, true)
  | o :: os => match b.addTrack o with
    | (b', .ok) => b'.addAll os
    | (_, _) => (b, false)

/-- `block.tracks = values`: build into a fresh list, restore the old one on ANY exception —
    an invalid element, or the iterable itself raising after `boom` elements (`boom = none`: it doesn't) -/
def TB.assign (b : TB) (vs : List Offered) (boom : Option Nat) : TB × Bool :=
  let seen := match boom with | some k => vs.take k | none => vs
  match ({ b with tracks := [] } : TB).addAll seen with
  | (b', true) => if boom.isSome then (b, true) else (b', false)
  | (_, false) => (b, true)

/-! ### lookup (C18): one list of labelled items -/
inductive Key where
  | idx (i : Int)
  | label (l : Nat)
  | item (pos : Nat)      -- the item object that iteration yields at position pos (pos ≥ length: an object the block does not hold)
  | other
  deriving DecidableEq, Repr

inductive LookOut where
  | item (pos : Nat)      -- position (in iteration order) of the returned item
  | indexError
  | keyError
  | typeError
  deriving DecidableEq, Repr

/-- python list indexing: −n ≤ i < n -/
def pyIndex (n : Nat) (i : Int) : Option Nat :=
  if 0 ≤ i ∧ i < n then some i.toNat
  else if i < 0 ∧ -i ≤ n then some (n - (-i).toNat)
  else none

def firstWithLabel (labels : List Nat) (l : Nat) : Option Nat := labels.findIdx? (· == l)

def getItem (labels : List Nat) : Key → LookOut
  | .idx i => match pyIndex labels.length i with | some p => .item p | none => .indexError
  | .label l => match firstWithLabel labels l with | some p => .item p | none => .keyError
  | .item _ => .typeError
  | .other => .typeError

def containsLabel (labels : List Nat) (l : Nat) : Bool := labels.any (· == l)

/-- `key in block`: labels and item objects are answered, every other kind of key raises TypeError
    (tdfData3D.py:335-340, tdfForce3D.py:331-336, tdfEMG.py:190-196, tdfEvents.py:130-136) -/
inductive InOut where
  | yes | no | typeError
  deriving DecidableEq, Repr

def memberOf (labels : List Nat) : Key → InOut
  | .label l => if containsLabel labels l then .yes else .no
  | .item p => if p < labels.length then .yes else .no
  | .idx _ => .typeError
  | .other => .typeError

end Tdf
