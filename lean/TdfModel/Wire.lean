/-
  Wire.lean — abstract block values <-> s-expressions (positional lists; see harness/absval.py).
  Correspondence glue, not part of any theorem.
-/
import TdfModel.Sexp
import TdfModel.Blocks
namespace Tdf
namespace Wire
open V

def u32s? (v : V) : Option (List UInt32) := do (← v.nats?).mapM (fun n => if n < 4294967296 then some (UInt32.ofNat n) else none)
def u64s? (v : V) : Option (List UInt64) := do (← v.nats?).mapM (fun n => if n < 18446744073709551616 then some (UInt64.ofNat n) else none)
def u32? (v : V) : Option UInt32 := do let n ← v.nat?; if n < 4294967296 then some (UInt32.ofNat n) else none
def ofU32s (l : List UInt32) : V := ofNats (l.map (·.toNat))
def ofU64s (l : List UInt64) : V := ofNats (l.map (·.toNat))
def ofU32 (x : UInt32) : V := .int x.toNat

def frame? : V → Option (Option Frame)
  | .sym "none" => some none
  | v => do some (some (← u32s? v))
def frames? (v : V) : Option (List (Option Frame)) := do (← v.list?).mapM frame?
def ofFrame : Option Frame → V
  | none => .sym "none"
  | some f => ofU32s f
def ofFrames (fs : List (Option Frame)) : V := .list (fs.map ofFrame)

def track? : V → Option Track
  | .list [l, fs] => do some ⟨← l.nats?, ← frames? fs⟩
  | _ => none
def ofTrack (t : Track) : V := .list [ofNats t.label, ofFrames t.frames]
def tracks? (v : V) : Option (List Track) := do (← v.list?).mapM track?
def ofTracks (ts : List Track) : V := .list (ts.map ofTrack)

def pair? : V → Option (Nat × Nat)
  | .list [a, b] => do some (← a.nat?, ← b.nat?)
  | _ => none

def data3d? : V → Option Data3D
  | .list [fmt, nf, fr, st, vol, rot, tr, flag, links, tracks] => do
    some ⟨← fmt.nat?, ← nf.nat?, ← fr.int?, ← u32? st, ← u32s? vol, ← u32s? rot, ← u32s? tr, ← flag.nat?,
          ← (← links.list?).mapM pair?, ← tracks? tracks⟩
  | _ => none
def ofData3D (x : Data3D) : V :=
  .list [.int x.fmt, .int x.nFrames, .int x.freq, ofU32 x.startTime, ofU32s x.volume, ofU32s x.rot, ofU32s x.transl,
         .int x.flag, .list (x.links.map (fun l => .list [.int l.1, .int l.2])), ofTracks x.tracks]

def emg? : V → Option EMG
  | .list [fr, st, ns, chans, tracks] => do
    some ⟨← fr.int?, ← u32? st, ← ns.nat?, ← chans.ints?, ← tracks? tracks⟩
  | _ => none
def ofEMG (x : EMG) : V := .list [.int x.freq, ofU32 x.startTime, .int x.nSamples, ofInts x.chans, ofTracks x.tracks]

def force3d? : V → Option Force3D
  | .list [fr, st, nf, vol, rot, tr, tracks] => do
    some ⟨← fr.int?, ← u32? st, ← nf.nat?, ← u32s? vol, ← u32s? rot, ← u32s? tr, ← tracks? tracks⟩
  | _ => none
def ofForce3D (x : Force3D) : V :=
  .list [.int x.freq, ofU32 x.startTime, .int x.nFrames, ofU32s x.volume, ofU32s x.rot, ofU32s x.transl, ofTracks x.tracks]

def platdata? : V → Option PlatData
  | .list [fr, st, nf, chans, plats] => do
    some ⟨← fr.int?, ← u32? st, ← nf.nat?, ← chans.nats?, ← (← plats.list?).mapM frames?⟩
  | _ => none
def ofPlatData (x : PlatData) : V :=
  .list [.int x.freq, ofU32 x.startTime, .int x.nFrames, ofNats x.chans, .list (x.plats.map ofFrames)]

def platinfo? : V → Option PlatInfo
  | .list [l, s, p] => do some ⟨← l.nats?, ← u32s? s, ← u32s? p⟩
  | _ => none
def platcalib? : V → Option PlatCalib
  | .list [chans, plats] => do some ⟨← chans.ints?, ← (← plats.list?).mapM platinfo?⟩
  | _ => none
def ofPlatCalib (x : PlatCalib) : V :=
  .list [ofInts x.chans, .list (x.plats.map (fun p => .list [ofNats p.label, ofU32s p.size, ofU32s p.position]))]

def cell? : V → Option (Option (List Frame))
  | .sym "none" => some none
  | v => do some (some (← (← v.list?).mapM u32s?))
def ofCell : Option (List Frame) → V
  | none => .sym "none"
  | some pts => .list (pts.map ofU32s)
def data2d? : V → Option Data2D
  | .list [nc, nf, fr, st, fl, cm, rows] => do
    some ⟨← nc.nat?, ← nf.nat?, ← fr.int?, ← u32? st, ← fl.nat?, ← cm.nats?,
          ← (← rows.list?).mapM (fun r => do (← r.list?).mapM cell?)⟩
  | _ => none
def ofData2D (x : Data2D) : V :=
  .list [.int x.nCams, .int x.nFrames, .int x.freq, ofU32 x.startTime, .int x.flags, ofNats x.camMap,
         .list (x.cells.map (fun r => .list (r.map ofCell)))]

def cam? : V → Option Cam
  | .list [fl, vp] => do some ⟨← u64s? fl, ← vp.ints?⟩
  | _ => none
def calib? : V → Option Calib
  | .list [fmt, dm, vol, rot, tr, cm, cams] => do
    some ⟨← fmt.nat?, ← dm.int?, ← u32s? vol, ← u32s? rot, ← u32s? tr, ← cm.ints?, ← (← cams.list?).mapM cam?⟩
  | _ => none
def ofCalib (x : Calib) : V :=
  .list [.int x.fmt, .int x.distModel, ofU32s x.volume, ofU32s x.rot, ofU32s x.transl, ofInts x.camMap,
         .list (x.cams.map (fun c => .list [ofU64s c.fl, ofInts c.vp]))]

def optchan? : V → Option OptChan
  | .list [i, l, t, n, vp] => do some ⟨← i.int?, ← l.nats?, ← t.nats?, ← n.nats?, ← vp.ints?⟩
  | _ => none
def optical? : V → Option Optical
  | .list [fmt, chans] => do some ⟨← fmt.nat?, ← (← chans.list?).mapM optchan?⟩
  | _ => none
def ofOptical (x : Optical) : V :=
  .list [.int x.fmt, .list (x.chans.map (fun c =>
    .list [.int c.idx, ofNats c.lens, ofNats c.camType, ofNats c.name, ofInts c.vp]))]

def event? : V → Option Event
  | .list [l, k, vs] => do some ⟨← l.nats?, ← k.nat?, ← u32s? vs⟩
  | _ => none
def events? : V → Option Events
  | .list [fmt, st, evs] => do some ⟨← fmt.nat?, ← u32? st, ← (← evs.list?).mapM event?⟩
  | _ => none
def ofEvents (x : Events) : V :=
  .list [.int x.fmt, ofU32 x.startTime, .list (x.events.map (fun e => .list [ofNats e.label, .int e.kind, ofU32s e.values]))]

/-- one block of any of the nine kinds -/
inductive AnyBlock where
  | data3d (x : Data3D) | emg (x : EMG) | force3d (x : Force3D) | platdata (x : PlatData)
  | platcalib (x : PlatCalib) | data2d (x : Data2D) | calib (x : Calib) | optical (x : Optical)
  | events (x : Events)

def parseBlock (kind : String) (v : V) : Option AnyBlock :=
  match kind with
  | "data3d" => (data3d? v).map .data3d
  | "emg" => (emg? v).map .emg
  | "force3d" => (force3d? v).map .force3d
  | "platdata" => (platdata? v).map .platdata
  | "platcalib" => (platcalib? v).map .platcalib
  | "data2d" => (data2d? v).map .data2d
  | "calib" => (calib? v).map .calib
  | "optical" => (optical? v).map .optical
  | "events" => (events? v).map .events
  | _ => none

def AnyBlock.toV : AnyBlock → V
  | .data3d x => ofData3D x | .emg x => ofEMG x | .force3d x => ofForce3D x | .platdata x => ofPlatData x
  | .platcalib x => ofPlatCalib x | .data2d x => ofData2D x | .calib x => ofCalib x | .optical x => ofOptical x
  | .events x => ofEvents x
def AnyBlock.enc : AnyBlock → Bytes
  | .data3d x => x.enc | .emg x => x.enc | .force3d x => x.enc | .platdata x => x.enc
  | .platcalib x => x.enc | .data2d x => x.enc | .calib x => x.enc | .optical x => x.enc | .events x => x.enc
def AnyBlock.size : AnyBlock → Nat
  | .data3d x => x.size | .emg x => x.size | .force3d x => x.size | .platdata x => x.size
  | .platcalib x => x.size | .data2d x => x.size | .calib x => x.size | .optical x => x.size | .events x => x.size
def AnyBlock.valid : AnyBlock → Bool
  | .data3d x => x.valid | .emg x => x.valid | .force3d x => x.valid | .platdata x => x.valid
  | .platcalib x => x.valid | .data2d x => x.valid | .calib x => x.valid | .optical x => x.valid | .events x => x.valid
/-- the on-disk format code the container records for the block -/
def AnyBlock.fmt : AnyBlock → Nat
  | .data3d x => x.fmt | .emg _ => 1 | .force3d _ => 1 | .platdata _ => 1
  | .platcalib _ => 2 | .data2d _ => 2 | .calib x => x.fmt | .optical x => x.fmt | .events x => x.fmt

def decoder (kind : String) (fmt : Nat) : Option (D AnyBlock) :=
  match kind with
  | "data3d" => some (do let x ← Data3D.dec fmt; pure (.data3d x))
  | "emg" => some (do let x ← EMG.dec fmt; pure (.emg x))
  | "force3d" => some (do let x ← Force3D.dec fmt; pure (.force3d x))
  | "platdata" => some (do let x ← PlatData.dec fmt; pure (.platdata x))
  | "platcalib" => some (do let x ← PlatCalib.dec fmt; pure (.platcalib x))
  | "data2d" => some (do let x ← Data2D.dec fmt; pure (.data2d x))
  | "calib" => some (do let x ← Calib.dec fmt; pure (.calib x))
  | "optical" => some (do let x ← Optical.dec fmt; pure (.optical x))
  | "events" => some (do let x ← Events.dec fmt; pure (.events x))
  | _ => none

def maskBytes (m : List Bool) : Bytes := m.map (fun b => if b then 1 else 0)

end Wire
end Tdf
