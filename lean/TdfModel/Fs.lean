/-
  Fs.lean — Tdf.new / Tdf.copy / Tdf(path) + __enter__ over a file system modelled as a finite map
  path → node. Anchors: basictdf.py:158-162 (existence check on construction), 176-179 (signature
  check), 473-526 (new), 563-575 (copy). `Path.exists()` is true for files and directories alike.
  Not modelled: the race between `exists()` and `open('wb')` / `copyfile` (OS behaviour).
-/
import TdfModel.Container
namespace Tdf

inductive Node where
  | file (b : Bytes)
  | dir
  deriving DecidableEq, Repr

abbrev Fs := List (Nat × Node)      -- association list, first match wins; paths are just ids

def Fs.get (fs : Fs) (p : Nat) : Option Node :=
  match fs with
  | [] => none
  | (q, n) :: rest => if q = p then some n else Fs.get rest p

def Fs.set (fs : Fs) (p : Nat) (n : Node) : Fs := (p, n) :: fs

inductive FsOut where
  | ok
  | fileExists      -- FileExistsError
  | notFound        -- FileNotFoundError
  | invalid         -- "Invalid TDF file" (or any failure to parse header/table)
  | isDir           -- open() refuses a directory
  deriving DecidableEq, Repr

def fsNew (fs : Fs) (p : Nat) (now : Int) : Fs × FsOut :=
  match fs.get p with
  | some _ => (fs, .fileExists)
  | none => (fs.set p (.file (newFile now)), .ok)

def fsCopy (fs : Fs) (src dst : Nat) : Fs × FsOut :=
  match fs.get dst with
  | some _ => (fs, .fileExists)
  | none =>
    match fs.get src with
    | some (.file b) => (fs.set dst (.file b), .ok)
    | some .dir => (fs, .isDir)
    | none => (fs, .notFound)

/-- `Tdf(p)` followed by `__enter__`: either an open object or a refusal — never data from a non-TDF file -/
def fsOpen (fs : Fs) (p : Nat) : Except FsOut TdfSt :=
  match fs.get p with
  | none => .error .notFound
  | some .dir => .error .isDir
  | some (.file b) =>
    match openFile b with
    | some s => .ok s
    | none => .error .invalid

/-- a container operation applied to the file at path p (inside a write context) -/
def fsMutate (fs : Fs) (p : Nat) (op : Op) : Fs :=
  match fsOpen fs p with
  | .ok s => fs.set p (.file (step s op).1.disk)
  | .error _ => fs

end Tdf
