/-
  Fs.lean — Tdf.new / Tdf.copy / Tdf(path) + __enter__ over a file system modelled as a finite map
  path → node. Anchors: basictdf.py:158-162 (existence check on construction), 176-179 (signature
  check), 473-526 (new), 563-575 (copy). `Path.exists()` is true for files and directories alike.
  Not modelled: the race between `exists()` and `open('wb')` / `copyfile` (OS behaviour).
-/
import TdfModel.Container
namespace Tdf

inductive Node where
  | file (b : Bytes)
  | dir
  deriving DecidableEq, Repr

abbrev Fs := List (Nat × Node)      -- association list, first match wins; paths are just ids

def Fs.get (fs : Fs) (p : Nat) : Option Node :=
  match fs with
  | [] => none
  | (q, n) :: rest => if q = p then some n else Fs.get rest p

def Fs.set (fs : Fs) (p : Nat) (n : Node) : Fs := (p, n) :: fs

inductive FsOut where
  | ok
  | fileExists      -- FileExistsError
  | notFound        -- FileNotFoundError
  | invalid         -- "Invalid TDF file" (or any failure to parse header/table)
  | isDir           -- open() refuses a directory
  deriving DecidableEq, Repr

def fsNew (fs : Fs) (p : Nat) (now : Int) : Fs × FsOut :=
  match fs.get p with
  | some _ => (fs, .fileExists)
  | none => (fs.set p (.file (newFile now)), .ok)

def fsCopy (fs : Fs) (src dst : Nat) : Fs × FsOut :=
  match fs.get dst with
  | some _ => (fs, .fileExists)
  | none =>
    match fs.get src with
    | some (.file b) => (fs.set dst (.file b), .ok)
    | some .dir => (fs, .isDir)
    | none => (fs, .notFound)

/-- `Tdf(p)` followed by `__enter__`: either an open object or a refusal — never data from a non-TDF file -/
def fsOpen (fs : Fs) (p : Nat) : Except FsOut TdfSt :=
  match fs.get p with
  | none => .error .notFound
  | some .dir => .error .isDir
  | some (.file b) =>
    match openFile b with
    | some s => .ok s
    | none => .error .invalid

/-- a container operation applied to the file at path p (inside a write context) -/
def fsMutate (fs : Fs) (p : Nat) (op : Op) : Fs :=
  match fsOpen fs p with
  | .ok s => fs.set p (.file (step s op).1.disk)
  | .error _ => fs

/-! ### long-lived objects

A `Tdf` object remembers only its path between contexts (`file_path`; basictdf.py:158-166). Every
`__enter__` — explicit, or implicit through `provide_context_if_needed` — opens the path again and
parses signature, header and table again (basictdf.py:172-196); nothing learnt in an earlier context
is trusted. Between two contexts anything may happen to the file (`put`, `del`: other programs).
A refused `__enter__` leaves the object outside any context (handle closed, read-only mode). -/

def Fs.del (fs : Fs) (p : Nat) : Fs := fs.filter (fun e => e.1 != p)

structure World where
  fs : Fs
  objs : List (Nat × Nat) := []       -- object id ↦ path
  deriving Repr

def World.pathOf (w : World) (o : Nat) : Option Nat := (w.objs.find? (fun e => e.1 == o)).map (·.2)

inductive WOp where
  | put (p : Nat) (b : Bytes)         -- the outside world replaces (or creates) the file at p
  | del (p : Nat)                     -- … or deletes it
  | mkdir (p : Nat)
  | construct (o p : Nat)             -- `o = Tdf(p)`
  | enter (o : Nat)                   -- `with o:` / any reader that provides its own context; the context is left again
  | new (p : Nat) (now : Int)
  | copy (o dst : Nat)                -- `o.copy(dst)`
  deriving Repr

def World.step (w : World) : WOp → World × FsOut
  | .put p b => ({ w with fs := (w.fs.del p).set p (.file b) }, .ok)
  | .del p => ({ w with fs := w.fs.del p }, .ok)
  | .mkdir p => ({ w with fs := (w.fs.del p).set p .dir }, .ok)
  | .construct o p =>
    match w.fs.get p with
    | none => (w, .notFound)
    | some _ => ({ w with objs := (o, p) :: w.objs }, .ok)
  | .enter o =>
    match w.pathOf o with
    | none => (w, .notFound)
    | some p => (w, match fsOpen w.fs p with | .ok _ => .ok | .error e => e)
  | .new p now => let r := fsNew w.fs p now; ({ w with fs := r.1 }, r.2)
  | .copy o dst =>
    match w.pathOf o with
    | none => (w, .notFound)
    | some src => let r := fsCopy w.fs src dst; ({ w with fs := r.1 }, r.2)

def World.run (w : World) (ops : List WOp) : World := ops.foldl (fun w op => (w.step op).1) w

end Tdf
