import TdfModel.Bytes
import TdfModel.Dec
import TdfModel.Cp1252
import TdfModel.Str
import TdfModel.Sexp
import TdfModel.Rle
import TdfModel.Blocks
