"""S-expression wire format shared with the Lean driver (TdfModel/Sexp.lean)."""


class Sym(str):
    """a bare symbol"""
    __slots__ = ()


def dumps(v) -> str:
    if v is None:
        return "none"
    if isinstance(v, bool):
        return "1" if v else "0"
    if isinstance(v, Sym):
        return str(v)
    if isinstance(v, int):
        return str(v)
    if isinstance(v, (bytes, bytearray)):
        return "#" + bytes(v).hex()
    if isinstance(v, str):
        return v  # symbols only; text travels as code-point lists (see cps)
    if isinstance(v, (list, tuple)):
        return "(" + " ".join(dumps(x) for x in v) + ")"
    raise TypeError(f"cannot serialise {type(v)}")


def cps(s: str):
    """text -> list of code points"""
    return [ord(c) for c in s]


def uncps(l) -> str:
    return "".join(chr(c) for c in l)


def loads(s: str):
    s = s.strip()
    pos = 0
    n = len(s)

    def parse():
        nonlocal pos
        while pos < n and s[pos] in " \t\r\n":
            pos += 1
        if pos >= n:
            raise ValueError("eof")
        c = s[pos]
        if c == "(":
            pos += 1
            out = []
            while True:
                while pos < n and s[pos] in " \t\r\n":
                    pos += 1
                if pos >= n:
                    raise ValueError("unterminated list")
                if s[pos] == ")":
                    pos += 1
                    return out
                out.append(parse())
        e = pos
        while e < n and s[e] not in " \t\r\n()":
            e += 1
        tok = s[pos:e]
        pos = e
        if tok.startswith("#"):
            return bytes.fromhex(tok[1:])
        if tok.lstrip("-").isdigit():
            return int(tok)
        return Sym(tok)

    v = parse()
    return v
