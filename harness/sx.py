"""S-expression wire format shared with the Lean driver (TdfModel/Sexp.lean)."""


class Sym(str):
    """a bare symbol"""
    __slots__ = ()


def dumps(v) -> str:
    if v is None:
        return "none"
    if isinstance(v, bool):
        return "1" if v else "0"
    if isinstance(v, Sym):
        return str(v)
    if isinstance(v, int):
        return str(v)
    if isinstance(v, (bytes, bytearray)):
        return "#" + bytes(v).hex()
    if isinstance(v, str):
        return v  # symbols only; text travels as code-point lists (see cps)
    if isinstance(v, (list, tuple)):
        return "(" + " ".join(dumps(x) for x in v) + ")"
    raise TypeError(f"cannot serialise {type(v)}")


def cps(s: str):
    """text -> list of code points"""
    return [ord(c) for c in s]


def uncps(l) -> str:
    return "".join(chr(c) for c in l)


import re as _re

_TOK = _re.compile(r"[()]|[^\s()]+")


def loads(s: str):
    stack = [[]]
    for tok in _TOK.findall(s):
        if tok == "(":
            stack.append([])
        elif tok == ")":
            if len(stack) < 2:
                raise ValueError("unbalanced )")
            top = stack.pop()
            stack[-1].append(top)
        elif tok[0] == "#":
            stack[-1].append(bytes.fromhex(tok[1:]))
        else:
            c = tok[0]
            if c.isdigit() or (c == "-" and len(tok) > 1 and tok[1:].isdigit()):
                stack[-1].append(int(tok))
            else:
                stack[-1].append(Sym(tok))
    if len(stack) != 1 or len(stack[0]) != 1:
        raise ValueError("bad s-expression")
    return stack[0][0]
