"""The BTS-recorded reference capture, parsed by an independent reader (struct only)."""
import hashlib
import struct

import common

PATH = common.REPO / "tests" / "test_files" / "2838~aa~Walking 01.tdf"
SHA256 = None  # pinned below after first computation
KIND_OF_TYPE = {5: "data3d", 11: "emg", 12: "force3d", 9: "platdata", 7: "platcalib", 4: "data2d", 2: "calib", 6: "optical", 16: "events"}
_cache = {}


def raw():
    if "raw" not in _cache:
        _cache["raw"] = PATH.read_bytes()
    return _cache["raw"]


def parse_table(data):
    """independent parser of header + jump table: list of dict(type, format, offset, size, cdate, mdate, adate, comment_raw)"""
    if data[:16] != b"\x82K`A\xd3\x11\x84\xca`\x00\xb6\xac\x16h\x0c\x08":
        raise ValueError("bad signature")
    version, n = struct.unpack_from("<Ii", data, 16)
    out = []
    for i in range(n):
        base = 64 + 288 * i
        typ, fmt, off, size, cd, md, ad = struct.unpack_from("<IIiiiii", data, base)
        out.append(dict(type=typ, format=fmt, offset=off, size=size, cdate=cd, mdate=md, adate=ad,
                        comment_raw=data[base + 32:base + 288], slot=i))
    return dict(version=version, n=n, entries=out)


def entries():
    data = raw()
    t = parse_table(data)
    out = []
    for e in t["entries"]:
        if e["type"] == 0 or e["type"] not in KIND_OF_TYPE:
            continue
        out.append(dict(e, kind=KIND_OF_TYPE[e["type"]], payload=data[e["offset"]:e["offset"] + e["size"]]))
    return out


def sha256():
    return hashlib.sha256(raw()).hexdigest()
