"""C15 — channel numbers stay attached to their items through edits (EMG, platform calibration, platform data)."""
import io
import json
import struct

import numpy as np

import absval as A
import common
from sx import Sym

RULE = ("seeded edit histories (length<=12) on the three channel-mapped block types from three starts (empty block, "
        "constructor-filled block, block decoded from bytes): add with automatic/explicit (free or taken) channel, remove by "
        "label / index (incl. negative and out of range) / item, bulk add / remove, bulk assignment (pairs; items with and "
        "without an invalid element), the caller editing the list it had handed to the constructor, an item of the block being added to ANOTHER block on another channel; then encode + decode. Observed through the public API: (channel, item) pairs and the "
        "channel map in the encoded bytes. non-trivial = history with >=1 removal and >=1 later add; distinct by (kind, start, edits)")
ASSUMPTIONS = ["channels, including automatic ones (max+1), stay inside the on-disk range (i16 / u16): explicit channels within 500 of the top of the range are not generated",
               "items are identified by object identity (python id) on the real side and by opaque ids in the model",
               "EMG has no public accessor for its channel map: it is read from the block's own encoding"]


class Real:
    """wraps one real block; items are tracked by id so that pairs can be compared with the model"""

    def __init__(self, kind, rng):
        self.kind, self.rng = kind, rng
        self.ids = {}          # python id -> model id
        self.objs = {}         # model id -> object
        self.next = 10
        self.n = rng.choice([1, 3, 5])
        self.caller_list = None
        self.other = None

    def new_item(self, label=None):
        rng = self.rng
        if self.kind == "emg":
            from basictdf.tdfEMG import EMGTrack
            it = EMGTrack(label if label is not None else rng.choice(["a", "b", "c", ""]), A.frames_array(A.gen_frames(rng, 1, self.n), 1)[:, 0])
        elif self.kind == "platcalib":
            from basictdf.tdfForcePlatformsCalibration import ForcePlatformInfo
            lab = label if label is not None else rng.choice(["P", "Q", "R"])
            same = rng.random() < 0.3        # value-equal duplicates exercise remove-by-item (first equal)
            it = ForcePlatformInfo(lab, A.f32([0, 0] if same else A.gen_vec(rng, 2)), A.f32([0] * 12 if same else A.gen_vec(rng, 12)).reshape(4, 3))
        else:
            from basictdf.tdfForcePlatformsData import ForcePlatformData
            a = A.frames_array(A.gen_frames(rng, 6, self.n), 6)
            it = ForcePlatformData(a[:, 0:2].copy(), a[:, 2:5].copy(), a[:, 5].copy())
        mid = self.next
        self.next += 1
        self.ids[id(it)] = mid
        self.objs[mid] = it
        return mid, it

    def start(self, how):
        """returns the model start expression"""
        rng = self.rng
        if self.kind == "emg":
            from basictdf.tdfEMG import EMG
            self.blk = EMG(1000, self.n)
        elif self.kind == "platcalib":
            from basictdf.tdfForcePlatformsCalibration import ForcePlatformsCalibrationDataBlock
            if how == "construct":
                items = [self.new_item() for _ in range(rng.randrange(1, 4))]
                self.caller_list = [it for _, it in items]     # the caller keeps (and later edits) the list it handed over
                self.blk = ForcePlatformsCalibrationDataBlock(platforms=self.caller_list)
                return [Sym("construct"), [m for m, _ in items]]
            self.blk = ForcePlatformsCalibrationDataBlock()
        else:
            from basictdf.tdfForcePlatformsData import ForcePlatformsDataBlock
            self.blk = ForcePlatformsDataBlock(0.0, 100, self.n)
        if how == "decode":
            k = rng.randrange(0, 4)
            lo, hi = (0, 60000) if self.kind == "platdata" else (-300, 300)   # decoded starts: room for automatic channels
            chans = A.gen_chans(rng, k, lo, hi)
            items = [self.new_item() for _ in range(k)]
            for c, (_, it) in zip(chans, items):
                (self.blk.addSignal if self.kind == "emg" else self.blk.add_platform)(it, c)
            enc = A.encode(self.blk)
            self.blk = type(self.blk)._build(io.BytesIO(enc), self.blk.format.value)
            # decoded items are new objects: re-identify them in order
            mids = []
            for obj in self.items():
                mid = self.next
                self.next += 1
                self.ids[id(obj)] = mid
                self.objs[mid] = obj
                mids.append(mid)
            return [Sym("decode"), chans, mids]
        return [Sym("empty")]

    def fresh_block(self):
        if self.kind == "emg":
            from basictdf.tdfEMG import EMG
            return EMG(1000, self.n)
        if self.kind == "platcalib":
            from basictdf.tdfForcePlatformsCalibration import ForcePlatformsCalibrationDataBlock
            return ForcePlatformsCalibrationDataBlock()
        from basictdf.tdfForcePlatformsData import ForcePlatformsDataBlock
        return ForcePlatformsDataBlock(0.0, 100, self.n)

    def items(self):
        if self.kind == "emg":
            return list(self.blk)
        if self.kind == "platcalib":
            return [p for _, p in self.blk.platforms]
        return [p for _, p in self.blk]

    def chans(self):
        if self.kind == "emg":
            enc = A.encode(self.blk)
            n = len(self.blk)
            return list(struct.unpack(f"<{n}h", enc[16:16 + 2 * n]))
        if self.kind == "platcalib":
            return [int(c) for c, _ in self.blk.platforms]
        return [int(c) for c, _ in self.blk]

    def written_pairs(self):
        """what the block's own encoding says: number of items and the channel map, read back through the decoder
        (independent of how iteration pairs the two lists up)"""
        try:
            dec = type(self.blk)._build(io.BytesIO(A.encode(self.blk)), self.blk.format.value)
            other = Real(self.kind, self.rng)
            other.blk = dec
            return (len(other.items()), other.chans())
        except Exception as e:
            return ("raises " + type(e).__name__, None)

    def state(self):
        try:
            items = [self.ids.get(id(o), -1) for o in self.items()]
        except Exception as e:
            return ("unreadable", type(e).__name__)
        try:
            st = (self.chans(), items)
        except Exception as e:
            return ("unencodable:" + type(e).__name__, items)
        try:
            n = len(self.blk)
        except Exception:
            n = None
        self.extra = (n, self.written_pairs())
        return st


def gen_edit(r, rng):
    """returns (python thunk, model edit, description)"""
    kind = r.kind
    st = r.state()
    chans = st[0] if isinstance(st[0], list) else []
    items = st[1] if isinstance(st[1], list) else []
    lo, hi = (0, 65536) if kind == "platdata" else (-32768, 32768)
    x = rng.random()
    add = r.blk.addSignal if kind == "emg" else r.blk.add_platform
    if items and rng.random() < 0.08:
        # an item of this block is ALSO put into another block, on another channel (two recordings sharing one platform
        # description / one signal object): the channel belongs to the (block, item) pair, not to the item
        obj = rng.choice(r.items())
        if r.other is None:
            r.other = r.fresh_block()
        oadd = r.other.addSignal if kind == "emg" else r.other.add_platform
        how = rng.choice(["auto", "explicit"])

        def share():
            try:
                if how == "auto":
                    oadd(obj)
                else:
                    oadd(obj, 7000 + len(list(r.other)))
            except ValueError:
                pass            # (EMG: two signals with one label cannot both be removed by label later; irrelevant here)
        return (share, [Sym("removeMany"), []], "an item of this block is added to another block as well")
    if getattr(r, "caller_list", None) is not None and rng.random() < 0.15:
        # the caller edits the list it gave to the constructor: the block took the items, not the list -> nothing changes
        lst = r.caller_list
        _, it = r.new_item()

        def caller_edit():
            lst.append(it)
            if len(lst) > 1 and rng.random() < 0.5:
                del lst[0]
        return (caller_edit, [Sym("removeMany"), []], "caller edits the list it gave to the constructor")
    if x < 0.4 or not items:
        mid, it = r.new_item()
        y = rng.random()
        if y < 0.45:
            return (lambda: add(it), [Sym("add"), mid, Sym("none")], "add auto")
        if y < 0.7 and chans:
            c = rng.choice(chans)
            return (lambda: add(it, c), [Sym("add"), mid, c], "add explicit taken")
        # explicit channels stay far enough below the top of the on-disk range that later automatic channels (max+1) fit too
        c = rng.choice([cc for cc in [0, 1, 2, 7, len(items), len(items) + 1, max(chans + [0]) + 1, hi - 500, lo] if cc not in chans] or [max(chans) + 5])
        return (lambda: add(it, c), [Sym("add"), mid, c], "add explicit free")
    if kind == "emg":
        lab = rng.choice([o.label for o in r.items()] + ["zz"])
        ids = [r.ids[id(o)] for o in r.items() if o.label == lab]
        return (lambda: r.blk.removeSignal(lab), [Sym("removeFirst"), ids], "remove by label")
    if kind == "platcalib":
        y = rng.random()
        if y < 0.3:
            i = rng.choice([0, len(items) - 1, len(items), len(items) + 2, -1, -len(items), -len(items) - 1])
            return (lambda: r.blk.remove_platform(i), [Sym("removeIndex"), i], "remove by index")
        if y < 0.5:
            target = rng.choice(r.items() + [r.new_item()[1]])
            ids = [r.ids[id(o)] for o in r.items() if o == target]
            return (lambda: r.blk.remove_platform(target), [Sym("removeFirst"), ids], "remove by item")
        if y < 0.6:
            idx = [rng.choice([0, 0, 1, len(items)]) for _ in range(rng.randrange(1, 3))]
            return (lambda: r.blk.remove_platforms(idx), [Sym("removeMany"), idx], "remove many")
        if y < 0.68:
            # bulk add from the caller's iterable that RAISES after delivering k platforms (an error of the caller's own, or an
            # interrupt): whatever was taken in before that must be there WITH its channel - the two lists stay aligned
            new = [r.new_item() for _ in range(rng.randrange(1, 4))]
            k = rng.randrange(0, len(new) + 1)
            boom = rng.choice([OSError, KeyError, KeyboardInterrupt])

            def gen():
                for j, (_, it) in enumerate(new):
                    if j == k:
                        raise boom("the caller's iterable failed")
                    yield it
                if k == len(new):
                    raise boom("the caller's iterable failed")

            def bulk():
                try:
                    r.blk.add_platforms(gen())
                except BaseException as e:
                    if not isinstance(e, boom):
                        raise
            return (bulk, [Sym("addMany"), [[m, Sym("none")] for m, _ in new[:k]]], "add many from an iterable that raises midway")
        if y < 0.8:
            new = [r.new_item() for _ in range(rng.randrange(1, 3))]
            if rng.random() < 0.5:
                return (lambda: r.blk.add_platforms([it for _, it in new]), [Sym("addMany"), [[m, Sym("none")] for m, _ in new]], "add many auto")
            cs = [rng.choice(chans + [50, 51, 52]) for _ in new]
            return (lambda: r.blk.add_platforms([it for _, it in new], cs), [Sym("addMany"), [[m, c] for (m, _), c in zip(new, cs)]], "add many explicit")
        new = [r.new_item() for _ in range(rng.randrange(0, 4))]
        cs = [rng.choice([0, 1, 2, 3, 9]) for _ in new]

        # what the caller assigns is any iterable of pairs: a list, a tuple, or something that can be walked only ONCE
        # (zip of two lists, a generator, an iterator, the items view of a dict, a map)
        shape = rng.choice(["list", "list", "tuple", "zip", "generator", "iter", "dict-items", "map"])

        def assign():
            pairs = [(c, it) for c, (_, it) in zip(cs, new)]
            r.blk.platforms = {"list": lambda: pairs, "tuple": lambda: tuple(pairs), "zip": lambda: zip(cs, [it for _, it in new]),
                               "generator": lambda: (p for p in pairs), "iter": lambda: iter(pairs),
                               "dict-items": lambda: (dict(pairs).items() if len(set(cs)) == len(cs) else pairs), "map": lambda: map(tuple, pairs)}[shape]()
        return (assign, [Sym("assignPairs"), [[c, m] for c, (m, _) in zip(cs, new)]], "assign pairs")
    # platdata
    new = [r.new_item() for _ in range(rng.randrange(0, 4))]
    bad = rng.random() < 0.3
    lst = [it for _, it in new]
    if bad:
        lst.insert(rng.randrange(0, len(lst) + 1), rng.choice([None, "x", 3]))

    raising = (not bad) and rng.random() < 0.25
    if raising:
        # the caller's iterable raises after delivering all (or some) of the items: the assignment is refused as a whole
        k = rng.randrange(0, len(lst) + 1)

        def gen():
            for j, it in enumerate(lst):
                if j == k:
                    raise OSError("the caller's iterable failed")
                yield it
            raise OSError("the caller's iterable failed")

        def assign_raising():
            r.blk.platforms = gen()
        return (assign_raising, [Sym("assignItems"), [m for m, _ in new], 1], "assign items (iterable raises)")

    def assign():
        r.blk.platforms = lst
    return (assign, [Sym("assignItems"), [m for m, _ in new], 1 if bad else 0], "assign items" + (" (bad element)" if bad else ""))


def subclass_iteration_family(ctx):
    """a user's subclass of EMG that presents its signals in an order of its own (alphabetically, reversed, by channel) by overriding
    `__iter__` — a VIEW for the user's loops. Which signal is bound to which channel, and what is written, is the block's business:
    after adds with explicit and automatic channels and removals by label, the block's encoding (decoded by the plain library class)
    must hold exactly the (channel, label, samples) triples that were given, in the order they were added."""
    import struct
    from basictdf.tdfEMG import EMG, EMGTrack
    rng = ctx.rng

    def mk(order):
        class ViewEMG(EMG):
            def __iter__(self):
                its = list(EMG.__iter__(self))
                if order == "alphabetical":
                    return iter(sorted(its, key=lambda t: t.label))
                if order == "reversed":
                    return iter(its[::-1])
                return iter(sorted(its, key=lambda t: float(t.data[0])))
        return ViewEMG
    for k in range(ctx.n(60, 600)):
        order = rng.choice(["alphabetical", "reversed", "by-first-sample"])
        n = rng.choice([1, 3, 8])
        blk = mk(order)(1000, n)
        expect = []          # (channel, label, first sample) in the order of addition
        labels = rng.sample(["vastus", "biceps", "soleus", "tibialis", "gluteus", "rectus", "a", "Z"], rng.randrange(2, 6))
        free = list(range(0, 30))
        steps = []
        try:
            for lab in labels:
                data = np.array([rng.randrange(-500, 500) + 0.5] + [float(rng.randrange(100)) for _ in range(n - 1)], dtype="<f4")
                if rng.random() < 0.6:
                    ch = rng.choice(free)
                    blk.addSignal(EMGTrack(lab, data), channel=ch)
                else:
                    blk.addSignal(EMGTrack(lab, data))
                    ch = None
                enc = A.encode(blk)
                got_ch = list(struct.unpack(f"<{len(expect) + 1}h", enc[16:16 + 2 * (len(expect) + 1)]))[-1]
                if ch is not None and got_ch != ch:
                    ctx.fail(f"emg subclass with {order} iteration: explicit channel {ch} not honoured (written {got_ch})", dict(order=order, labels=labels), ident="emg subclass view: explicit channel")
                    break
                free = [c for c in free if c != got_ch]
                expect.append((got_ch, lab, float(data[0])))
                steps.append(("add", lab, ch))
                if len(expect) >= 3 and rng.random() < 0.35:
                    victim = rng.choice(expect)
                    blk.removeSignal(victim[1])
                    expect.remove(victim)
                    steps.append(("remove", victim[1]))
            else:
                dec = EMG._build(io.BytesIO(A.encode(blk)), blk.format.value)
                enc = A.encode(blk)
                chans = list(struct.unpack(f"<{len(expect)}h", enc[16:16 + 2 * len(expect)])) if len(dec) == len(expect) else None
                got = [(c, t.label, float(t.data[0])) for c, t in zip(chans or [], EMG.__iter__(dec))]
                ctx.case(("emg-subclass-view", order, tuple(labels), k), nontrivial=len(expect) >= 2, tags=("emg-subclass-view:" + order,))
                if got != expect:
                    ctx.fail(f"emg subclass with {order} iteration: (channel, label, first sample) given {expect}, written {got} after {steps}",
                             dict(order=order, steps=steps), ident="emg subclass view: pairs written differ from pairs given")
        except Exception as e:
            ctx.fail(f"emg subclass with {order} iteration: a valid add/remove/encode raised {type(e).__name__}: {e} after {steps}", dict(order=order, steps=steps),
                     ident="emg subclass view: operation raises")


def run(ctx):
    subclass_iteration_family(ctx)
    rng = ctx.rng
    runs = []
    for k in range(ctx.n(3000, 60000)):
        kind = rng.choice(["emg", "platcalib", "platdata"])
        how = rng.choice(["empty", "decode", "construct"] if kind == "platcalib" else ["empty", "decode"])
        r = Real(kind, rng)
        steps = []
        try:
            start = r.start(how)
        except Exception as e:
            ctx.fail(f"{kind}: cannot create the start block ({how}): {type(e).__name__}: {e}", dict(kind=kind, start=how), ident=f"{kind} start {how}")
            continue
        steps.append((None, "start:" + how, None, r.state(), getattr(r, "extra", None)))
        edits = []
        for _ in range(rng.randrange(2, 13)):
            thunk, medit, desc = gen_edit(r, rng)
            exc = None
            try:
                thunk()
            except Exception as e:
                exc = e
            edits.append(medit)
            st_now = r.state()
            steps.append((medit, desc, exc, st_now, getattr(r, "extra", None)))
        runs.append((kind, how, start, edits, steps, r))
    replies = common.drv_batch([[Sym("cm.run"), start, edits] for _, _, start, edits, _, _ in runs])
    for (kind, how, start, edits, steps, r), rep in zip(runs, replies):
        descs = [s[1] for s in steps]
        extras = [s[4] for s in steps]
        steps = [s[:4] for s in steps]
        removed_then_added = any("remove" in d for d in descs) and any("add" in d for d in descs[[i for i, d in enumerate(descs) if "remove" in d][0]:]) if any("remove" in d for d in descs) else False
        ctx.case((kind, how, str(edits)), nontrivial=removed_then_added, sample=dict(kind=kind, start=how, edits=descs[1:]),
                 tags=[kind, "start=" + how] + [f"{kind}:{d}:{'raised' if e else 'ok'}" for _, d, e, _ in steps[1:]])
        repl = dict(kind=kind, start=str(start), edits=[str(e) for e in edits])
        if rep[0] == "err":
            ctx.diff("cm.start", f"{kind}/{how}: model refuses the start state", repl)
            continue
        prev = None
        for i, ((medit, desc, exc, st), m) in enumerate(zip(steps, rep)):
            m_raised, m_chans, m_items = m[0] == 1, list(m[1]), list(m[2])
            rp = dict(repl, upto=i)
            # ---- oracle: the property itself on the real block
            if not isinstance(st[0], list) or not isinstance(st[1], list):
                ctx.fail(f"{kind} after {desc}: the block can no longer be iterated/encoded ({st[0]})", rp, ident=f"{kind} unusable after {desc.split(' (')[0]}")
                break
            chans, items = st
            ex = extras[i]
            if ex is not None:
                n_len, (n_written, map_written) = ex
                if n_len is not None and n_len != len(items):
                    ctx.fail(f"{kind} after {desc}: len(block) = {n_len} but it yields {len(items)} (channel, item) pairs", rp, ident=f"{kind} len != pairs after {desc.split(' (')[0]}")
                    break
                if n_written != len(items) or map_written != chans:
                    ctx.fail(f"{kind} after {desc}: the block yields pairs on channels {chans} but its encoding holds {n_written} items with channel map {map_written}", rp,
                             ident=f"{kind} encoding != pairs after {desc.split(' (')[0]}")
                    break
            if len(chans) != len(items):
                ctx.fail(f"{kind} after {desc}: {len(chans)} channels for {len(items)} items", rp, ident=f"{kind} misaligned after {desc.split(' (')[0]}")
                break
            if len(set(chans)) != len(chans):
                ctx.fail(f"{kind} after {desc}: duplicate channel numbers {chans}", rp, ident=f"{kind} duplicate channel after {desc.split(' (')[0]}")
                break
            if prev is not None:
                pc, pi = prev
                before = dict(zip(pi, pc))
                for c, it in zip(chans, items):
                    if it in before and before[it] != c and not desc.startswith("assign"):
                        ctx.fail(f"{kind} after {desc}: a surviving item changed channel {before[it]} -> {c}", rp, ident=f"{kind} survivor re-channelled by {desc.split(' (')[0]}")
                        break
                if desc == "add explicit taken" and (exc is None or not isinstance(exc, ValueError)):
                    ctx.fail(f"{kind}: explicit channel already in use was not refused with ValueError ({type(exc).__name__ if exc else 'accepted'})", rp, ident=f"{kind} taken channel accepted")
                    break
                if desc == "add explicit free":
                    if exc is not None or items[:-1] != pi or chans[-1] != medit[2]:
                        ctx.fail(f"{kind}: a free explicit channel {medit[2]} was not honoured ({type(exc).__name__ if exc else chans})", rp, ident=f"{kind} free channel not honoured")
                        break
                if desc == "assign pairs":
                    want = [(c, mk) for c, mk in medit[1]]
                    distinct = len({c for c, _ in want}) == len(want)
                    if exc is None and list(zip(chans, items)) != want:
                        ctx.fail(f"{kind}: the pairs {want} were assigned (any iterable of pairs) without an error, but the block now holds {list(zip(chans, items))}: explicit channels not honoured", rp,
                                 ident=f"{kind} assigned pairs not installed")
                        break
                    if exc is not None and distinct:
                        ctx.fail(f"{kind}: assigning pairs with distinct channels {[c for c, _ in want]} was refused ({type(exc).__name__})", rp, ident=f"{kind} valid assignment refused")
                        break
                if desc == "add auto":
                    if exc is not None or len(items) != len(pi) + 1 or chans[-1] in pc:
                        ctx.fail(f"{kind}: automatic channel request failed or reused a channel ({type(exc).__name__ if exc else chans})", rp, ident=f"{kind} automatic channel")
                        break
            prev = (chans, items)
            # ---- correspondence
            if (exc is not None) != m_raised:
                ctx.diff("cm.raised", f"{kind} step {i} {desc}: real {'raised ' + type(exc).__name__ if exc else 'ok'} model raised={m_raised}", rp)
                break
            if chans != m_chans or items != m_items:
                ctx.diff("cm.state", f"{kind} step {i} {desc}: real {list(zip(chans, items))} model {list(zip(m_chans, m_items))}", rp)
                break
        else:
            # encode emits the pairs in order; decode brings them back
            try:
                enc = A.encode(r.blk)
                dec = type(r.blk)._build(io.BytesIO(enc), r.blk.format.value)
                r2 = Real(kind, rng)
                r2.blk = dec
                c2 = r2.chans()
                if c2 != prev[0] or len(r2.items()) != len(prev[1]):
                    ctx.fail(f"{kind}: encode/decode does not bring back the (channel, item) pairs in order", repl, ident=f"{kind} pairs lost in encode/decode")
            except Exception as e:
                ctx.fail(f"{kind}: block cannot be encoded/decoded after the history: {type(e).__name__}: {e}", repl, ident=f"{kind} encode after edits")


def replay(path):
    data = json.load(open(path))
    for it in (data.get("failures") or []) + (data.get("broken_correspondence") or []):
        print(it.get("what") or it.get("detail"))
        print("   ", it["replay"].get("kind"), it["replay"].get("start"), it["replay"].get("edits"))
    return 1 if data.get("failures") else 0
