"""C12 — don't-care bytes (reserved words, padding, the 256-byte platform pad, bytes after a string's NUL)
never influence what is read: scramble exactly the positions the model's care mask marks as don't-care."""
import io
import json

import absval as A
import blockrun as B
import common

RULE = ("(2 % of the blocks, 8 % in the thorough tier, sit on the scale axis: 255 ... 65537 frames or 15 ... 257 items) " 
        "encodings from three sources (library-written blocks of all nine types, the same with random junk, the 8 blocks of the "
        "BTS capture) plus file headers and table entries; the Lean model supplies the care mask; every don't-care byte is "
        "overwritten with values biased towards the five bytes cp1252 cannot decode and towards non-zero first bytes; "
        "non-trivial = encoding with >= 1 don't-care byte; distinct by (kind, value, junk seed)")
ASSUMPTIONS = ["which bytes are don't-care is taken from the model's instrumented decoder (theorem C12.non_interference is about that mask)"]
HOSTILE = [0x81, 0x8D, 0x8F, 0x90, 0x9D, 0xFF, 0x01, 0x41]


SMALL_INTS = [1, 2, 3, 7, 12, 19, 20, 49, 255, 256, 65535, 65536, 2 ** 31 - 1, 2 ** 31, 2 ** 32 - 1]
STYLES = (0, 1, 2, 3, 4)


def dontcare_runs(mask):
    runs, i, n = [], 0, len(mask)
    while i < n:
        if mask[i] == 0:
            j = i
            while j < n and mask[j] == 0:
                j += 1
            runs.append((i, j - i))
            i = j
        else:
            i += 1
    return runs


def scramble(rng, data, mask, style):
    """style 0: bytes cp1252 cannot decode; 1: random; 2: 0xFF fill; 3: every reserved word / pad holds a small
    little-endian integer (a reader that 'uses' such a word as a count, flag, length or high word shows up), text
    tails hold printable text; 4: exactly one don't-care byte is changed"""
    out = bytearray(data)
    if style == 4:
        idx = [i for i, m in enumerate(mask) if m == 0]
        if idx:
            out[rng.choice(idx)] = rng.choice([1, 2, 0x20, 0x41, 0x80, 0xFF])
        return bytes(out)
    if style == 3:
        for start, ln in dontcare_runs(mask):
            if ln % 4 == 0 and ln <= 32:
                for k in range(0, ln, 4):
                    out[start + k:start + k + 4] = rng.choice(SMALL_INTS).to_bytes(4, "little")
            else:
                fill = rng.choice([b" ", b"A", b"\x01", b"\t", b"ab "])
                out[start:start + ln] = (fill * ln)[:ln]
        return bytes(out)
    for i, m in enumerate(mask):
        if m == 0:
            if style == 0:
                out[i] = rng.choice(HOSTILE)
            elif style == 1:
                out[i] = rng.randrange(256)
            else:
                out[i] = 0xFF
    return bytes(out)


def real_decode(kind, fmt, data, strict=False):
    """strict: with the process treating warnings as errors (python -W error, pytest filterwarnings=error): what the reader
    returns for don't-care bytes must not turn into an exception there either"""
    import warnings
    st = io.BytesIO(data + B.SENTINEL)
    if strict:
        with warnings.catch_warnings():
            warnings.simplefilter("error")
            blk = A.klass(kind)._build(st, fmt)
    else:
        blk = A.klass(kind)._build(st, fmt)
    return blk, st.tell()


def strict_ok(kind, fmt, data):
    try:
        real_decode(kind, fmt, data, strict=True)
        return True
    except Exception:
        return False


def check_block(ctx, kind, fmt, data, mask, orig_abs, canonical, source, rep):
    """data: a valid encoding; mask: model care mask (bytes 0/1) of the same length"""
    if len(mask) != len(data):
        ctx.diff("mask.length", f"{kind}/{source}: model consumed {len(mask)} of {len(data)} bytes", rep)
        return
    ndc = sum(1 for m in mask if m == 0)
    # every fourth block is read with warnings treated as errors - provided the unscrambled encoding reads cleanly that way
    strict = ctx.rng.random() < 0.25 and strict_ok(kind, fmt, data)
    for style in STYLES:
        s = scramble(ctx.rng, data, mask, style)
        try:
            blk, tell = real_decode(kind, fmt, s, strict=strict)
            got = A.norm(A.absv(kind, blk))
            reenc = A.encode(blk)
        except Exception as e:
            ctx.fail(f"{kind}/{source}: decoding fails once don't-care bytes are changed{' (process with warnings as errors)' if strict else ''}: {type(e).__name__}: {str(e)[:100]}",
                     dict(rep, style=style, scrambled=s.hex() if len(s) < 4000 else None), ident=f"{kind} dontcare decode raises")
            return
        if got != orig_abs:
            ctx.fail(f"{kind}/{source}: decoded content changes when only don't-care bytes change",
                     dict(rep, style=style, scrambled=s.hex() if len(s) < 4000 else None), ident=f"{kind} dontcare changes content")
            return
        if tell != len(data):
            ctx.fail(f"{kind}/{source}: consumed {tell} instead of {len(data)} bytes after scrambling", dict(rep, style=style), ident=f"{kind} dontcare changes consumption")
            return
        if canonical is not None and reenc != canonical:
            ctx.fail(f"{kind}/{source}: re-encoding after scrambling differs from the canonical bytes", dict(rep, style=style), ident=f"{kind} dontcare reencode")
            return
        if canonical is None:
            # BTS-written source: same size, equal on every care position, zero on don't-care positions
            if len(reenc) != len(data) or any(m == 1 and a != b for a, b, m in zip(reenc, data, mask)):
                ctx.fail(f"{kind}/{source}: re-encoding differs from the original on care positions or in size", dict(rep, style=style), ident=f"{kind} capture reencode")
                return
        if style == 0:
            md = B.model_decode(kind, fmt, s + B.SENTINEL)
            if not md["ok"] or md["abs"] != orig_abs or md["consumed"] != len(data):
                ctx.diff("blk.dec.scrambled", f"{kind}/{source}: model decodes scrambled bytes differently from the real code", dict(rep, style=style))
    return ndc


def run(ctx):
    n = ctx.n(700, 20000)
    cases = B.gen_cases(ctx, n)
    models = B.model_side(cases)
    for (kind, v), m in zip(cases, models):
        rep = dict(kind=kind, v=v)
        r = B.real_side(kind, v)
        if "exc" in r:
            ctx.fail(f"{kind}: valid block fails at {r['stage']}: {r['exc'][:100]}", rep, ident=f"{kind} stage={r['stage']}")
            continue
        if m["mask"] is None:
            ctx.diff("blk.dec", f"{kind}: model cannot decode its own encoding", rep)
            continue
        mask = m["mask"][:len(m["enc"])]
        ndc = sum(1 for x in mask if x == 0)
        ctx.case((kind, v), nontrivial=ndc > 0, sample=dict(kind=kind, dont_care_bytes=ndc, total=len(mask)) , tags=(kind, "library-written"))
        if m["enc"] != r["enc"]:
            ctx.diff("blk.enc", f"{kind}: real and model encodings differ; mask positions would not line up", rep)
            continue
        check_block(ctx, kind, m["fmt"], r["enc"], mask, A.norm(v), r["enc"], "library", rep)
        # writers emit canonical zeros in every don't-care position
        if any(b != 0 for b, mm in zip(r["enc"], mask) if mm == 0):
            ctx.fail(f"{kind}: the writer leaves non-zero bytes in reserved/padding positions", rep, ident=f"{kind} writer non-zero padding")
    capture_blocks(ctx)
    import sessions.c12_files as F
    F.run(ctx)


def capture_blocks(ctx):
    import capture
    for ent in capture.entries():
        kind = ent["kind"]
        rep = dict(capture=kind)
        data = ent["payload"]
        md = B.model_decode(kind, ent["format"], data + B.SENTINEL)
        try:
            blk, tell = real_decode(kind, ent["format"], data)
            orig = A.norm(A.absv(kind, blk))
        except Exception as e:
            ctx.fail(f"capture {kind}: cannot be decoded: {e}", rep, ident=f"capture {kind} decode")
            continue
        if not md["ok"] or md["abs"] != orig:
            ctx.diff("capture.dec", f"{kind}: model and real decode of the capture differ", rep)
            continue
        mask = md["mask"][:md["consumed"]]
        ndc = sum(1 for x in mask if x == 0)
        ctx.case(("capture", kind), nontrivial=ndc > 0, sample=dict(capture=kind, dont_care_bytes=ndc, total=len(mask)), tags=("capture",))
        check_block(ctx, kind, ent["format"], data, mask, orig, None, "capture", rep)


def replay(path):
    data = json.load(open(path))
    rc = 0
    for it in (data.get("failures") or []) + (data.get("broken_correspondence") or []):
        rp = it["replay"]
        if rp.get("scrambled") and rp.get("v"):
            kind, v = rp["kind"], A.norm(rp["v"])
            try:
                blk, _ = real_decode(kind, A.fmt_of(kind, v), bytes.fromhex(rp["scrambled"]))
                ok = A.norm(A.absv(kind, blk)) == v
            except Exception as e:
                ok = False
                print("raises", type(e).__name__, e)
            print(kind, "scrambled encoding ->", "same content" if ok else "DIFFERENT/RAISES")
            rc |= 0 if ok else 1
        else:
            print("case:", {k: (str(x)[:80]) for k, x in rp.items()})
    return rc
