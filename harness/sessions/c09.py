"""C09 — the file stays compact: no holes, no leaked bytes, free slots point at EOF; ±size length changes."""
import json

import container as C

RULE = ("same histories as C03; after every successful call Lean's compactB judges the real bytes, and the length change is "
        "compared with the size of the block added/removed; non-trivial as C03")
ASSUMPTIONS = ["start states are compact; blocks satisfy C02"]


def judge(ctx, r):
    for i, s in enumerate(r.steps):
        if s["real"] != "ok" or s["op"][0] in C.IDLE:
            continue
        rep = C.replay_of(r, i)
        if not s["fc"]["compact"]:
            ctx.fail(f"{r.desc} step {i} {s['op']}: file not compact (hole, leaked bytes, or unused slot not at end-of-data)", rep,
                     ident="not compact after " + s["op"][0])
            return
        if s["nbytes"] != len(s["after"]):
            ctx.fail(f"{r.desc} step {i}: Tdf.nBytes {s['nbytes']} != file length {len(s['after'])}", rep, ident="nBytes")
            return
        b, a = C.absfile(s["before"]), C.absfile(s["after"])
        if a is None or b is None:
            ctx.fail(f"{r.desc} step {i} {s['op']}: the file can no longer be parsed", rep, ident="file unreadable after " + s["op"][0])
            return
        sizes_b = {e[1]: e[4] for e in b["live"]}
        sizes_a = {e[1]: e[4] for e in a["live"]}
        expect = len(s["before"]) - sum(sizes_b.values()) + sum(sizes_a.values())
        if len(s["after"]) != expect:
            ctx.fail(f"{r.desc} step {i} {s['op']}: length {len(s['before'])}->{len(s['after'])}, expected {expect} from the live sizes", rep, ident="length delta")
            return
        nb = s["arg"][2] if s.get("arg") else None     # the size the block reported when it was handed over
        if s["op"][0] == "add" and nb is not None and len(s["after"]) - len(s["before"]) != nb:
            ctx.fail(f"{r.desc} step {i}: add grew the file by {len(s['after']) - len(s['before'])}, block size {nb}", rep, ident="add delta")
            return
        if s["op"][0] == "remove" and s["op"][1] == 0:
            # "removing" an unused slot (the library accepts type 0): no block goes, the file keeps its length
            if set(sizes_b) != set(sizes_a) or len(s["before"]) != len(s["after"]):
                ctx.fail(f"{r.desc} step {i}: removing an unused slot changed the blocks or the length of the file", rep, ident="remove of an unused slot")
                return
        elif s["op"][0] in ("remove", "remove_obj"):
            gone = set(sizes_b) - set(sizes_a)
            if len(gone) != 1 or len(s["before"]) - len(s["after"]) != sizes_b[next(iter(gone))]:
                ctx.fail(f"{r.desc} step {i}: remove did not shrink the file by exactly the removed block's size", rep, ident="remove delta")
                return


def run(ctx):
    import sessions.c03 as c03
    styles = c03.STYLES + (["capture"] if ctx.thorough else [])
    import itertools
    runs = itertools.chain(C.explore(ctx, ctx.n(600, 8000), 12, styles, p_invalid=0.15), C.explore_equal_sizes(ctx, depth=4 if ctx.thorough else 3), C.explore_boundary_sizes(ctx),
                           # long-lived objects: one block object through every short history, and an object that pauses while others rearrange the file
                           C.explore_one_object(ctx, depth=5 if ctx.thorough else 4), C.explore_two_objects(ctx, ctx.n(150, 3000)))
    for r in runs:
        ctx.case((r.desc, str(C.jsonable_hist(r.hist))), nontrivial=C.nontrivial_history(r),
                 sample=dict(start=r.desc, ops=[s["op"][0] + ":" + s["real"] for s in r.steps]), tags=C.history_tags(r))
        if not r.fc_start["compact"]:
            raise RuntimeError(f"generator produced a start file that is not compact: {r.desc}")
        C.correspondence(ctx, r)
        C.judge_and_shrink(ctx, r, judge)


def replay(path):
    data = json.load(open(path))
    rc = 0
    for it in (data.get("failures") or []) + (data.get("broken_correspondence") or []):
        rp = it["replay"]
        if not rp.get("start"):
            print("history on", rp.get("start_desc"))
            continue
        r = C.replay_history(rp)
        bad = [i for i, s in enumerate(r.steps) if s["real"] == "ok" and s["op"][0] not in C.IDLE and not s["fc"]["compact"]]
        print(r.desc, [s["op"][0] + ":" + s["real"] for s in r.steps], "->", "compact throughout" if not bad else f"NOT compact after step {bad[0]}")
        rc |= 1 if bad else 0
    return rc
