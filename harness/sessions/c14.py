"""C14 — equality tells equal content from different content (nine block classes and whole files)."""
import copy
import io
import json
import os
import shutil
import tempfile

import absval as A
import common
import container as C
from sx import Sym

RULE = ("[plus: two equal blocks compared, one then edited in place through public attributes, compared again, and compared with a block rebuilt from its values] "
        "pairs (a, b) of valid blocks of one type with b in {a itself, a second object built from the same content, "
        "decode(encode(a)), a with exactly one change (a header scalar, the format/flag, a label, a channel number, one sample "
        "moved far beyond float tolerance, a gap turned into a sample or back, a link), one item appended, one item removed, the "
        "same items in another order (with their channels, without them, or the channels alone)}, for "
        "all nine types incl. gaps and both camera formats; and pairs of files built from such blocks; real a == b (and b == a) "
        "vs the model's eq vs equality of the abstract contents; non-trivial = pair whose blocks have >=1 item; distinct by pair")
ASSUMPTIONS = ["changed samples differ far beyond numpy's allclose tolerance; ±0 and NaN scalars are not used to build unequal pairs"]
FAR32 = [0x7F000000, 0xFF000000, 0x4B000000, 0xCB000000]


def far(bits):
    """a float32 bit pattern far from `bits`"""
    return next(f for f in FAR32 if (f >> 31) != (bits >> 31) or abs((f & 0x7FFFFFFF) - (bits & 0x7FFFFFFF)) > 0x01000000)


def far64(bits):
    return 0x7FE0000000000000 if (bits >> 63) or (bits >> 52) < 0x700 else 0xFFE0000000000000


def items_path(kind):
    return {"data3d": 9, "emg": 4, "force3d": 6, "platdata": 4, "platcalib": 1, "data2d": 6, "calib": 6, "optical": 1, "events": 2}[kind]


va_override = []      # (field, value) the ORIGINAL must carry too when a mutation picked a large base value


def mutate(kind, v, rng):
    """returns (v', what) with exactly one thing changed; v' stays valid"""
    del va_override[:]
    v = copy.deepcopy(v)
    ip = items_path(kind)
    items = v[ip]
    choices = ["scalar"]
    if items:
        choices += ["item-field", "remove", "append", "item-field"]
    else:
        choices += ["append"]
    if kind in ("emg", "platdata", "platcalib", "calib", "data2d") and items:
        choices.append("channel")
    if kind == "data3d" and v[0] == 1:
        choices.append("links")
    if len(items) >= 2:
        choices += ["reorder", "reorder"] + (["reorder"] if kind in ("emg", "platdata", "platcalib", "calib") else [])
    what = rng.choice(choices)
    if what == "reorder":
        # the same items in another order: jointly with their channels, items only, or channels only
        cm = {"emg": 3, "platdata": 3, "platcalib": 0, "calib": 5}.get(kind)
        i, j = sorted(rng.sample(range(len(items)), 2))
        how = rng.choice(["jointly", "jointly", "items", "channels"]) if cm is not None else "items"
        if rng.random() < 0.3:
            perm = list(range(1, len(items))) + [0]                # rotation instead of a transposition
        else:
            perm = list(range(len(items)))
            perm[i], perm[j] = perm[j], perm[i]
        if how in ("jointly", "items"):
            v[ip] = [items[k] for k in perm]
        if how in ("jointly", "channels"):
            v[cm] = [v[cm][k] for k in perm]
        return v, f"order ({how})"
    if what == "scalar":
        if kind == "data3d":
            k = rng.choice([2, 3, 4, 5, 6, 7])
        elif kind == "emg":
            k = rng.choice([0, 1])
        elif kind == "force3d":
            k = rng.choice([0, 1, 3, 4, 5])
        elif kind == "platdata":
            k = rng.choice([0, 1])
        elif kind == "platcalib":
            if not items:
                return mutate(kind, v, rng) if False else (add_item(kind, v, rng), "append")
            return mutate_item(kind, v, rng)
        elif kind == "data2d":
            k = rng.choice([2, 3, 4])
        elif kind == "calib":
            k = rng.choice([1, 2, 3, 4])
        elif kind == "optical":
            if not items:
                return add_item(kind, v, rng), "append"
            return mutate_item(kind, v, rng)
        else:
            k = 1
        x = v[k]
        if isinstance(x, list):
            j = rng.randrange(len(x))
            x[j] = far(x[j])
        elif kind == "data3d" and k == 7:
            v[k] = 1 - x
        elif kind == "data2d" and k == 4:
            v[k] = 1 - x
        elif kind == "calib" and k == 1:
            v[k] = (x + 1) % 4
        elif (kind, k) in (("data3d", 2), ("emg", 0), ("force3d", 0), ("platdata", 0), ("data2d", 2)):
            # an integer header field changes by ONE - also where the value is large (integers are exact: 16777217 is not
            # 16777216, 2**31 - 1 is not 2**31 - 2, whatever a float comparison would say)
            if rng.random() < 0.4:
                x = rng.choice([2 ** 24, 2 ** 24 + 1, 2 ** 31 - 2, -2 ** 31 + 1, 2 ** 30 + 1, -(2 ** 25) - 1])
                v[k] = x
                va_override.append((k, x))
            v[k] = x + 1 if x < 2 ** 31 - 1 else x - 1
        else:
            v[k] = far(x)
        return v, f"scalar[{k}]"
    if what == "links":
        if v[8] and rng.random() < 0.5:
            v[8][0][0] = (v[8][0][0] + 1) % 1000
        else:
            v[8].append([1, 2])
        return v, "links"
    if what == "remove":
        k = rng.randrange(len(items))
        del items[k]
        if kind in ("emg", "platdata"):
            del v[3][k]
        elif kind == "platcalib":
            del v[0][k]
        elif kind == "calib":
            del v[5][k]
        elif kind == "data2d":
            v[1] -= 1
        return v, "remove item"
    if what == "append":
        return add_item(kind, v, rng), "append item"
    if what == "channel":
        cm = {"emg": 3, "platdata": 3, "platcalib": 0, "calib": 5, "data2d": 5}[kind]
        if not v[cm]:
            return mutate_item(kind, v, rng)
        k = rng.randrange(len(v[cm]))
        v[cm][k] = free_channel(v[cm])
        return v, "channel"
    return mutate_item(kind, v, rng)


def relabel(label, maxlen):
    """a different valid label: one more character, or another last character when the field is full"""
    if len(label) < maxlen:
        return label + [90]
    return label[:-1] + [91 if label[-1] == 90 else 90]


def free_channel(chans):
    """an in-range channel number (valid for i16 and u16 maps alike) that is not in use"""
    c = 5
    while c in chans:
        c += 1
    return c


def add_item(kind, v, rng):
    ip = items_path(kind)
    if kind in ("data3d", "emg", "force3d"):
        n = v[1] if kind == "data3d" else v[2]
        k = A.NCOMP[kind]
        v[ip].append([[120], A.gen_frames(rng, k, n)])
        if kind == "emg":
            v[3].append(free_channel(v[3]))
    elif kind == "platdata":
        v[ip].append(A.gen_frames(rng, 6, v[2]))
        v[3].append(free_channel(v[3]))
    elif kind == "platcalib":
        v[1].append([[80], A.gen_vec(rng, 2), A.gen_vec(rng, 12)])
        v[0].append(free_channel(v[0]))
    elif kind == "data2d":
        v[6].append([None if rng.random() < 0.3 else [[A.gen_f32(rng), A.gen_f32(rng)]] for _ in range(v[0])])
        v[1] += 1
    elif kind == "calib":
        v[6].append([[A.gen_f64(rng) for _ in range(22 if v[0] == 1 else 156)], A.gen_vp(rng)])
        v[5].append(free_channel(v[5]))
    elif kind == "optical":
        v[1].append([3, [65], [66], [67], [0, 0, 1, 1]])
    else:
        v[2].append([[69], 1, [A.gen_f32(rng), A.gen_f32(rng)]])
    return v


def mutate_item(kind, v, rng):
    ip = items_path(kind)
    items = v[ip]
    k = rng.randrange(len(items))
    it = items[k]
    if kind in ("data3d", "emg", "force3d"):
        if rng.random() < 0.3:
            it[0] = it[0][:-1] if it[0] and rng.random() < 0.5 else relabel(it[0], 255)
            return v, "label"
        frames = it[1]
        j = rng.randrange(len(frames))
        if frames[j] is None:
            frames[j] = [0x3F800000] * A.NCOMP[kind]
            return v, "gap->sample"
        if rng.random() < 0.25:
            frames[j] = None
            return v, "sample->gap"
        c = rng.randrange(len(frames[j]))
        frames[j][c] = far(frames[j][c])
        return v, f"sample[{c}]"
    if kind == "platdata":
        frames = it
        j = rng.randrange(len(frames))
        if frames[j] is None:
            frames[j] = [0x3F800000] * 6
            return v, "gap->sample"
        c = rng.randrange(6)
        frames[j][c] = far(frames[j][c])
        return v, f"sample[{c}]"
    if kind == "platcalib":
        r = rng.random()
        if r < 0.3:
            it[0] = relabel(it[0], 255)
            return v, "label"
        part = it[1] if r < 0.6 else it[2]
        c = rng.randrange(len(part))
        part[c] = far(part[c])
        return v, "geometry"
    if kind == "data2d":
        row = it
        if not row:
            return add_item(kind, v, rng), "append item"
        c = rng.randrange(len(row))
        if row[c] is None:
            row[c] = [[0x3F800000, 0x3F800000]]
            return v, "None->points"
        if rng.random() < 0.3:
            row[c] = None
            return v, "points->None"
        p = rng.randrange(len(row[c]))
        row[c][p][0] = far(row[c][p][0])
        return v, "point"
    if kind == "calib":
        if rng.random() < 0.2:
            it[1][rng.randrange(4)] += 1 if it[1][0] < 1000 else -1
            return v, "viewport"
        c = rng.randrange(len(it[0]))
        it[0][c] = far64(it[0][c])
        return v, "camera parameter"
    if kind == "optical":
        r = rng.random()
        if r < 0.25:
            it[0] = it[0] + 1 if it[0] < 1000 else it[0] - 1
            return v, "logical index"
        if r < 0.75:
            f = rng.choice([1, 2, 3])
            it[f] = relabel(it[f], 31)
            return v, "label"
        it[4][rng.randrange(4)] += 1 if it[4][0] < 1000 else -1
        return v, "viewport"
    # events
    r = rng.random()
    if r < 0.3:
        it[0] = relabel(it[0], 255)
        return v, "label"
    if r < 0.5 and len(it[2]) <= 1:
        it[1] = 1 - it[1]
        return v, "event kind"
    if it[2]:
        c = rng.randrange(len(it[2]))
        it[2][c] = far(it[2][c])
        return v, "value"
    it[2] = [0x3F800000]
    return v, "value added"


def safe_eq(a, b):
    try:
        r = a == b
        return bool(r)
    except Exception as e:
        return "raises " + type(e).__name__


def run(ctx):
    rng = ctx.rng
    pairs = []
    for _ in range(ctx.n(900, 30000)):
        kind = rng.choice(A.KINDS)
        va = A.GEN[kind](rng)
        mode = rng.choice(["same-object", "rebuilt", "roundtrip", "changed", "changed", "changed"])
        if mode == "changed":
            try:
                vb, what = mutate(kind, va, rng)
                for k, x in va_override:          # the pair differs by one at a large integer: the original gets the base value
                    va = copy.deepcopy(va)
                    va[k] = x
            except Exception:
                continue
        else:
            vb, what = va, mode
        pairs.append((kind, va, vb, mode, what))
    answers = common.drv_batch([[Sym("blk.eq"), Sym(k), va, vb] for k, va, vb, _, _ in pairs])
    for (kind, va, vb, mode, what), m in zip(pairs, answers):
        rp = dict(kind=kind, a=va, b=vb, how=what)
        try:
            a = A.build(kind, va)
            if mode == "same-object":
                b = a
            elif mode == "roundtrip":
                b = type(a)._build(io.BytesIO(A.encode(a)), a.format.value)
            else:
                b = A.build(kind, vb)
        except Exception as e:
            ctx.diff("c14.build", f"{kind}: cannot build the pair ({what}): {type(e).__name__}: {str(e)[:80]}", rp)
            continue
        expect = A.norm(va) == A.norm(vb)
        got, got2 = safe_eq(a, b), safe_eq(b, a)
        ip = items_path(kind)
        ctx.case((kind, str(va)[:3000], what), nontrivial=len(va[ip]) >= 1, sample=dict(kind=kind, how=what, expected_equal=expect) , tags=(kind, mode if mode != "changed" else "changed:" + what.split("[")[0]))
        if got is not expect or got2 is not expect:
            if expect:
                ctx.fail(f"{kind}: a block compares unequal ({got}/{got2}) to {what.replace('-', ' ')} of itself" + (" (it contains gaps)" if "None" in str(va) else ""), rp,
                         ident=f"{kind} equal content compares unequal ({what})")
            else:
                ctx.fail(f"{kind}: blocks that differ in '{what}' compare {got}/{got2}", rp, ident=f"{kind} different content compares equal ({what.split('[')[0]})")
            continue
        if (m == 1) != expect:
            ctx.diff("blk.eq", f"{kind}: model eq says {m == 1}, abstract contents are {'equal' if expect else 'different'} ({what})", rp)
    compared_then_edited(ctx, ctx.n(300, 8000))
    files(ctx)


def compared_then_edited(ctx, n):
    """two equal blocks are compared (and printed, sized, encoded) and THEN one of them is edited in place through its public
    attributes: the next comparison must see the edit, and the edited block must equal a block built afresh from its values"""
    import blockrun as B
    rng = ctx.rng
    for i in range(n):
        kind = A.KINDS[i % len(A.KINDS)]
        va = A.GEN[kind](rng)
        try:
            a, b = A.build(kind, va), A.build(kind, va)
            first = (safe_eq(a, b), safe_eq(b, a))
            repr(b), int(b.nBytes), A.encode(b)
            B.FAR[0] = True        # sample edits far beyond float tolerance (C14: "any sample beyond float tolerance")
            try:
                what = B.apply_edit(kind, b, rng)
            finally:
                B.FAR[0] = False
            if what is None or what.startswith("nudge") or what == "format":
                continue           # one float32 step is inside "float tolerance"; the format code is not among the things C14 lists
            vb = A.norm(A.absv(kind, b))
            c = A.build(kind, vb)
        except Exception as e:
            ctx.diff("c14.edit", f"{kind}: cannot build/edit the pair: {type(e).__name__}: {str(e)[:80]}", dict(kind=kind, a=va))
            continue
        rp = dict(kind=kind, a=va, b=vb, how="compared, then edited in place: " + what)
        expect = A.norm(va) == vb
        ctx.case((kind, str(va)[:2000], "edited:" + what), nontrivial=True, tags=(kind, "compared-then-edited", "edit:" + what.split(" ")[0]))
        if first != (True, True):
            ctx.fail(f"{kind}: two blocks built from the same values compare {first}", rp, ident=f"{kind} equal content compares unequal (rebuilt)")
            continue
        got = (safe_eq(a, b), safe_eq(b, a))
        if got != (expect, expect):
            ctx.fail(f"{kind}: after '{what}' on one of two equal blocks (compared before), a == b / b == a give {got}, contents are {'equal' if expect else 'different'}", rp,
                     ident=f"{kind} in-place edit not seen by ==" if not expect else f"{kind} equal content compares unequal (edited)")
            continue
        got2 = (safe_eq(b, c), safe_eq(c, b))
        if got2 != (True, True):
            ctx.fail(f"{kind}: a block edited in place ('{what}') compares {got2} to a block built afresh from its values", rp, ident=f"{kind} edited block != rebuilt block")


def files(ctx):
    """two files compare equal exactly when version, slot count and block lists do"""
    from basictdf import Tdf
    rng = ctx.rng
    C.Clock.install()
    d = tempfile.mkdtemp(prefix="vtdf")
    try:
        for k in range(ctx.n(40, 600)):
            kinds = rng.sample(A.KINDS, k=rng.randrange(0, 4))
            vals = {kd: A.GEN[kd](rng) for kd in kinds}
            mode = rng.choice(["same", "same-content-other-bytes", "same-content-other-bytes", "block-changed", "block-changed", "slots", "version", "order", "block-missing"])
            vals2 = dict(vals)
            n1 = n2 = rng.choice([4, 14])
            ver1 = ver2 = 1
            order2 = list(kinds)
            expect = True
            changed = None
            if mode == "block-changed" and kinds:
                kd = rng.choice(kinds)
                vals2[kd], how = mutate(kd, vals[kd], rng)
                changed = dict(kind=kd, how=how, a=vals[kd], b=vals2[kd])
                expect = A.norm(vals2[kd]) == A.norm(vals[kd])      # (a mutation that has nothing to work on — reordering no items — changes nothing)
            elif mode == "slots":
                n2 = n1 + 1
                expect = False
            elif mode == "version":
                ver2 = 2
                expect = False
            elif mode == "order" and len(kinds) >= 2:
                order2 = list(reversed(kinds))
                expect = False
            elif mode == "block-missing" and kinds:
                order2 = kinds[:-1]
                expect = False

            def mk(order, vs, n, ver, name):
                blocks = [dict(type=A.BLOCKTYPE[kd], fmt=A.fmt_of(kd, vs[kd]), payload=A.encode(A.build(kd, vs[kd])), cdate=C.T0, mdate=C.T0, comment="c") for kd in order]
                p = os.path.join(d, name)
                open(p, "wb").write(C.mkfile(n, blocks, version=ver))
                return p
            def mk_foreign(order, vs, n, ver, name):
                """the same version, slot count and block list — and everything else different: when it was written, comments, where
                and in which order the data lie in the file, junk between the blocks and in the don't-care bytes, what the unused
                slots carry (format code, dates, comment)"""
                import struct
                blocks = [dict(type=A.BLOCKTYPE[kd], fmt=A.fmt_of(kd, vs[kd]), payload=A.encode(A.build(kd, vs[kd])), cdate=C.T0 - rng.randrange(10 ** 8), mdate=rng.randrange(2 ** 31),
                               adate=rng.randrange(2 ** 31), comment=rng.choice(["", "other", "x" * 255])) for kd in order]
                storage = list(range(len(blocks)))
                rng.shuffle(storage)                                   # storage[j] = index (in table order) of the j-th block in the file
                table = [storage.index(i) for i in range(len(blocks))]   # table position i -> storage position
                data = bytearray(C.mkfile_gappy(n, [blocks[i] for i in storage], [rng.choice([0, 3, 64]) for _ in range(len(blocks) + 1)],
                                                now=C.T0 - rng.randrange(10 ** 8), order=table))
                struct.pack_into("<I", data, 16, ver)
                data[24:32] = bytes(rng.randrange(256) for _ in range(8))
                data[44:64] = bytes(rng.randrange(256) for _ in range(20))
                for i in range(len(blocks), n):
                    base = 64 + 288 * i
                    struct.pack_into("<I", data, base + 4, rng.choice([0, 1, 7, 2 ** 32 - 1]))
                    struct.pack_into("<iii", data, base + 16, rng.randrange(2 ** 31), rng.randrange(2 ** 31), rng.randrange(2 ** 31))
                    data[base + 28:base + 32] = bytes(rng.randrange(256) for _ in range(4))
                    data[base + 32:base + 40] = rng.choice([b"\0" * 8, b"free\0\xff\xff\xff"])
                p = os.path.join(d, name)
                open(p, "wb").write(bytes(data))
                return p
            p1 = mk(kinds, vals, n1, ver1, f"a{k}.tdf")
            p2 = (mk_foreign if mode == "same-content-other-bytes" else mk)(order2, vals2, n2, ver2, f"b{k}.tdf")
            if rng.random() < 0.7:
                # both files carry the same time stamps (extracted from one archive, copied with their metadata, written within one
                # tick of a coarse file system): what the file SYSTEM says about two files says nothing about their content
                st = os.stat(p1)
                os.utime(p2, ns=(st.st_atime_ns, st.st_mtime_ns))
            with Tdf(p1) as t1, Tdf(p2) as t2:
                got = safe_eq(t1, t2)
            ctx.case(("file", mode, str(kinds), k), nontrivial=bool(kinds), tags=("file:" + mode,))
            if got is not expect:
                ctx.fail(f"files that {'have the same' if expect else 'differ in ' + mode} (blocks {kinds}) compare {got}", dict(file_pair=mode, kinds=kinds, changed=changed), ident=f"file equality ({mode})")
    finally:
        shutil.rmtree(d, ignore_errors=True)


def replay(path):
    data = json.load(open(path))
    rc = 0
    for it in (data.get("failures") or []) + (data.get("broken_correspondence") or []):
        rp = it["replay"]
        if "a" in rp:
            kind = rp["kind"]
            a, b = A.build(kind, A.norm(rp["a"])), A.build(kind, A.norm(rp["b"]))
            expect = A.norm(rp["a"]) == A.norm(rp["b"])
            got = safe_eq(a, b)
            print(kind, rp["how"], "expected", expect, "got", got)
            rc |= 0 if got is expect else 1
        else:
            print(rp)
    return rc
