"""C04 — mutating one block never alters any other block or its metadata (frame conditions of the history)."""
import io
import json

import absval as A
import container as C

RULE = ("histories as C03 with payloads of differing sizes (every later block moves on remove/replace), cp1252 comments up to 255 "
        "bytes, start files with opaque blocks; a python reference dict type->(payload, format, comment, creation, modification) "
        "is updated per successful call and compared with an independent parse of the real file after every call; blocks are also "
        "read back through get_block and compared with what was stored; 30 % of the blocks handed over are the OBJECT handed over last time "
        "for that type, unchanged or edited in place in between; non-trivial as C03")
ASSUMPTIONS = ["dates compared to the second; last-access dates are not part of the property"]
KIND_OF_TYPE = {v: k for k, v in A.BLOCKTYPE.items()}


def expected_after(exp, s):
    """reference semantics of one successful call"""
    op, blk = s["op"], s.get("blk")
    if op[0] in ("remove",):
        exp.pop(op[1], None)
    elif op[0] == "remove_obj":
        exp.pop(blk.type.value, None)
    elif op[0] in ("add", "replace", "set"):
        t = blk.type.value
        if op[0] == "add":
            comment = C.DEFAULT_COMMENT if op[2] is None else op[2]
        elif op[0] == "replace":
            comment = exp[t][2] if op[2] is None else op[2]
        else:
            comment = exp[t][2] if t in exp else C.DEFAULT_COMMENT
        exp.pop(t, None)     # a replaced block moves to the end of the table; position is not part of C04
        arg = s.get("arg")       # the block as it was when it was handed over (the object may have been edited and reused since)
        if arg is not None and isinstance(arg[3], (bytes, bytearray)):
            exp[t] = (bytes(arg[3]), arg[1], comment, arg[4], arg[5], s.get("spec"))
        else:
            exp[t] = (A.encode(blk), blk.format.value, comment, C.ts(blk.creation_date), C.ts(blk.last_modification_date), s.get("spec"))


def judge(ctx, r):
    a0 = C.absfile(r.start)
    exp = {e[1]: (bytes.fromhex(e[8]), e[2], bytes.fromhex(e[7]).decode("cp1252"), e[5], e[6], None) for e in a0["live"]}
    for i, s in enumerate(r.steps):
        rep = C.replay_of(r, i)
        if s["real"] == "ok" and s["op"][0] not in C.IDLE:
            expected_after(exp, s)
        a = C.absfile(s["after"])
        if a is None:
            ctx.fail(f"{r.desc} step {i} {s['op']}: the file can no longer be parsed", rep, ident="file unreadable after " + s["op"][0])
            return
        got = {e[1]: (bytes.fromhex(e[8]), e[2], bytes.fromhex(e[7]).decode("cp1252"), e[5], e[6]) for e in a["live"]}
        if len(got) != len(a["live"]):
            ctx.fail(f"{r.desc} step {i} {s['op']}: two live entries of one type", rep, ident="duplicate type")
            return
        for t, want in exp.items():
            if t not in got:
                ctx.fail(f"{r.desc} step {i} {s['op']}: block of type {t} disappeared", rep, ident="block lost by " + s["op"][0])
                return
            names = ["stored bytes", "format code", "comment", "creation date", "modification date"]
            for k in range(5):
                if got[t][k] != want[k]:
                    ctx.fail(f"{r.desc} step {i} {s['op']}: {names[k]} of block type {t} changed ({'the touched block' if s.get('blk') is not None and getattr(s['blk'], 'type', None) is not None and s['blk'].type.value == t else 'an untouched block'})",
                             rep, ident=f"{names[k]} changed by " + s["op"][0])
                    return
        for t in got:
            if t not in exp:
                ctx.fail(f"{r.desc} step {i} {s['op']}: block of type {t} is present but should be absent", rep, ident="removed type still present")
                return
    # reading back through the API after the final reopen
    from basictdf import Tdf
    from basictdf.tdfBlock import BlockType
    import os
    import tempfile
    d = tempfile.mkdtemp(prefix="vtdf")
    p = os.path.join(d, "f.tdf")
    try:
        with open(p, "wb") as f:
            f.write(r.final)
        with Tdf(p) as t:
            for typ, want in exp.items():
                if typ not in KIND_OF_TYPE:
                    continue
                if want[5] is not None and want[5].get("bad"):
                    continue    # stored through a deliberately invalid request that the library happened to accept: outside "valid blocks"
                kind = KIND_OF_TYPE[typ]
                try:
                    blk = t.get_block(BlockType(typ))
                    got = A.norm(A.absv(kind, blk))
                    ref = A.norm(A.absv(kind, A.klass(kind)._build(io.BytesIO(want[0]), want[1])))
                except Exception as e:
                    ctx.fail(f"{r.desc}: stored block of type {typ} cannot be read back: {type(e).__name__}: {e}", C.replay_of(r, len(r.steps) - 1), ident="read back raises")
                    continue
                if got != ref:
                    ctx.fail(f"{r.desc}: get_block({typ}) after reopen differs from the stored content", C.replay_of(r, len(r.steps) - 1), ident="read back differs")
    finally:
        import shutil
        shutil.rmtree(d, ignore_errors=True)


def run(ctx):
    import sessions.c03 as c03
    import itertools
    runs = itertools.chain(C.explore(ctx, ctx.n(500, 6000), 12, c03.STYLES_WF, p_invalid=0.15), C.explore_equal_sizes(ctx, depth=4 if ctx.thorough else 3), C.explore_boundary_sizes(ctx), C.explore_equal_sizes_big(ctx), C.explore_one_object(ctx, depth=5 if ctx.thorough else 4), C.explore_two_objects(ctx, ctx.n(150, 3000)),
                            C.explore_relative_paths(ctx, ctx.n(40, 600)))
    for r in runs:
        ctx.case((r.desc, str(C.jsonable_hist(r.hist))), nontrivial=C.nontrivial_history(r),
                 sample=dict(start=r.desc, ops=[s["op"][0] + ":" + s["real"] for s in r.steps]), tags=C.history_tags(r))
        C.correspondence(ctx, r)
        C.judge_and_shrink(ctx, r, judge)
        if getattr(r, "decoy_changed", False):
            ctx.fail(f"{r.desc}: a file of the same name in the directory the process had moved to was changed", C.replay_of(r, len(r.steps) - 1), ident="another file of the same name changed")


def replay(path):
    import common
    data = json.load(open(path))
    rc = 0
    for it in (data.get("failures") or []) + (data.get("broken_correspondence") or []):
        rp = it["replay"]
        if not rp.get("start"):
            continue
        r = C.replay_history(rp)
        c = common.Ctx("C04", "quick", 0)
        judge(c, r)
        print(r.desc, [s["op"][0] + ":" + s["real"] for s in r.steps], "->", "frame conditions hold" if not c.fails else c.fails[0]["what"])
        rc |= 1 if c.fails else 0
    return rc
