"""C10 — the open object, the file on disk and a reopened file always agree (after every single call)."""
import io
import json

import absval as A
import container as C

RULE = ("histories as C03; after EVERY call, still inside the write context: Tdf.entries vs an independent read of the file at "
        "that instant vs (at reopen / end) the file after closing; Tdf.nBytes vs the file length; every decodable live block read "
        "through the open object vs decoding the bytes stored on disk; non-trivial as C03")
ASSUMPTIONS = ["CPython write buffering is modelled as view/disk with a flush at the end of add/remove; when CPython flushes by itself is not modelled"]
KIND_OF_TYPE = {v: k for k, v in A.BLOCKTYPE.items()}


def observe(run, st):
    """inside the context, right after the call: read every decodable block through the open object"""
    from basictdf.tdfBlock import BlockType
    got = {}
    for e in run.t.entries:
        typ = e.type.value
        if typ in KIND_OF_TYPE:
            try:
                got[typ] = A.norm(A.absv(KIND_OF_TYPE[typ], run.t.get_block(BlockType(typ))))
            except Exception as ex:
                got[typ] = f"raises {type(ex).__name__}"
    st["extra"]["via_object"] = got
    # what the open object remembers besides the compared table fields: every entry's last-access date and the header
    try:
        st["extra"]["adates"] = [C.ts(e.last_access_date) for e in run.t.entries]
        st["extra"]["header"] = (int(run.t.version), int(run.t.nEntries), C.ts(run.t.creation_date), C.ts(run.t.last_modification_date), C.ts(run.t.last_access_date))
    except Exception as ex:
        st["extra"]["adates"] = f"raises {type(ex).__name__}"


def judge(ctx, r):
    for i, s in enumerate(r.steps):
        rep = C.replay_of(r, i)
        a = C.absfile(s["after"])
        if a is None:
            ctx.fail(f"{r.desc} step {i}: file on disk unreadable while the context is open", rep, ident="disk unreadable")
            return
        if s["entries"] is None:
            continue        # (the object has just LEFT its context: nothing is claimed about what it remembers until it enters again)
        disk_tbl = [(e[0], e[1], e[2], e[3], e[4], e[5], e[6], bytes.fromhex(e[7]).decode("cp1252")) for e in a["live"]]
        mem_tbl = [e for e in s["entries"] if e[1] != 0]
        if disk_tbl != mem_tbl:
            ctx.fail(f"{r.desc} step {i} {s['op']}: Tdf.entries and the table on disk differ right after the call (pending buffer or memory-only update)", rep,
                     ident="entries != disk after " + s["op"][0])
            return
        free_disk = [(e[0], e[1], e[2]) for e in a["free"]]
        free_mem = [(e[0], e[3], e[4]) for e in s["entries"] if e[1] == 0]
        if free_disk != free_mem:
            ctx.fail(f"{r.desc} step {i} {s['op']}: unused slots in memory and on disk differ", rep, ident="free slots != disk after " + s["op"][0])
            return
        ad = s["extra"].get("adates")
        if ad is not None:
            import struct
            n_disk = struct.unpack_from("<i", s["after"], 20)[0]
            disk_ad = [struct.unpack_from("<i", s["after"], 64 + 288 * k + 24)[0] for k in range(n_disk)]
            if ad != disk_ad:
                ctx.fail(f"{r.desc} step {i} {s['op']}: last-access dates of the table entries in memory {ad} and on disk {disk_ad} differ right after the call", rep,
                         ident="entry access dates != disk after " + s["op"][0])
                return
            hd = struct.unpack_from("<Iiii", s["after"], 16)[:2] + struct.unpack_from("<iii", s["after"], 32)
            if s["extra"].get("header") is not None and tuple(s["extra"]["header"]) != tuple(hd):
                ctx.fail(f"{r.desc} step {i} {s['op']}: header fields in memory {s['extra']['header']} and on disk {hd} differ", rep, ident="header != disk after " + s["op"][0])
                return
        if s["nbytes"] != len(s["after"]):
            ctx.fail(f"{r.desc} step {i}: Tdf.nBytes {s['nbytes']} but {len(s['after'])} bytes on disk", rep, ident="nBytes != disk")
            return
        for typ, via in s["extra"].get("via_object", {}).items():
            ent = next(e for e in a["live"] if e[1] == typ)
            try:
                ref = A.norm(A.absv(KIND_OF_TYPE[typ], A.klass(KIND_OF_TYPE[typ])._build(io.BytesIO(bytes.fromhex(ent[8])), ent[2])))
            except Exception as ex:
                ref = f"raises {type(ex).__name__}"
            if via != ref:
                ctx.fail(f"{r.desc} step {i} {s['op']}: block type {typ} read through the open object differs from decoding the bytes on disk", rep,
                         ident="object != disk content")
                return
        mb = (s["model"] or {}).get("blocks")
        if mb is not None:
            for typ, via in s["extra"].get("via_object", {}).items():
                if isinstance(via, list) and mb.get(typ) != via:
                    ctx.diff("tdf.getall", f"{r.desc} step {i} {s['op']}: block type {typ} read through the real object differs from the model's get_block", rep)
                    break
        if s["model"] is not None and not s["model"]["sync"]:
            ctx.diff("tdf.sync", f"{r.desc} step {i}: model leaves unflushed bytes", rep)
    # after close
    steps = r.steps
    if steps and C.absfile(r.final) != C.absfile(steps[-1]["after"]):
        ctx.fail(f"{r.desc}: file after closing differs from the file seen inside the context after the last call", C.replay_of(r, len(steps) - 1), ident="close changes file")


def run(ctx):
    import sessions.c03 as c03
    import itertools
    runs = itertools.chain(C.explore(ctx, ctx.n(400, 6000), 12, c03.STYLES_WF, p_invalid=0.15, observe=observe, getall=True),
                           C.explore_equal_sizes(ctx, depth=3, tables=(3,), observe=observe, getall=True),
                           C.explore_boundary_sizes(ctx, observe=observe, getall=True),
                           C.explore_equal_sizes_big(ctx, observe=observe, getall=True), C.explore_one_object(ctx, depth=5 if ctx.thorough else 3, observe=observe, getall=True),   # (depth 4 in the quick tiers of C03 C04 C07)
                           C.explore_two_objects(ctx, ctx.n(80, 3000), observe=observe, getall=True))
    for r in runs:
        ctx.case((r.desc, str(C.jsonable_hist(r.hist))), nontrivial=C.nontrivial_history(r),
                 sample=dict(start=r.desc, ops=[s["op"][0] + ":" + s["real"] for s in r.steps]), tags=C.history_tags(r))
        C.correspondence(ctx, r)
        C.judge_and_shrink(ctx, r, judge, observe=observe, getall=True)
    # "dates to the second" between the open object, the disk and a reopened file must not depend on where the process runs:
    # a share of the histories again with the process in other time zones (the dates of the objects are naive LOCAL datetimes)
    from sessions.c06 import TZS, local_tz
    for tz in TZS[1:]:
        with local_tz(tz):
            for r in C.explore(ctx, ctx.n(40, 600), 8, ["fresh", "n3", "n14"], p_invalid=0.1, observe=observe, getall=True):
                r.desc += f" [TZ={tz.split(',')[0]}]"
                ctx.case((r.desc, str(C.jsonable_hist(r.hist))), nontrivial=C.nontrivial_history(r), tags=C.history_tags(r) + ["tz=" + tz.split(",")[0]])
                C.correspondence(ctx, r)
                judge(ctx, r)


def replay(path):
    import common
    data = json.load(open(path))
    rc = 0
    for it in (data.get("failures") or []) + (data.get("broken_correspondence") or []):
        rp = it["replay"]
        if not rp.get("start"):
            continue
        r = C.replay_history(rp)
        c = common.Ctx("C10", "quick", 0)
        judge(c, r)
        print(r.desc, [s["op"][0] + ":" + s["real"] for s in r.steps], "->", "object/disk agree" if not c.fails else c.fails[0]["what"])
        rc |= 1 if c.fails else 0
    return rc
