"""C06 — bytes on disk follow the fixed TDF layout: the Lean encoders are the independent layout-driven encoder,
the Lean decoders the independent decoder; both directions, plus the BTS-recorded capture."""
import hashlib
import io
import json
import os
import shutil
import struct
import tempfile

import absval as A
import blockrun as B
import capture
import common
import container as C
from sx import Sym

RULE = ("(2 % of the blocks, 8 % in the thorough tier, sit on the scale axis: 255 ... 65537 frames or 15 ... 257 items) " 
        "(a) seeded valid blocks of nine types: real _write bytes vs model enc (byte-identical), and the real decoder on "
        "model-encoded bytes; (b) table entries and file headers over boundary field values: TdfEntry._write vs Entry.enc, "
        "TdfEntry._build / Tdf.__enter__ vs Entry.dec / Header.dec, Tdf.new vs newFile, each under four process time zones (UTC, CET/CEST, "
        "Newfoundland -3:30, New Zealand +12: the stored i32 is epoch seconds whatever the zone); (c) the BTS capture (pinned sha-256): "
        "table and all 8 blocks decoded by real code and model compared in full, re-encoding equal at every care position. "
        "non-trivial as C01 / entries with non-default fields; capture checks are tests on one input and labelled as such")
ASSUMPTIONS = ["the only ground truth outside the code available offline is the capture (8 of 9 block types; no events block, no BTS-format cameras)"]
PIN_FILE = os.path.join(os.path.dirname(os.path.abspath(__file__)), "capture.sha256")


from container import TZS, local_tz  # noqa: E402,F401


def entries_and_headers(ctx, tz="UTC0", share=1):
    from datetime import datetime

    from basictdf.basictdf import TdfEntry
    from basictdf.tdfBlock import BlockType
    rng = ctx.rng
    cases = []
    for _ in range(max(40, ctx.n(300, 6000) // share)):
        typ = rng.randrange(0, 17)
        fmt = rng.choice([0, 1, 2, 7, 2 ** 32 - 1, rng.randrange(2 ** 32)])
        off = rng.choice([0, 4096, 2 ** 31 - 1, rng.randrange(2 ** 31)])
        size = rng.choice([0, 1, 2 ** 31 - 1, rng.randrange(2 ** 31)])
        dates = [rng.choice([0, 1, C.T0, 2 ** 31 - 1, rng.randrange(2 ** 31)]) for _ in range(3)]
        comment = A.gen_label(rng, 256)
        cases.append((typ, fmt, off, size, dates, comment))
    replies = common.drv_batch([[Sym("entry.enc"), [t, f, o, s, d[0], d[1], d[2], cm]] for t, f, o, s, d, cm in cases])
    dec_cmds = []
    for (t, f, o, s, d, cm), m in zip(cases, replies):
        rep = dict(entry=[t, f, o, s, d, cm], tz=tz)
        ctx.case(("entry", tz, t, f, o, s, tuple(d), tuple(cm)), nontrivial=True, tags=("entry", "tz=" + tz.split(",")[0]),
                 sample=dict(entry=dict(type=t, format=f, offset=o, size=s, dates=d, comment_len=len(cm))))
        buf = io.BytesIO()
        try:
            TdfEntry(BlockType(t), f, o, s, datetime.fromtimestamp(d[0]), datetime.fromtimestamp(d[1]), datetime.fromtimestamp(d[2]), A.text(cm))._write(buf)
        except Exception as e:
            ctx.fail(f"TdfEntry._write raises on in-range fields: {type(e).__name__}: {e}", rep, ident="entry write raises")
            continue
        real = buf.getvalue()
        if real != m[1]:
            i = next((i for i, (a, b) in enumerate(zip(real, m[1])) if a != b), min(len(real), len(m[1])))
            ctx.fail(f"table entry bytes differ from the layout-driven encoder at byte {i} (field at that offset), lengths {len(real)}/{len(m[1])}", rep,
                     ident="entry layout")
            continue
        # decode side: junk in the reserved word and after the comment's NUL
        junk = bytearray(m[1])
        junk[28:32] = bytes(rng.randrange(256) for _ in range(4))
        nul = 32 + len(cm)
        for k in range(nul + 1, 288):
            junk[k] = rng.choice([0x81, 0x9D, 0xFF, 0x41])
        try:
            e2 = TdfEntry._build(io.BytesIO(bytes(junk)))
            got = (e2.type.value, int(e2.format), int(e2.offset), int(e2.size), C.ts(e2.creation_date), C.ts(e2.last_modification_date),
                   C.ts(e2.last_access_date), A.cps(e2.comment))
        except Exception as ex:
            ctx.fail(f"TdfEntry._build cannot read a layout-conformant entry: {type(ex).__name__}: {ex}", rep, ident="entry read raises")
            continue
        if got != (t, f, o, s, d[0], d[1], d[2], cm):
            ctx.fail(f"TdfEntry._build extracts {got} from a layout-conformant entry encoding {(t, f, o, s, d, cm)}", rep, ident="entry read values")
        dec_cmds.append(([Sym("entry.dec"), bytes(junk)], got))
    for (cmd, got), r in zip(dec_cmds, common.drv_batch([c for c, _ in dec_cmds])):
        if r[0] != "ok" or tuple(r[1][:7]) + (list(r[1][7]),) != got:
            ctx.diff("entry.dec", f"model decodes an entry differently from the real code: {got}", dict(entry=list(got)))
    # Tdf.new against the model's image, byte for byte
    C.Clock.install()
    from basictdf import Tdf
    d = tempfile.mkdtemp(prefix="vtdf")
    try:
        for k in range(3):
            now = C.T0 + 1000 * k + rng.randrange(1000)
            C.Clock.now = now
            p = os.path.join(d, f"n{k}.tdf")
            Tdf.new(p)
            real = open(p, "rb").read()
            model = common.drv_batch([[Sym("file.new"), now]])[0]
            ctx.case(("new", tz, now), nontrivial=True, tags=("Tdf.new",))
            if real != model:
                i = next((i for i, (a, b) in enumerate(zip(real, model)) if a != b), min(len(real), len(model)))
                ctx.fail(f"Tdf.new writes bytes that differ from the layout at byte {i} (lengths {len(real)}/{len(model)})", dict(new=now, tz=tz), ident="Tdf.new layout")
            # header fields through __enter__ on layout-conformant headers with junk in the reserved words
            hdr = bytearray(real)
            version, n = rng.choice([1, 2, 2 ** 32 - 1]), 14
            dts = [rng.randrange(2 ** 31) for _ in range(3)]
            hdr[16:24] = struct.pack("<Ii", version, n)
            hdr[24:32] = bytes(rng.randrange(256) for _ in range(8))
            hdr[32:44] = struct.pack("<iii", *dts)
            hdr[44:64] = bytes(rng.randrange(256) for _ in range(20))
            open(p, "wb").write(bytes(hdr))
            try:
                with Tdf(p) as t:
                    got = (int(t.version), int(t.nEntries), C.ts(t.creation_date), C.ts(t.last_modification_date), C.ts(t.last_access_date))
            except Exception as ex:
                ctx.fail(f"layout-conformant header cannot be opened: {type(ex).__name__}: {ex}", dict(header=bytes(hdr[:64]).hex()), ident="header read raises")
                continue
            if got != (version, n, dts[0], dts[1], dts[2]):
                ctx.fail(f"header fields read {got}, encoded {(version, n, dts)}", dict(header=bytes(hdr[:64]).hex(), tz=tz), ident="header read values")
            mh = common.drv_batch([[Sym("header.dec"), bytes(hdr[:64])]])[0]
            if mh[0] != "ok" or tuple(mh[1]) != got:
                ctx.diff("header.dec", f"model header {mh} real {got}", dict(header=bytes(hdr[:64]).hex()))
    finally:
        shutil.rmtree(d, ignore_errors=True)


def capture_all(ctx):
    sha = capture.sha256()
    pinned = open(PIN_FILE).read().strip() if os.path.exists(PIN_FILE) else None
    if pinned and sha != pinned:
        raise common.Infra(f"reference capture changed: sha256 {sha} != pinned {pinned}")
    data = capture.raw()
    fc = C.file_checks([data])[0]
    tbl = capture.parse_table(data)
    ctx.case(("capture", "table"), nontrivial=True, tags=("capture",), sample=dict(capture_sha256=sha, slots=tbl["n"]))
    if not fc["readable"]:
        ctx.diff("capture.table", "model cannot parse the capture's table", dict(capture="table"))
    else:
        me = [tuple(e[:7]) for e in fc["entries"]]
        pe = [(e["type"], e["format"], e["offset"], e["size"], e["cdate"], e["mdate"], e["adate"]) for e in tbl["entries"]]
        if me != pe:
            ctx.diff("capture.table", "model's parse of the capture table differs from the struct-based parse", dict(capture="table"))
    from basictdf import Tdf
    with Tdf(capture.PATH) as t:
        re_ = [(e.type.value, int(e.format), int(e.offset), int(e.size), C.ts(e.creation_date), C.ts(e.last_modification_date), C.ts(e.last_access_date)) for e in t.entries]
    pe = [(e["type"], e["format"], e["offset"], e["size"], e["cdate"], e["mdate"], e["adate"]) for e in tbl["entries"]]
    if re_ != pe:
        ctx.fail("the library reads a different jump table from the BTS capture than the layout says", dict(capture="table"), ident="capture table")
    for ent in capture.entries():
        kind = ent["kind"]
        rep = dict(capture=kind)
        md = B.model_decode(kind, ent["format"], ent["payload"])
        ctx.case(("capture", kind), nontrivial=True, tags=("capture",))
        try:
            st = io.BytesIO(ent["payload"])
            blk = A.klass(kind)._build(st, ent["format"])
            got = A.norm(A.absv(kind, blk))
            reenc = A.encode(blk)
        except Exception as ex:
            ctx.fail(f"capture block {kind} cannot be decoded/re-encoded: {type(ex).__name__}: {ex}", rep, ident=f"capture {kind} decode")
            continue
        if not md["ok"]:
            ctx.diff("capture.dec", f"model cannot decode capture block {kind}", rep)
            continue
        if got != md["abs"]:
            ctx.fail(f"capture block {kind}: the library extracts different values than the independent decoder", rep, ident=f"capture {kind} values")
        if st.tell() != md["consumed"] or md["consumed"] != ent["size"]:
            ctx.fail(f"capture block {kind}: bytes accounted for: library {st.tell()}, independent decoder {md['consumed']}, jump table {ent['size']}", rep, ident=f"capture {kind} bytes")
        mask = md["mask"]
        if len(reenc) != ent["size"] or any(m == 1 and a != b for a, b, m in zip(reenc, ent["payload"], mask)):
            ctx.fail(f"capture block {kind}: re-encoding differs from the BTS bytes at positions the layout defines", rep, ident=f"capture {kind} reencode")


def capture_table_dates(ctx, tz):
    """the 45 dates of the BTS capture read by the library under another time zone are the same instants"""
    from basictdf import Tdf
    tbl = capture.parse_table(capture.raw())
    ctx.case(("capture", "table", tz), nontrivial=True, tags=("capture", "tz=" + tz.split(",")[0]))
    with Tdf(capture.PATH) as t:
        got = [(C.ts(e.creation_date), C.ts(e.last_modification_date), C.ts(e.last_access_date)) for e in t.entries]
    want = [(e["cdate"], e["mdate"], e["adate"]) for e in tbl["entries"]]
    if got != want:
        ctx.fail(f"under TZ={tz} the library reads different instants from the capture's jump table than the epoch seconds stored there",
                 dict(capture="table", tz=tz), ident="capture table dates (time zone)")


def whole_files(ctx):
    """layout-conformant FILES produced by the independent encoder, as other software may write them — table listing the blocks
    in another order than their data lie in the file, unused slots between live entries, junk between the blocks and in every
    don't-care byte, 1…20 slots — opened through Tdf: slot i of `Tdf.entries` must carry the fields of slot i of the file,
    `get_block(i)` must decode the bytes slot i points at, `get_block(type)` the block of that type."""
    import struct
    from basictdf import Tdf
    from basictdf.tdfBlock import BlockType
    rng = ctx.rng
    kind_of = {v: k for k, v in A.BLOCKTYPE.items()}
    d = tempfile.mkdtemp(prefix="vtdf")
    files = []
    try:
        for k in range(ctx.n(120, 1500)):
            style = rng.choice(["permuted", "permuted", "gappy", "n5", "hole"])
            if style == "hole":
                nlive, w = rng.choice([2, 3, 4]), rng.choice([1, 2])
                n = nlive + w + rng.choice([0, 1, 3])
                data, desc = C.mkfile(n, [C.opaque(rng, t) for t in rng.sample(C.OPAQUE_TYPES, nlive)], hole_at=rng.randrange(0, nlive), hole_width=w), f"hole(N={n})"
            else:
                data, desc = C.start_file(rng, style)
            # junk where the layout does not care: header reserved words, entry reserved word, comment bytes after the NUL
            b = bytearray(data)
            n = struct.unpack_from("<i", b, 20)[0]
            if rng.random() < 0.6:
                b[24:32] = bytes(rng.randrange(256) for _ in range(8))
                b[44:64] = bytes(rng.randrange(256) for _ in range(20))
                for i in range(n):
                    base = 64 + 288 * i
                    b[base + 28:base + 32] = bytes(rng.randrange(256) for _ in range(4))
                    nul = bytes(b[base + 32:base + 288]).find(b"\0")
                    for j in range(base + 32 + nul + 1, base + 288):
                        b[j] = rng.choice([0x81, 0xFF, 0x41, 0x00])
                    if b[base:base + 4] == b"\0\0\0\0" and rng.random() < 0.5:
                        struct.pack_into("<I", b, base + 4, rng.choice([1, 7, 2 ** 32 - 1]))      # an unused slot may carry any format code
            data = bytes(b)
            p = os.path.join(d, f"w{k}.tdf")
            open(p, "wb").write(data)
            ref = []
            for i in range(n):
                base = 64 + 288 * i
                typ, fmt, off, size, cd, md, ad = struct.unpack_from("<IIiiiii", data, base)
                ref.append((i, typ, fmt, off, size, cd, md, ad, data[base + 32:base + 288].split(b"\0")[0].decode("cp1252")))
            rep = dict(file=data.hex() if len(data) < 20000 else None, desc=desc)
            ctx.case(("whole-file", k, desc), nontrivial=sum(1 for e in ref if e[1]) >= 2, tags=("whole-file", style), sample=dict(file=desc))
            try:
                with Tdf(p) as t:
                    got = [(i, e.type.value, int(e.format), int(e.offset), int(e.size), C.ts(e.creation_date), C.ts(e.last_modification_date), C.ts(e.last_access_date), e.comment)
                           for i, e in enumerate(t.entries)]
                    if got != ref:
                        bad = next((i for i, (a, c) in enumerate(zip(got, ref)) if a != c), min(len(got), len(ref)))
                        ctx.fail(f"{desc}: Tdf.entries[{bad}] = {got[bad] if bad < len(got) else None} but slot {bad} of the file holds {ref[bad] if bad < len(ref) else None}", rep,
                                 ident="entries differ from the table of the file")
                        continue
                    for i, typ, fmt, off, size, *_ in ref:
                        if typ in kind_of:
                            kind = kind_of[typ]
                            want = A.norm(A.absv(kind, A.klass(kind)._build(io.BytesIO(data[off:off + size]), fmt)))
                            for key, how in ((i, f"get_block({i})"), (BlockType(typ), f"get_block({BlockType(typ).name})")):
                                have = A.norm(A.absv(kind, t.get_block(key)))
                                if have != want:
                                    ctx.fail(f"{desc}: {how} does not return the block whose bytes slot {i} of the table points at", rep, ident="get_block reads another slot")
                                    break
            except Exception as ex:
                ctx.fail(f"{desc}: a layout-conformant file cannot be read: {type(ex).__name__}: {ex}", rep, ident="whole file read raises")
                continue
            files.append((data, ref, desc))
        for (data, ref, desc), fc in zip(files, C.file_checks([f[0] for f in files])):
            me = [(j,) + tuple(e[:7]) + (A.text(e[7]),) for j, e in enumerate(fc["entries"])] if fc["readable"] else None
            if me != ref:
                ctx.diff("file.table", f"{desc}: the model's table differs from the independent parse", dict(desc=desc))
    finally:
        shutil.rmtree(d, ignore_errors=True)


def foreign_bytes_rewritten(ctx):
    """"zeroed reserved fields" also holds for what the library writes AFTER reading somebody else's bytes: layout-conformant encodings
    with junk in every reserved / padding position (the model's care mask says where) are decoded, and the decoded object is
    written again — the result must be the layout-driven encoding of its values, reserved fields zero, whatever the junk was."""
    import sessions.c12 as c12
    cases = B.gen_cases(ctx, ctx.n(250, 4000))
    models = B.model_side(cases)
    for (kind, v), m in zip(cases, models):
        if m["mask"] is None:
            continue
        enc, mask = m["enc"], m["mask"][:len(m["enc"])]
        ndc = sum(1 for x in mask if x == 0)
        if not ndc:
            continue
        rep = dict(kind=kind, v=v)
        for style in c12.STYLES[:2]:
            sc = c12.scramble(ctx.rng, enc, mask, style)
            ctx.case(("foreign-bytes-rewritten", kind, str(v)[:200], style), nontrivial=True, tags=("foreign-bytes-rewritten", kind))
            try:
                blk = A.klass(kind)._build(io.BytesIO(sc + B.SENTINEL), m["fmt"])
                again = A.encode(blk)
            except Exception as e:
                ctx.fail(f"{kind}: layout-conformant bytes with junk in the reserved fields cannot be decoded and written again: {type(e).__name__}: {str(e)[:80]}", rep,
                         ident=f"{kind} foreign bytes: decode/rewrite raises")
                break
            if again != enc:
                i = next((i for i, (a, b) in enumerate(zip(again, enc)) if a != b), min(len(again), len(enc)))
                ctx.fail(f"{kind}: a block decoded from bytes with junk in its reserved fields is written back with byte {i} = {again[i] if i < len(again) else None} "
                         f"where the layout has {enc[i] if i < len(enc) else None} (reserved fields are not zeroed / length {len(again)} vs {len(enc)})", rep,
                         ident=f"{kind} foreign bytes: rewrite differs from the layout")
                break


def run(ctx):
    foreign_bytes_rewritten(ctx)
    whole_files(ctx)
    n = ctx.n(900, 10000)
    for c0 in range(0, n, 2500):
        blocks_chunk(ctx, min(2500, n - c0))
    block_extras(ctx)


def blocks_chunk(ctx, n):
    cases = B.gen_cases(ctx, n, big=ctx.thorough)
    models = B.model_side(cases)
    for (kind, v), m in zip(cases, models):
        opts = dict(wide=ctx.rng.random() < 0.2, vpstyle=ctx.rng.choice([0, 0, 1]),
                    prov=ctx.rng.choice(A.PROVENANCES) if ctx.rng.random() < 0.25 else None, scalars=ctx.rng.choice([None, None, "np", "py"]))
        r = B.real_side(kind, v, **opts)
        rep = dict(kind=kind, v=v, **opts)
        ctx.case((kind, v), nontrivial=A.nontrivial(kind, v), sample=dict(kind=kind, v=v) if len(repr(v)) < 500 else None,
                 tags=B.shape_tags(kind, v) + ([f"prov={opts['prov']}"] if opts["prov"] else []) + ([f"scalars={opts['scalars']}"] if opts.get("scalars") else []))
        if "enc" not in r:
            ctx.fail(f"{kind}: valid block cannot be encoded: {r.get('exc', '')[:120]}", rep, ident=f"{kind} stage={r['stage']}")
            continue
        if r["enc"] != m["enc"]:
            i = next((i for i, (a, b) in enumerate(zip(m["enc"], r["enc"])) if a != b), min(len(m["enc"]), len(r["enc"])))
            ctx.fail(f"{kind}: bytes written differ from the layout-driven encoder at byte {i} (lengths {len(r['enc'])}/{len(m['enc'])})", rep, ident=f"{kind} layout (write)")
            continue
        # conversely: layout-conformant bytes (the independent encoder's) through the real decoder
        try:
            st = io.BytesIO(m["enc"] + B.SENTINEL)
            dec = A.klass(kind)._build(st, m["fmt"])
            got = A.norm(A.absv(kind, dec))
            tell = st.tell()
        except Exception as ex:
            ctx.fail(f"{kind}: layout-conformant bytes cannot be decoded: {type(ex).__name__}: {str(ex)[:100]}", rep, ident=f"{kind} layout (read raises)")
            continue
        if got != A.norm(v) or tell != len(m["enc"]):
            ctx.fail(f"{kind}: the library extracts different values (or consumes {tell} of {len(m['enc'])} bytes) from layout-conformant bytes", rep, ident=f"{kind} layout (read)")
        if m["dec_abs"] != got:
            ctx.diff("blk.dec", f"{kind}: model decode differs from real decode", rep)


def block_extras(ctx):
    # the same object written again after in-place edits: the bytes are those of the layout for the object as it is NOW
    from sessions.c01 import life_cycles

    def layout_judge(ctx, kind, v, opts, r, m):
        rep = dict(kind=kind, v=v, **opts)
        if "enc" not in r:
            ctx.fail(f"{kind}: edited block cannot be encoded: {r.get('exc', '')[:120]}", rep, ident=f"{kind} stage={r['stage']}")
        elif r["enc"] != m["enc"]:
            i = next((i for i, (a, b) in enumerate(zip(m["enc"], r["enc"])) if a != b), min(len(m["enc"]), len(r["enc"])))
            ctx.fail(f"{kind}: bytes written after in-place edits ({'; '.join(opts['life_cycle']['edits'])}) differ from the layout-driven encoder at byte {i}",
                     rep, ident=f"{kind} layout (write) after in-place edit")
    life_cycles(ctx, layout_judge, ctx.n(250, 5000))
    for tz in TZS:
        with local_tz(tz):
            entries_and_headers(ctx, tz, share=len(TZS))
    capture_all(ctx)
    with local_tz(TZS[1]):
        capture_table_dates(ctx, TZS[1])


def replay(path):
    data = json.load(open(path))
    rc = 0
    for it in (data.get("failures") or []) + (data.get("broken_correspondence") or []):
        rp = it["replay"]
        if "v" in rp:
            kind, v = rp["kind"], A.norm(rp["v"])
            r = B.real_side(kind, v, wide=rp.get("wide", False), vpstyle=rp.get("vpstyle", 0), prov=rp.get("prov"), scalars=rp.get("scalars"))
            m = B.model_side([(kind, v)])[0]
            ok = r.get("enc") == m["enc"]
            print(kind, "->", "bytes follow the layout" if ok else "bytes DIFFER from the layout")
            rc |= 0 if ok else 1
        else:
            print("case:", {k: str(x)[:100] for k, x in rp.items()})
    return rc
