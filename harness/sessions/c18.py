"""C18 — lookup by index, by label, membership, iteration and length are coherent (3D, force/torque, EMG, events)."""
import io
import json

import numpy as np

import absval as A
import common
from sx import Sym

RULE = ("four block kinds x seeded contents (0..6 items; duplicate labels, empty label, labels differing only in case or blanks; 30 %: labels "
        "longer than the on-disk field, with an embedded NUL, composed/decomposed accents, one-to-many case pairs) x "
        "keys: every integer in -n-2..n+1, True/False, every present label, absent ones, and every string that truncation at NUL or at 255, "
        "stripping, case folding or unicode normalisation would identify with a present label, item objects, None, 1.5, b'x', "
        "numpy integers; observed: identity of the returned item / exception class, membership, len, iteration, and the block's "
        "encoding before and after; then up to three in-place edits through public attributes (an item relabelled, possibly to a "
        "label another item carries; an item deleted; the item list reversed; an add that the block refuses; a list assignment refused after some items were accepted) each followed by the same questions; non-trivial = block with a duplicate label or >=2 items; distinct by (kind, labels)")
ASSUMPTIONS = ["labels are compared as exact strings; item identity = python object identity"]
LABELS = ["", "a", "A", " a", "a ", "c7", "é", "b"]
# labels a stored/normalised form of which collides with another label: longer than a 256-byte field, with an embedded NUL,
# composed vs decomposed accents, case pairs without a one-to-one mapping, trailing control characters
EXOTIC = ["F" * 255, "F" * 254, "F" * 256, "plate", "plate\0left", "\0hidden", "e\u0301", "\ufb01", "fi", "\u0131", "I", "i", "\u00df", "ss", "a\t", "a\n", "a\0"]
_IDS = {}


def lid(s):
    """labels travel to the model as numbers: one number per distinct exact string"""
    return _IDS.setdefault(s, len(_IDS))


def derived_keys(labels):
    """strings that a sloppy comparison (truncation at NUL or at the field width, stripping, case folding, unicode
    normalisation) would identify with a label that is present"""
    import unicodedata
    out = []
    for l in labels:
        out += [l + "x", l + "\0x", l + " ", l.split("\0")[0], l[:255], l[:-1], l.upper(), l.lower(), l.casefold(), l.strip(),
                unicodedata.normalize("NFC", l), unicodedata.normalize("NFD", l), unicodedata.normalize("NFKC", l)]
    return out


class StrSub(str):
    """text held as an instance of a str subclass whose str()/repr()/format() do NOT give the text back — what a member of
    `class Marker(str, Enum)` is: the characters of the string are its value, str(x) is 'Marker.X'"""

    def __str__(self):
        return "StrSub." + str.__str__(self).upper()

    def __repr__(self):
        return "<StrSub %s>" % str.__repr__(self)

    def __format__(self, spec):
        return format(self.__str__(), spec)


def safe_repr(k):
    try:
        return repr(k)[:80]
    except Exception:             # (the repr of a zero-frame track raises in numpy; that is not what is being judged here)
        return f"<{type(k).__name__} object>"


def mk(kind, labels, rng):
    n = rng.choice([0, 1, 3, 3])        # also blocks whose items are EMPTY (0 frames): an item is an item whatever its length
    if kind == "data3d":
        from basictdf.tdfData3D import Data3D, MarkerTrack
        b = Data3D(100, n, A.f32(A.gen_vec(rng, 3)), A.f32(A.gen_vec(rng, 9)).reshape(3, 3), A.f32(A.gen_vec(rng, 3)))
        for l in labels:
            b.add_track(MarkerTrack(l, A.frames_array(A.gen_frames(rng, 3, n), 3) if n else np.zeros((0, 3), dtype="<f4")))
        return b
    if kind == "force3d":
        from basictdf.tdfForce3D import ForceTorque3D, ForceTorqueTrack
        b = ForceTorque3D(100, n, A.f32(A.gen_vec(rng, 3)), A.f32(A.gen_vec(rng, 9)).reshape(3, 3), A.f32(A.gen_vec(rng, 3)))
        for l in labels:
            a = A.frames_array(A.gen_frames(rng, 9, n), 9) if n else np.zeros((0, 9), dtype="<f4")
            b.add_track(ForceTorqueTrack(l, a[:, 0:3].copy(), a[:, 3:6].copy(), a[:, 6:9].copy()))
        return b
    if kind == "emg":
        from basictdf.tdfEMG import EMG, EMGTrack
        b = EMG(1000, n)
        # acquisition channels: automatic (ascending), or explicit ones in ANY order (signals are not stored by channel) — and half
        # of those blocks are then taken through their own encoding (a block decoded from a file somebody else wrote)
        chans = rng.sample(range(0, 40), len(labels)) if rng.random() < 0.5 else None
        for j, l in enumerate(labels):
            tr = EMGTrack(l, A.frames_array(A.gen_frames(rng, 1, n), 1)[:, 0] if n else np.zeros((0,), dtype="<f4"))
            b.addSignal(tr) if chans is None else b.addSignal(tr, channel=chans[j])
        if chans is not None and n and rng.random() < 0.5 and all(len(l.encode("cp1252", "ignore")) == len(l) < 256 and "\0" not in l for l in labels):
            b = EMG._build(io.BytesIO(A.encode(b)), b.format.value)
        return b
    from basictdf.tdfEvents import Event, EventsDataType, TemporalEventsData
    b = TemporalEventsData()
    b.events = [Event(l, A.f32([A.gen_f32(rng)]), EventsDataType.singleEvent) for l in labels]
    return b


def mk_other_length(kind, blk, rng):
    """a one-item block of the same kind whose item has ANOTHER number of frames than blk's"""
    n = blk.nFrames + 2
    if kind == "data3d":
        from basictdf.tdfData3D import Data3D, MarkerTrack
        b = Data3D(100, n, A.f32(A.gen_vec(rng, 3)), A.f32(A.gen_vec(rng, 9)).reshape(3, 3), A.f32(A.gen_vec(rng, 3)))
        b.add_track(MarkerTrack("refused", A.frames_array(A.gen_frames(rng, 3, n), 3)))
        return b
    from basictdf.tdfForce3D import ForceTorque3D, ForceTorqueTrack
    b = ForceTorque3D(100, n, A.f32(A.gen_vec(rng, 3)), A.f32(A.gen_vec(rng, 9)).reshape(3, 3), A.f32(A.gen_vec(rng, 3)))
    a = A.frames_array(A.gen_frames(rng, 9, n), 9)
    b.add_track(ForceTorqueTrack("refused", a[:, 0:3].copy(), a[:, 3:6].copy(), a[:, 6:9].copy()))
    return b


def mk_same_length(kind, blk, rng, k):
    """a block of the same kind and frame count holding k fresh tracks"""
    return mk_n(kind, ["fresh%d" % j for j in range(k)], rng, blk.nFrames)


def mk_n(kind, labels, rng, n):
    if kind == "data3d":
        from basictdf.tdfData3D import Data3D, MarkerTrack
        b = Data3D(100, n, A.f32(A.gen_vec(rng, 3)), A.f32(A.gen_vec(rng, 9)).reshape(3, 3), A.f32(A.gen_vec(rng, 3)))
        for l in labels:
            b.add_track(MarkerTrack(l, A.frames_array(A.gen_frames(rng, 3, n), 3) if n else np.zeros((0, 3), dtype="<f4")))
        return b
    from basictdf.tdfForce3D import ForceTorque3D, ForceTorqueTrack
    b = ForceTorque3D(100, n, A.f32(A.gen_vec(rng, 3)), A.f32(A.gen_vec(rng, 9)).reshape(3, 3), A.f32(A.gen_vec(rng, 3)))
    for l in labels:
        a = A.frames_array(A.gen_frames(rng, 9, n), 9) if n else np.zeros((0, 9), dtype="<f4")
        b.add_track(ForceTorqueTrack(l, a[:, 0:3].copy(), a[:, 3:6].copy(), a[:, 6:9].copy()))
    return b


def live_list(kind, blk):
    """the block's own item list when the public attribute hands it out (in-place edits by the caller are then possible)"""
    attr = {"data3d": "tracks", "force3d": "tracks", "events": "events"}.get(kind)
    return getattr(blk, attr, None) if attr else None


def edit(kind, blk, labels, rng):
    """one in-place edit through public attributes; returns (new label list, description) or None"""
    items = list(iter(blk))
    n = len(items)
    if n == 0:
        return None
    what = rng.choice(["relabel-to-existing", "relabel-to-existing", "relabel-new", "delete", "reverse", "refused-add", "refused-assign"])
    if what == "refused-assign":
        # a list assignment that fails after k items were taken in (the caller's iterable raises, or its last element has the
        # wrong length): the old items stay - and len / iteration / lookups must still agree
        if kind not in ("data3d", "force3d"):
            return None
        good = list(iter(mk_same_length(kind, blk, rng, rng.randrange(0, 3))))
        bad_tail = rng.random() < 0.5

        def values():
            for t in good:
                yield t
            if bad_tail:
                yield list(iter(mk_other_length(kind, blk, rng)))[0]
            else:
                raise OSError("the caller's iterable failed")
        try:
            blk.tracks = values()
        except Exception:
            return list(labels), f"a list assignment refused after {len(good)} accepted items"
        return None
    if what == "refused-add":
        # an addition the block must refuse (channel already taken / wrong number of frames): afterwards the block is as before
        try:
            if kind == "emg":
                from basictdf.tdfEMG import EMGTrack
                import struct
                enc = A.encode(blk)
                taken = struct.unpack_from("<h", enc, 16)[0]
                blk.addSignal(EMGTrack("refused", np.zeros(len(items[0].data), dtype="<f4")), channel=taken)
            elif kind in ("data3d", "force3d"):
                blk.add_track(list(iter(mk_other_length(kind, blk, rng)))[0])
            else:
                return None
        except Exception:
            return list(labels), "an add that is refused"
        return None
    if what.startswith("relabel"):
        i = rng.randrange(n)
        new = rng.choice(labels) if what == "relabel-to-existing" else rng.choice(LABELS + EXOTIC)
        items[i].label = new
        return labels[:i] + [new] + labels[i + 1:], f"item {i} relabelled {new!r}"
    lst = live_list(kind, blk)
    if what == "delete":
        i = rng.randrange(n)
        if kind == "emg":
            blk.removeSignal(labels[i])
            k = labels.index(labels[i])
            return labels[:k] + labels[k + 1:], f"removeSignal({labels[i]!r})"
        if isinstance(lst, list) and [id(o) for o in lst] == [id(o) for o in items]:
            del lst[i]
            if [id(o) for o in iter(blk)] == [id(o) for o in items[:i] + items[i + 1:]]:
                return labels[:i] + labels[i + 1:], f"del items[{i}]"
        return None
    if isinstance(lst, list) and [id(o) for o in lst] == [id(o) for o in items]:
        lst.reverse()
        if [id(o) for o in iter(blk)] == [id(o) for o in reversed(items)]:
            return labels[::-1], "items reversed in place"
    return None


def observe(blk, labels, foreign=None):
    def enc():
        try:
            return A.encode(blk)
        except Exception as e:       # labels that do not fit the on-disk field: the block is still a perfectly good list
            return type(e).__name__
    enc0 = enc()
    items = list(iter(blk))
    pos = {id(o): i for i, o in enumerate(items)}
    n = len(labels)
    keys = [("idx", i) for i in range(-n - 2, n + 2)] + [("idx", True), ("idx", False)] + [("label", l) for l in sorted(set(labels + derived_keys(labels))) + ["zz", "missing"]] + \
           [("label", np.str_(l)) for l in sorted(set(labels))[:2] if "\0" not in l and not any("\0" in x for x in labels)] + \
           [("label", StrSub(l)) for l in sorted(set(labels))[:1]] + \
           [("other", None), ("other", 1.5), ("other", b"x"), ("other", np.int64(0)), ("other", ("a",))] + [("item", o) for o in items[:2] + items[-1:]] + \
           ([("foreign-item", foreign)] if foreign is not None else [])
    obs = []
    for kk, kv in keys:
        try:
            r = blk[kv]
            out = ("item", pos.get(id(r), -1))
        except Exception as e:
            out = (type(e).__name__,)
        try:
            cont = kv in blk        # membership is asked for EVERY key: labels, item objects, integers, objects of other types
            cont = bool(cont) if isinstance(cont, (bool, np.bool_)) else repr(cont)
        except Exception as e:
            cont = type(e).__name__
        obs.append((kk, kv, out, cont))
    try:
        ln = len(blk)
    except Exception as e:
        ln = type(e).__name__
    unchanged = enc() == enc0 and [id(o) for o in iter(blk)] == [id(o) for o in items]
    mk_keys = []
    for kk, kv in keys:
        if kk == "idx":
            mk_keys.append([Sym("idx"), kv])
        elif kk == "label":
            mk_keys.append([Sym("label"), lid("".join(kv))])
        elif kk == "item":
            mk_keys.append([Sym("item"), pos[id(kv)]])
        elif kk == "foreign-item":
            mk_keys.append([Sym("item"), len(items) + 3])
        else:
            mk_keys.append(Sym("other"))
    return dict(labels=list(labels), n_items=len(items), obs=obs, ln=ln, unchanged=unchanged), [Sym("lk.run"), [lid(l) for l in labels], mk_keys]



def run(ctx):
    rng = ctx.rng
    cases = []
    for _ in range(ctx.n(500, 20000)):
        kind = rng.choice(["data3d", "force3d", "emg", "events"])
        k = rng.choice([0, 1, 2, 3, 4, 6])
        pool = rng.sample(LABELS, k=rng.choice([2, 3, len(LABELS)]))
        if rng.random() < 0.3:
            pool = pool[:2] + rng.sample(EXOTIC, k=rng.choice([1, 2, 4]))
        labels = [rng.choice(pool) for _ in range(k)]
        cases.append((kind, labels))
    cmds = []
    rounds = []
    for kind, labels in cases:
        blk = mk(kind, labels, rng)
        foreign = list(iter(mk(kind, ["zz-foreign"], rng)))[0]        # an item object of the right class that the block does not hold
        o, cmd = observe(blk, labels, foreign)
        rounds.append((kind, labels, [], o))
        cmds.append(cmd)
        # the same questions again after in-place edits (a lookup must not leave anything behind that outlives an edit)
        cur, edits = list(labels), []
        for _ in range(rng.choice([0, 1, 2, 3]) if len(labels) >= 2 else 0):
            e = edit(kind, blk, cur, rng)
            if e is None:
                continue
            cur, what = e
            edits = edits + [what]
            o, cmd = observe(blk, cur, foreign)
            rounds.append((kind, labels, edits, o))
            cmds.append(cmd)
    replies = common.drv_batch(cmds)
    for (kind, labels0, edits, o), rep in zip(rounds, replies):
        labels, obs, ln = o["labels"], o["obs"], o["ln"]
        ctx.case((kind, tuple(labels0), tuple(edits)), nontrivial=len(labels) >= 2, sample=dict(kind=kind, labels=labels0, edits=edits),
                 tags=(kind, f"items={len(labels)}", "dup" if len(set(labels)) < len(labels) else "nodup", f"edits={len(edits)}"))
        rp = dict(kind=kind, labels=labels0, edits=edits, labels_now=labels)
        if ln != o["n_items"] or o["n_items"] != len(labels):
            ctx.fail(f"{kind}: len() = {ln} but iteration yields {o['n_items']} items ({len(labels)} expected)", rp, ident=f"{kind} len != iteration")
            continue
        for (kk, kv, out, cont), m in zip(obs, rep):
            where = f"{kind} labels={labels}" + (f" (after {edits})" if edits else "") + f" key={safe_repr(kv)}"
            # oracle
            if kk == "idx" and isinstance(kv, int):
                n = len(labels)
                if -n <= kv < n:
                    if out != ("item", kv % n):
                        ctx.fail(f"{where}: indexing by position returned {out} instead of the {kv % n}-th iterated item", rp, ident=f"{kind} index != iteration")
                        break
                elif out[0] != "IndexError":
                    ctx.fail(f"{where}: out-of-range index gave {out}", rp, ident=f"{kind} out-of-range index")
                    break
            if kk == "label":
                kv = "".join(kv)          # the characters of the key (str() of a str subclass may be something else)
                first = labels.index(kv) if kv in labels else None
                if first is not None and out != ("item", first):
                    ctx.fail(f"{where}: lookup by label returned {out} instead of the first item with that label ({first})", rp, ident=f"{kind} label not first")
                    break
                if first is None and out[0] != "KeyError":
                    ctx.fail(f"{where}: lookup of an absent label gave {out} instead of KeyError", rp, ident=f"{kind} absent label")
                    break
                if cont is not (first is not None):
                    ctx.fail(f"{where}: 'in' reports {cont} but lookup by that label {'succeeds' if first is not None else 'fails'}", rp, ident=f"{kind} contains != lookup")
                    break
            if kk == "item" and cont is not True:
                ctx.fail(f"{where}: an item that iteration yields is reported as not contained ('in' gave {cont})", rp, ident=f"{kind} iterated item not contained")
                break
            if kk in ("other", "idx") and cont != "TypeError":
                ctx.fail(f"{where}: 'in' with an unsupported key type gave {cont} instead of TypeError", rp, ident=f"{kind} contains unsupported key")
                break
            if kk in ("other", "item", "foreign-item") and out[0] != "TypeError":
                ctx.fail(f"{where}: unsupported key type gave {out} instead of TypeError", rp, ident=f"{kind} unsupported key")
                break
            # correspondence
            mo = ("item", m[1]) if m[0] == "item" else (str(m[0]),)
            if out != mo:
                ctx.diff("lk.getitem", f"{where}: real {out} model {mo}", rp)
                break
            if {1: True, 0: False, -2: "TypeError"}.get(m[-1]) != cont:
                ctx.diff("lk.contains", f"{where}: 'in' gives {cont}, model {m[-1]} (1 yes, 0 no, -2 TypeError)", rp)
                break
        else:
            if not o["unchanged"]:
                ctx.fail(f"{kind}: the lookups changed the block", rp, ident=f"{kind} lookups mutate")


def replay(path):
    data = json.load(open(path))
    for it in (data.get("failures") or []) + (data.get("broken_correspondence") or []):
        print(it.get("what") or it.get("detail"))
    return 1 if data.get("failures") else 0
