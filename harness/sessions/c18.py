"""C18 — lookup by index, by label, membership, iteration and length are coherent (3D, force/torque, EMG, events)."""
import io
import json

import numpy as np

import absval as A
import common
from sx import Sym

RULE = ("four block kinds x seeded contents (0..6 items; duplicate labels, empty label, labels differing only in case or blanks) x "
        "keys: every integer in -n-2..n+1, True/False, every present label and absent ones, item objects, None, 1.5, b'x', "
        "numpy integers; observed: identity of the returned item / exception class, membership, len, iteration, and the block's "
        "encoding before and after; non-trivial = block with a duplicate label or >=2 items; distinct by (kind, labels)")
ASSUMPTIONS = ["labels are compared as exact strings; item identity = python object identity"]
LABELS = ["", "a", "A", " a", "a ", "c7", "é", "b"]


def mk(kind, labels, rng):
    n = 3
    if kind == "data3d":
        from basictdf.tdfData3D import Data3D, MarkerTrack
        b = Data3D(100, n, A.f32(A.gen_vec(rng, 3)), A.f32(A.gen_vec(rng, 9)).reshape(3, 3), A.f32(A.gen_vec(rng, 3)))
        for l in labels:
            b.add_track(MarkerTrack(l, A.frames_array(A.gen_frames(rng, 3, n), 3)))
        return b
    if kind == "force3d":
        from basictdf.tdfForce3D import ForceTorque3D, ForceTorqueTrack
        b = ForceTorque3D(100, n, A.f32(A.gen_vec(rng, 3)), A.f32(A.gen_vec(rng, 9)).reshape(3, 3), A.f32(A.gen_vec(rng, 3)))
        for l in labels:
            a = A.frames_array(A.gen_frames(rng, 9, n), 9)
            b.add_track(ForceTorqueTrack(l, a[:, 0:3].copy(), a[:, 3:6].copy(), a[:, 6:9].copy()))
        return b
    if kind == "emg":
        from basictdf.tdfEMG import EMG, EMGTrack
        b = EMG(1000, n)
        for l in labels:
            b.addSignal(EMGTrack(l, A.frames_array(A.gen_frames(rng, 1, n), 1)[:, 0]))
        return b
    from basictdf.tdfEvents import Event, EventsDataType, TemporalEventsData
    b = TemporalEventsData()
    b.events = [Event(l, A.f32([A.gen_f32(rng)]), EventsDataType.singleEvent) for l in labels]
    return b


def run(ctx):
    rng = ctx.rng
    cases = []
    for _ in range(ctx.n(500, 20000)):
        kind = rng.choice(["data3d", "force3d", "emg", "events"])
        k = rng.choice([0, 1, 2, 3, 4, 6])
        pool = rng.sample(LABELS, k=rng.choice([2, 3, len(LABELS)]))
        labels = [rng.choice(pool) for _ in range(k)]
        cases.append((kind, labels))
    label_ids = {l: i for i, l in enumerate(LABELS + ["zz", "missing"])}
    cmds = []
    real = []
    for kind, labels in cases:
        blk = mk(kind, labels, rng)
        enc0 = A.encode(blk)
        items = list(iter(blk))
        pos = {id(o): i for i, o in enumerate(items)}
        n = len(labels)
        keys = [("idx", i) for i in range(-n - 2, n + 2)] + [("idx", True), ("idx", False)] + [("label", l) for l in sorted(set(labels)) + ["zz", "missing"]] + \
               [("other", None), ("other", 1.5), ("other", b"x"), ("other", np.int64(0)), ("other", ("a",))] + [("item", o) for o in items[:2]]
        obs = []
        for kk, kv in keys:
            try:
                r = blk[kv]
                out = ("item", pos.get(id(r), -1))
            except Exception as e:
                out = (type(e).__name__,)
            cont = None
            if kk == "label":
                try:
                    cont = kv in blk
                except Exception as e:
                    cont = type(e).__name__
            obs.append((kk, kv, out, cont))
        try:
            ln = len(blk)
        except Exception as e:
            ln = type(e).__name__
        real.append((blk, enc0, items, obs, ln))
        mk_keys = []
        for kk, kv in keys:
            if kk == "idx":
                mk_keys.append([Sym("idx"), kv])
            elif kk == "label":
                mk_keys.append([Sym("label"), label_ids[kv]])
            else:
                mk_keys.append(Sym("other"))
        cmds.append([Sym("lk.run"), [label_ids[l] for l in labels], mk_keys])
    replies = common.drv_batch(cmds)
    for (kind, labels), (blk, enc0, items, obs, ln), rep in zip(cases, real, replies):
        ctx.case((kind, tuple(labels)), nontrivial=len(labels) >= 2, sample=dict(kind=kind, labels=labels), tags=(kind, f"items={len(labels)}", "dup" if len(set(labels)) < len(labels) else "nodup"))
        rp = dict(kind=kind, labels=labels)
        if ln != len(items) or len(items) != len(labels):
            ctx.fail(f"{kind}: len() = {ln} but iteration yields {len(items)} items ({len(labels)} were added)", rp, ident=f"{kind} len != iteration")
            continue
        for (kk, kv, out, cont), m in zip(obs, rep):
            where = f"{kind} labels={labels} key={kv!r}"
            # oracle
            if kk == "idx" and isinstance(kv, int):
                n = len(labels)
                if -n <= kv < n:
                    if out != ("item", kv % n):
                        ctx.fail(f"{where}: indexing by position returned {out} instead of the {kv % n}-th iterated item", rp, ident=f"{kind} index != iteration")
                        break
                elif out[0] != "IndexError":
                    ctx.fail(f"{where}: out-of-range index gave {out}", rp, ident=f"{kind} out-of-range index")
                    break
            if kk == "label":
                first = labels.index(kv) if kv in labels else None
                if first is not None and out != ("item", first):
                    ctx.fail(f"{where}: lookup by label returned {out} instead of the first item with that label ({first})", rp, ident=f"{kind} label not first")
                    break
                if first is None and out[0] != "KeyError":
                    ctx.fail(f"{where}: lookup of an absent label gave {out} instead of KeyError", rp, ident=f"{kind} absent label")
                    break
                if cont is not (first is not None):
                    ctx.fail(f"{where}: 'in' reports {cont} but lookup by that label {'succeeds' if first is not None else 'fails'}", rp, ident=f"{kind} contains != lookup")
                    break
            if kk in ("other", "item") and out[0] != "TypeError":
                ctx.fail(f"{where}: unsupported key type gave {out} instead of TypeError", rp, ident=f"{kind} unsupported key")
                break
            # correspondence
            mo = ("item", m[1]) if m[0] == "item" else (str(m[0]),)
            if kk != "item" and out != mo:
                ctx.diff("lk.getitem", f"{where}: real {out} model {mo}", rp)
                break
            if kk == "label" and isinstance(cont, bool) and (m[-1] == 1) != cont:
                ctx.diff("lk.contains", f"{where}: real {cont} model {m[-1]}", rp)
                break
        else:
            if A.encode(blk) != enc0 or [id(o) for o in iter(blk)] != [id(o) for o in items]:
                ctx.fail(f"{kind}: the lookups changed the block", rp, ident=f"{kind} lookups mutate")


def replay(path):
    data = json.load(open(path))
    for it in (data.get("failures") or []) + (data.get("broken_correspondence") or []):
        print(it.get("what") or it.get("detail"))
    return 1 if data.get("failures") else 0
