"""C01 — decode(encode(x)) = x and re-encoding reproduces the bytes, all nine block types."""
import json

import absval as A
import blockrun as B

RULE = ("(2 % of the blocks, 8 % in the thorough tier, sit on the scale axis: 255 ... 65537 frames or 15 ... 257 items) " 
        "seeded shape-directed valid blocks of the nine types (0/1/many items, gap patterns incl. first/last/all-missing, "
        "labels of length 0,1,w-2,w-1, extreme floats, both 3D formats, both camera formats, float32 and float64 user arrays, "
        "both viewport spellings); non-trivial = >=2 items or >=1 gap or links or a None cell or BTS camera format; distinct by value")
ASSUMPTIONS = ["samples compared as bit patterns after narrowing to the on-disk width (float32/float64); NaN only as wholly-missing frames",
               "channel maps of EMG/Data2D are observed through the object's own encoding (no public accessor exists)"]


def judge(ctx, kind, v, opts, r, m):
    rep = dict(kind=kind, v=v, **opts)
    if "exc" in r:
        # a valid block that the library cannot build/encode/decode: the round trip does not exist
        ctx.fail(f"{kind}: valid block fails at stage {r['stage']}: {r['exc'][:160]}", rep, ident=f"{kind} stage={r['stage']}")
        return
    if r["abs0"] != A.norm(v):
        raise RuntimeError(f"harness glue: abs(build(v)) != v for {kind}")
    # oracle: the property itself, on the real code only
    if r["dec_abs"] != A.norm(v):
        ctx.fail(f"{kind}: decode(encode(x)) differs from x", rep, ident=f"{kind} decode!=original")
    if r["reenc"] != r["enc"]:
        ctx.fail(f"{kind}: re-encoding the decoded block gives different bytes", rep, ident=f"{kind} re-encode differs")
    # correspondence: the model's encoder/decoder vs the real ones
    if not m["valid"]:
        raise RuntimeError(f"generator produced a value the model calls invalid: {kind} {v}")
    if m["enc"] != r["enc"]:
        i = next((i for i, (a, b) in enumerate(zip(m["enc"], r["enc"])) if a != b), min(len(m["enc"]), len(r["enc"])))
        ctx.diff("blk.enc", f"{kind}: real _write differs from model enc at byte {i} (len real {len(r['enc'])} model {len(m['enc'])})", rep)
    if m["dec_abs"] != r["dec_abs"]:
        ctx.diff("blk.dec", f"{kind}: real _build result differs from model dec", rep)


def run(ctx):
    n = ctx.n(1500, 40000)
    cases = B.gen_cases(ctx, n, big=ctx.thorough)
    models = B.model_side(cases)
    for (kind, v), m in zip(cases, models):
        opts = dict(wide=ctx.rng.random() < 0.25, vpstyle=ctx.rng.choice([0, 0, 1]),
                    prov=ctx.rng.choice(A.PROVENANCES) if ctx.rng.random() < 0.2 else None)
        r = B.real_side(kind, v, **opts)
        ctx.case((kind, v), nontrivial=A.nontrivial(kind, v), sample=dict(kind=kind, v=v) if len(repr(v)) < 700 else None,
                 tags=B.shape_tags(kind, v) + (["f64-input"] if opts["wide"] else []) + ([f"prov={opts['prov']}"] if opts["prov"] else []))
        judge(ctx, kind, v, opts, r, m)


def replay(path):
    data = json.load(open(path))
    rc = 0
    for it in (data.get("failures") or []) + (data.get("broken_correspondence") or []):
        rp = it["replay"]
        kind, v = rp["kind"], A.norm(rp["v"])
        r = B.real_side(kind, v, wide=rp.get("wide", False), vpstyle=rp.get("vpstyle", 0), prov=rp.get("prov"))
        ok = "exc" not in r and r["dec_abs"] == v and r["reenc"] == r["enc"]
        print(kind, "->", "round trip holds" if ok else f"round trip FAILS ({r.get('exc', 'values differ')})")
        rc |= 0 if ok else 1
    return rc
