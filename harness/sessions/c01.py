"""C01 — decode(encode(x)) = x and re-encoding reproduces the bytes, all nine block types."""
import json

import absval as A
import blockrun as B

RULE = ("(2 % of the blocks, 4 % in the thorough tier, sit on the scale axis: 255 ... 65537 frames or 15 ... 257 items) " 
        "seeded shape-directed valid blocks of the nine types (0/1/many items, gap patterns incl. first/last/all-missing, "
        "labels of length 0,1,w-2,w-1, extreme floats, both 3D formats, both camera formats, float32 and float64 user arrays, "
        "both viewport spellings, arrays of four provenances); plus object life cycles: a block is printed/sized/encoded/decoded, edited in place through public attributes "
        "(sample poked, gap filled, frame blanked, array replaced, label, header field, nested viewport component) and encoded/decoded again, up to 3 times; non-trivial = >=2 items or >=1 gap or links or a None cell or BTS camera format; distinct by value")
ASSUMPTIONS = ["samples compared as bit patterns after narrowing to the on-disk width (float32/float64); NaN only as wholly-missing frames",
               "channel maps of EMG/Data2D are observed through the object's own encoding (no public accessor exists)"]


def judge(ctx, kind, v, opts, r, m):
    rep = dict(kind=kind, v=v, **opts)
    lc = " [object used, then edited in place: " + "; ".join(opts["life_cycle"]["edits"]) + "]" if opts.get("life_cycle") else ""
    if "exc" in r:
        # a valid block that the library cannot build/encode/decode: the round trip does not exist
        ctx.fail(f"{kind}: valid block fails at stage {r['stage']}: {r['exc'][:160]}{lc}", rep, ident=f"{kind} stage={r['stage']}")
        return
    if r["abs0"] != A.norm(v):
        raise RuntimeError(f"harness glue: abs(build(v)) != v for {kind}")
    # oracle: the property itself, on the real code only
    if r["dec_abs"] != A.norm(v):
        ctx.fail(f"{kind}: decode(encode(x)) differs from x{lc}", rep, ident=f"{kind} decode!=original" + (" after in-place edit" if lc else ""))
    if r["reenc"] != r["enc"]:
        ctx.fail(f"{kind}: re-encoding the decoded block gives different bytes", rep, ident=f"{kind} re-encode differs")
    # correspondence: the model's encoder/decoder vs the real ones
    if not m["valid"]:
        raise RuntimeError(f"generator produced a value the model calls invalid: {kind} {v}")
    if m["enc"] != r["enc"]:
        i = next((i for i, (a, b) in enumerate(zip(m["enc"], r["enc"])) if a != b), min(len(m["enc"]), len(r["enc"])))
        ctx.diff("blk.enc", f"{kind}: real _write differs from model enc at byte {i} (len real {len(r['enc'])} model {len(m['enc'])})", rep)
    if m["dec_abs"] != r["dec_abs"]:
        ctx.diff("blk.dec", f"{kind}: real _build result differs from model dec", rep)


def run(ctx):
    n = ctx.n(1500, 12000)
    for c0 in range(0, n, 2500):                   # in chunks: the thorough tier must not hold 40 000 encodings at once
        cases = B.gen_cases(ctx, min(2500, n - c0), big=ctx.thorough)
        models = B.model_side(cases)
        for (kind, v), m in zip(cases, models):
            opts = dict(wide=ctx.rng.random() < 0.25, vpstyle=ctx.rng.choice([0, 0, 1]),
                        prov=ctx.rng.choice(A.PROVENANCES) if ctx.rng.random() < 0.2 else None, scalars=ctx.rng.choice([None, None, "np", "py"]))
            if ctx.rng.random() < 0.03:
                ctx.dist["provoked:" + B.provoke(ctx.rng).split(":")[0]] += 1      # a failure elsewhere in the process, caught
            r = B.real_side(kind, v, **opts)
            ctx.case((kind, v), nontrivial=A.nontrivial(kind, v), sample=dict(kind=kind, v=v) if len(repr(v)) < 700 else None,
                     tags=B.shape_tags(kind, v) + (["f64-input"] if opts["wide"] else []) + ([f"prov={opts['prov']}"] if opts["prov"] else []) + ([f"scalars={opts['scalars']}"] if opts.get("scalars") else []))
            judge(ctx, kind, v, opts, r, m)
    life_cycles(ctx, judge, ctx.n(350, 8000))


def life_cycles(ctx, judge_fn, n):
    """the same object used, edited in place through its public attributes, and used again (up to three times): what is
    written must be the object as it is NOW, whatever was computed for it before"""
    for c0 in range(0, n, 700):
        _life_cycles(ctx, judge_fn, c0, min(n, c0 + 700))


def _life_cycles(ctx, judge_fn, i0, i1):
    stages = []
    for i in range(i0, i1):
        kind = A.KINDS[i % len(A.KINDS)]
        v0 = A.GEN[kind](ctx.rng)
        opts = dict(wide=ctx.rng.random() < 0.2, vpstyle=ctx.rng.choice([0, 0, 1]))
        lc = B.lifecycle(kind, v0, ctx.rng, n_edits=ctx.rng.choice([1, 2, 3]), **opts)
        history = []
        for v, what, r in lc[1:]:
            history = history + [what]
            if v is None:
                ctx.fail(f"{kind}: an in-place edit through public attributes raised: {r.get('exc', '')[:120]}", dict(kind=kind, v=v0, edits=history), ident=f"{kind} edit raises")
                break
            stages.append((kind, v, dict(opts, life_cycle=dict(start=v0, edits=history)), r))
    models = B.model_side([(k, v) for k, v, _, _ in stages])
    for (kind, v, opts, r), m in zip(stages, models):
        if not m["valid"]:
            continue          # (an edit that left the block outside the valid domain: not generated on purpose, not judged)
        ctx.case((kind, v, str(opts["life_cycle"]["edits"])), nontrivial=True, tags=[kind, "life-cycle", "edits=" + str(len(opts["life_cycle"]["edits"]))] +
                 ["edit:" + e.split(" ")[0] for e in opts["life_cycle"]["edits"][-1:]])
        judge_fn(ctx, kind, v, opts, r, m)


def replay(path):
    data = json.load(open(path))
    rc = 0
    for it in (data.get("failures") or []) + (data.get("broken_correspondence") or []):
        rp = it["replay"]
        kind, v = rp["kind"], A.norm(rp["v"])
        r = B.real_side(kind, v, wide=rp.get("wide", False), vpstyle=rp.get("vpstyle", 0), prov=rp.get("prov"), scalars=rp.get("scalars"))
        ok = "exc" not in r and r["dec_abs"] == v and r["reenc"] == r["enc"]
        print(kind, "->", "round trip holds" if ok else f"round trip FAILS ({r.get('exc', 'values differ')})")
        rc |= 0 if ok else 1
    return rc
