"""C12, file level: reserved header words, the padding word of table entries and whatever follows a comment's NUL,
scrambled on whole files and read back through Tdf.__enter__ / get_block."""
import os
import shutil
import tempfile

import absval as A
import container as C

KIND_OF_TYPE = {v: k for k, v in A.BLOCKTYPE.items()}


def observe(path):
    from basictdf import Tdf
    from basictdf.tdfBlock import BlockType
    with Tdf(path) as t:
        hdr = (int(t.version), int(t.nEntries), C.ts(t.creation_date), C.ts(t.last_modification_date), C.ts(t.last_access_date))
        ents = [(e.type.value, int(e.format), int(e.offset), int(e.size), C.ts(e.creation_date), C.ts(e.last_modification_date),
                 C.ts(e.last_access_date), e.comment) for e in t.entries]
        blocks = {}
        for e in t.entries:
            if e.type.value in KIND_OF_TYPE:
                blocks[e.type.value] = A.norm(A.absv(KIND_OF_TYPE[e.type.value], t.get_block(BlockType(e.type.value))))
    return hdr, ents, blocks


def run(ctx):
    rng = ctx.rng
    C.Clock.install()
    d = tempfile.mkdtemp(prefix="vtdf")
    try:
        starts = []
        for _ in range(ctx.n(25, 400)):
            data, desc = C.start_file(rng, rng.choice(["n2", "n3", "n5", "n14", "fresh"]))
            starts.append((data, desc))
        if ctx.thorough:
            import capture
            starts.append((capture.raw(), "BTS capture"))
        fcs = C.file_checks([s[0] for s in starts])
        for k, ((data, desc), fc) in enumerate(zip(starts, fcs)):
            rep = dict(file=desc, start=data.hex() if len(data) < 20000 else None)
            if not fc["readable"]:
                ctx.diff("file.check", f"model cannot read {desc}", rep)
                continue
            mask = fc["mask"]
            ndc = sum(1 for m in mask if m == 0)
            ctx.case(("file", desc, k), nontrivial=ndc > 0, tags=("file-header+table",), sample=dict(file=desc, dont_care_bytes=ndc, table_bytes=len(mask)))
            p = os.path.join(d, f"f{k}.tdf")
            open(p, "wb").write(data)
            try:
                base = observe(p)
            except Exception as e:
                ctx.fail(f"{desc}: file written by the independent writer cannot be read: {type(e).__name__}: {e}", rep, ident="file read")
                continue
            import sessions.c12 as c12
            for style in (0, 1, 3, 3, 4):
                s = bytearray(c12.scramble(rng, data[:len(mask)], mask, style)) + bytearray(data[len(mask):])
                open(p, "wb").write(bytes(s))
                try:
                    got = observe(p)
                except Exception as e:
                    ctx.fail(f"{desc}: opening fails once reserved/padding/after-NUL bytes of header and table are changed: {type(e).__name__}: {str(e)[:80]}",
                             dict(rep, style=style), ident="file dontcare raises")
                    break
                if got != base:
                    what = "header" if got[0] != base[0] else ("table entries" if got[1] != base[1] else "block content")
                    ctx.fail(f"{desc}: {what} read differently when only don't-care bytes of header/table change", dict(rep, style=style), ident=f"file dontcare changes {what}")
                    break
    finally:
        shutil.rmtree(d, ignore_errors=True)
