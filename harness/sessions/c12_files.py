"""C12, file level: header reserved words, entry padding word, comment tails (via Tdf.__enter__). Filled in with the container machinery."""


def run(ctx):
    return
