"""C13 — fixed-width text fields (BTSString.write / BTSString.read) vs Tdf.strWrite / Tdf.strRead."""
import itertools

import numpy as np
import json

import absval as A
import common
from sx import Sym

RULE = ("exhaustive: every code point 0..0x10FFFF through BTSString.write(4, chr(c)) and every byte through "
        "BTSString.read; every string of length<=4 over {A, e-acute, euro, alpha(non-cp1252), NUL, lone surrogate} "
        "at widths 1..5; seeded strings around the boundary of widths 32/256/1..8; seeded byte strings on the read side. "
        "non-trivial = string of length>=1 (write side) or field with >=1 non-NUL byte (read side); distinct by (op,width,input)")
ASSUMPTIONS = ["strings are compared as code-point lists; exception classes reduced to ValueError-family / other"]

ALPHA = [0x41, 0xE9, 0x20AC, 0x3B1, 0x0, 0xD800]


def real_write(w, cpl):
    from basictdf.tdfTypes import BTSString
    s = "".join(chr(c) for c in cpl)
    try:
        return ("ok", BTSString.write(w, s))
    except ValueError as e:  # UnicodeEncodeError is a ValueError
        return ("err", "notEncodable" if isinstance(e, UnicodeError) else "tooLong")
    except Exception as e:
        return ("exc", type(e).__name__)


class StrSub(str):
    """text held as an instance of a str subclass whose str()/repr()/format() do NOT give the text back — what a member of
    `class Marker(str, Enum)` is: the characters of the string are its value, str(x) is 'Marker.X'"""

    def __str__(self):
        return "StrSub." + str.__str__(self).upper()

    def __repr__(self):
        return "<StrSub %s>" % str.__repr__(self)

    def __format__(self, spec):
        return format(self.__str__(), spec)


def real_read(w, bs):
    from basictdf.tdfTypes import BTSString
    try:
        return ("ok", [ord(c) for c in BTSString.read(w, bs)])
    except Exception:
        return ("err", "raised")


def oracle_write(w, cpl, res):
    """C13's own statement evaluated on what the real code did (independent of the model)"""
    s = "".join(chr(c) for c in cpl)
    try:
        enc = s.encode("cp1252")
    except UnicodeEncodeError:
        enc = None
    valid = enc is not None and len(enc) < w
    if valid:
        if res[0] != "ok":
            return f"valid string refused ({res})"
        b = res[1]
        if len(b) != w:
            return f"wrote {len(b)} bytes into a field of width {w}"
        if b[:len(enc)] != enc or any(x != 0 for x in b[len(enc):]):
            return "field is not text + NUL + zero padding"
        if 0 not in cpl:
            back = real_read(w, b)
            if back != ("ok", list(cpl)):
                return f"read back {back} instead of the string written"
    else:
        if res[0] == "ok":
            return f"invalid string (unencodable or too long) accepted, wrote {len(res[1])} bytes"
        if res[0] != "err":
            return f"refused with {res[1]} which is not a ValueError"
    return None


def run(ctx):
    rng = ctx.rng
    from basictdf.tdfTypes import BTSString  # noqa: F401  (import errors are infra errors)

    # 1. codec table, exhaustively, through the real writer / reader
    real_tab = []
    for c in range(0x110000):
        r = real_write(4, [c])
        real_tab.append(r[1][0] if r[0] == "ok" else -1)
        bad = oracle_write(4, [c], r)
        if bad:
            ctx.fail(f"BTSString.write(4, chr({c:#x})): {bad}", dict(op="write", w=4, s=[c]), ident=f"write-cp-{c:#x}")
    model_lo = common.drv_batch([[Sym("cp.enc.range"), 0, 0x3000]])[0]
    model_hi = common.drv_batch([[Sym("cp.enc.range"), 0x3000, 0x110000]])[0]
    model_tab = list(model_lo) + list(model_hi)
    ctx.evaluations += 0x110000
    ctx.dist["codepoints"] += 0x110000
    for c in range(0x110000):
        if real_tab[c] != model_tab[c]:
            ctx.diff("cp1252-encode-table", f"code point {c:#x}: real byte {real_tab[c]} model {model_tab[c]}", dict(op="write", w=4, s=[c]))
            break
    ctx.nontrivial.update(f"cp{c}" for c in range(0x110000) if real_tab[c] > 0)
    mdec = common.drv_batch([[Sym("cp.dec.all")]])[0]
    for b in range(256):
        r = real_read(2, bytes([b, 0]))
        rv = (r[1][0] if r[1] else -2) if r[0] == "ok" else -1
        mv = mdec[b] if b != 0 else -2
        ctx.case(("dec", b), nontrivial=b != 0)
        if rv != mv:
            ctx.diff("cp1252-decode-table", f"byte {b:#x}: real {rv} model {mv}", dict(op="read", w=2, b=bytes([b, 0]).hex()))

    # 2. strings: exhaustive short ones + seeded boundary ones
    cases = []
    for n in range(0, 5):
        for t in itertools.product(ALPHA, repeat=n):
            for w in range(1, 6):
                cases.append((w, list(t)))
    exhaustive_n = len(cases)
    pool = list(range(0x20, 0x7F)) * 3 + [0xE9, 0xF1, 0xFF, 0xA0, 0x20AC, 0x2122, 0x178, 0x152] * 4 + [0x3B1, 0x81, 0x80, 0x9D, 0xD800, 0x1F600, 0x100]
    for _ in range(ctx.n(1500, 60000)):
        w = rng.choice([32, 256, 32, 256, 1, 2, 3, 8, 0])
        ln = max(0, w + rng.choice([-3, -2, -1, 0, 1, 2, -w, -w // 2]))
        kind = rng.random()
        if kind < 0.6:
            s = [rng.choice(pool[:-7]) for _ in range(ln)]        # encodable
        elif kind < 0.8:
            s = [rng.choice(pool) for _ in range(ln)]
        elif kind < 0.9 and ln:
            s = [rng.choice(pool[:-7]) for _ in range(ln)]
            s[rng.randrange(ln)] = rng.choice(pool[-7:])          # one bad character at a random position
        else:
            s = [rng.choice(pool[:-7]) for _ in range(ln)]
            if ln:
                s[rng.randrange(ln)] = 0                          # embedded NUL
        cases.append((w, s))
    # texts whose EXCESS over the field is something a tidy-minded writer might drop instead of refusing: blanks, tabs, NULs, dots —
    # at the end or at the start; texts that fit only after stripping or normalising; special texts (mojibake, number-like)
    for _ in range(ctx.n(300, 6000)):
        w = rng.choice([4, 8, 32, 256])
        core = [rng.choice(pool[:-7]) for _ in range(rng.randrange(0, w))]
        fill = rng.choice([0x20, 0x20, 0x09, 0xA0, 0x2E, 0x5F])
        extra = w - len(core) + rng.choice([0, 0, 1, 2, 40])
        s = core + [fill] * extra if rng.random() < 0.7 else [fill] * extra + core
        cases.append((w, s))
    for t in A._SPECIAL_TEXTS:
        for w in (len(t) + 1, len(t), 32):
            if w >= 1:
                cases.append((w, [ord(c) for c in t]))
    replies = common.drv_batch([[Sym("str.write"), w, s] for w, s in cases])
    from basictdf.tdfTypes import BTSString
    for (w, s), m in zip(cases, replies):
        r = real_write(w, s)
        tag = "write-ok" if r[0] == "ok" else "write-" + str(r[1])
        ctx.case(("w", w, tuple(s)), nontrivial=len(s) >= 1, sample=dict(op="write", w=w, s=s, real=tag), tags=(tag, f"w={w}" if w in (32, 256) else "w=small"))
        mm = ("ok", m[1]) if m[0] == "ok" else ("err", str(m[1]))
        rep = dict(op="write", w=w, s=s)
        if r != mm:
            ctx.diff("str.write", f"w={w} s={s[:40]}: real {r[0]} {r[1] if r[0] != 'ok' else r[1].hex()[:80]} model {mm[0]} {mm[1] if mm[0] != 'ok' else mm[1].hex()[:80]}", rep)
        bad = oracle_write(w, s, r)
        if bad:
            ctx.fail(f"BTSString.write({w}, {s[:40]}): {bad}", rep, ident=f"write w={w} len={len(s)}")
        # the same text held as another kind of str object (a str subclass; numpy's str_, which is what indexing an array of labels
        # gives): a string is a string
        if not bad and len(s) >= 2 and rng.random() < 0.25 and all(c < 0xD800 or c > 0xDFFF for c in s):
            text = "".join(chr(c) for c in s)
            variants = [("str subclass", StrSub(text))]
            if not text.endswith("\0"):                 # (numpy's str_ drops trailing NULs: not the same text any more)
                variants.append(("numpy.str_", np.str_(text)))
            for name, obj in variants:
                try:
                    rv = ("ok", BTSString.write(w, obj))
                except ValueError as e:
                    rv = ("err", "notEncodable" if isinstance(e, UnicodeError) else "tooLong")
                except Exception as e:
                    rv = ("exc", type(e).__name__)
                if rv != r:
                    ctx.fail(f"BTSString.write({w}, <{name} of {s[:30]}>) behaves differently from the plain str: {rv[0]} {rv[1] if rv[0] != 'ok' else rv[1].hex()[:60]} "
                             f"instead of {r[0]} {r[1] if r[0] != 'ok' else r[1].hex()[:60]}", dict(rep, held_as=name), ident=f"write {name}")

    # 3. read side: arbitrary byte strings of the field width
    rcases = []
    for w in range(0, 4):
        for t in itertools.product([0x41, 0x00, 0x80, 0x81, 0xE9], repeat=w):
            rcases.append((w, bytes(t)))
    for _ in range(ctx.n(1500, 60000)):
        w = rng.choice([32, 256, 1, 2, 5, 8])
        k = rng.random()
        if k < 0.3:
            b = bytes(rng.randrange(256) for _ in range(w))
        elif k < 0.8:
            ln = rng.randrange(0, w + 1)
            b = bytes(rng.choice([0x41, 0x61, 0xE9, 0x80, 0x99, 0xFF, 0x20]) for _ in range(ln))
            b = b + (b"\x00" if ln < w else b"") + bytes(rng.choice([0, 0x81, 0x8D, 0x8F, 0x90, 0x9D, rng.randrange(256)]) for _ in range(max(0, w - ln - 1)))
        else:
            b = bytes(rng.choice([0x41, 0xE9, 0x80]) for _ in range(w))   # unterminated
        if rng.random() < 0.03:
            b = b + b"x"  # wrong length for the width: must raise on both sides
        rcases.append((w, b))
    replies = common.drv_batch([[Sym("str.read"), w, b] for w, b in rcases])
    for (w, b), m in zip(rcases, replies):
        r = real_read(w, b)
        mm = ("ok", list(m[1])) if m[0] == "ok" else ("err", "raised")
        ctx.case(("r", w, b), nontrivial=any(b), sample=dict(op="read", w=w, b=b.hex(), real=r[0]), tags=("read-" + r[0],))
        if r != mm:
            ctx.diff("str.read", f"w={w} b={b.hex()[:80]}: real {r} model {mm}", dict(op="read", w=w, b=b.hex()))
        # oracle: content after the first NUL never matters; result re-encodes to the bytes before the NUL
        if r[0] == "ok" and len(b) == w:
            cut = b.split(b"\x00")[0]
            try:
                if "".join(chr(c) for c in r[1]).encode("cp1252") != cut:
                    ctx.fail(f"BTSString.read({w}, {b.hex()[:60]}) = {r[1][:30]} does not re-encode to the bytes before the first NUL", dict(op="read", w=w, b=b.hex()), ident=f"read w={w}")
            except UnicodeEncodeError:
                ctx.fail(f"BTSString.read({w}, {b.hex()[:60]}) returned unencodable text", dict(op="read", w=w, b=b.hex()), ident=f"read w={w}")
    ctx.exhaustive = False
    ctx.notes.append(f"exhaustive parts: 1114112 code points, 256 bytes, {exhaustive_n} short strings x widths, all byte strings of width<=3 over 5 bytes")


def replay(path):
    data = json.load(open(path))
    items = data.get("failures") or data.get("broken_correspondence") or []
    rc = 0
    for it in items:
        rp = it["replay"]
        if rp["op"] == "write":
            r = real_write(rp["w"], rp["s"])
            bad = oracle_write(rp["w"], rp["s"], r)
            print("write", rp["w"], rp["s"][:40], "->", r[0], "| property:", bad or "holds")
            rc |= 1 if bad else 0
        else:
            r = real_read(rp["w"], bytes.fromhex(rp["b"]))
            print("read", rp["w"], rp["b"][:60], "->", r)
    return rc
