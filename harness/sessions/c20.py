"""C20 — separately created blocks share no state."""
import io
import json

import numpy as np

import absval as A
import common
from sx import Sym

RULE = ("seeded interleavings (length<=14) over 2-4 instances of each item-holding block class (OpticalSetupBlock, "
        "TemporalEventsData, EMG, Data3D, ForceTorque3D, ForcePlatformsCalibrationDataBlock, ForcePlatformsDataBlock): construct "
        "without items, construct with an own item list (where the constructor takes one), copy.deepcopy / pickle round trip of an instance, decode the same bytes again (from two streams, or from ONE stream rewound in between), add an "
        "item, remove an item, edit an item in place (a sample, a label, an index), assign one block's item list (the list its getter returns, "
        "a tuple of its items, or ONE list object given to two blocks) through the list setters of Data3D / ForceTorque3D / ForcePlatformsDataBlock, encode; items have 2 frames, in one run of eight "
        "1023/1024/1025/4096 frames (wholly missing, wholly present, with gaps); after every step the items (by identity) and the encoding of EVERY instance are compared "
        "with the store model. non-trivial = interleaving that edits one instance after a second one exists; distinct by (class, ops)")
ASSUMPTIONS = ["object identity is CPython's; the store model is only as good as this tie",
               "each CONSTRUCTOR call is given its own list object (passing one list to two constructors is caller-induced aliasing); the list SETTERS copy, so one list may be assigned to two blocks"]
CLASSES = ["optical", "events", "emg", "data3d", "force3d", "platcalib", "platdata"]
N = 2


class Inst:
    def __init__(self, kind, obj):
        self.kind, self.obj = kind, obj


def new_item(kind, rng):
    if kind == "optical":
        from basictdf.tdfOpticalSystem import OpticalChannelData
        return OpticalChannelData(rng.randrange(100), "l", "t", "n", A.viewport([0, 0, 1, 1]))
    if kind == "events":
        from basictdf.tdfEvents import Event
        return Event("e" + str(rng.randrange(100)), A.f32([A.gen_f32(rng)]))
    if kind == "emg":
        from basictdf.tdfEMG import EMGTrack
        return EMGTrack("s" + str(rng.randrange(1000)), A.frames_array(A.gen_frames(rng, 1, N, mask=[True] * N), 1)[:, 0])
    if kind == "data3d":
        from basictdf.tdfData3D import MarkerTrack
        return MarkerTrack("m", A.frames_array(gen_item_frames(rng, 3, True), 3))
    if kind == "force3d":
        from basictdf.tdfForce3D import ForceTorqueTrack
        a = A.frames_array(gen_item_frames(rng, 9, True), 9)
        return ForceTorqueTrack("f", a[:, 0:3].copy(), a[:, 3:6].copy(), a[:, 6:9].copy())
    if kind == "platcalib":
        from basictdf.tdfForcePlatformsCalibration import ForcePlatformInfo
        return ForcePlatformInfo("p", A.f32(A.gen_vec(rng, 2)), A.f32(A.gen_vec(rng, 12)).reshape(4, 3))
    from basictdf.tdfForcePlatformsData import ForcePlatformData
    a = A.frames_array(gen_item_frames(rng, 6, True), 6)
    return ForcePlatformData(a[:, 0:2].copy(), a[:, 2:5].copy(), a[:, 5].copy())


def gen_item_frames(rng, k, big):
    """frames of one item: in big runs also wholly missing and wholly present items (no run / one run on disk)"""
    if N > 16 or PROFILE:
        how = PROFILE or rng.choice(["missing", "present", "gaps"])
        if how == "missing":
            return [None] * N
        row = [A.gen_f32(rng) for _ in range(k)]
        fr = [list(row) for _ in range(N)]
        if how == "gaps":
            for j in rng.sample(range(N), min(3, N - 1)):
                fr[j] = None
        return fr
    return A.gen_frames(rng, k, N)


def poke(obj, attr, idx, v):
    """in-place write where the array allows it; arrays decoded as read-only views are replaced by an edited copy"""
    a = getattr(obj, attr)
    if a.flags.writeable:
        a[idx] = v
    else:
        a = a.copy()
        a[idx] = v
        setattr(obj, attr, a)


def item_state(kind, it):
    out = []
    for attr in ("logical_camera_index", "label", "values", "data", "position", "application_point", "force", "torque"):
        x = getattr(it, attr, None)
        if x is not None:
            out.append(np.asarray(x).tobytes() if isinstance(x, np.ndarray) else repr(x))
    return out


def edit_item(kind, it, rng):
    """edits the content of one item through its public attributes; the content really changes (an edit that happens to write
    the value that is already there is repeated with another value)"""
    before = item_state(kind, it)
    for _ in range(6):
        _edit_item(kind, it, rng)
        if item_state(kind, it) != before:
            return


def _edit_item(kind, it, rng):
    v = np.float32(rng.choice([1.5, -2.25, 1000.0]) + rng.randrange(100))
    if kind == "optical":
        it.logical_camera_index = (int(it.logical_camera_index) + 1) % 1000
    elif kind == "events":
        if len(it.values):
            poke(it, "values", 0, v)
        else:
            it.label = it.label + "x"
    elif kind in ("emg", "data3d"):
        poke(it, "data", rng.randrange(it.data.shape[0]), v)
    elif kind == "platcalib":
        poke(it, "position", rng.randrange(4), v)
    else:
        j = rng.randrange(it.force.shape[0])
        for attr in ("application_point", "force", "torque"):
            poke(it, attr, j, v)


def construct(kind, items):
    """items=None: constructor without items; else a fresh list of items handed to the constructor where it takes one"""
    g = np.array([1.0, 2.0, 3.0], dtype="<f4")
    r = np.eye(3, dtype="<f4")
    if kind == "optical":
        from basictdf.tdfOpticalSystem import OpticalSetupBlock
        return OpticalSetupBlock() if items is None else OpticalSetupBlock(channels=list(items))
    if kind == "events":
        from basictdf.tdfEvents import TemporalEventsData
        b = TemporalEventsData()
        if items is not None:
            b.events = list(items)
        return b
    if kind == "emg":
        from basictdf.tdfEMG import EMG
        b = EMG(1000, N)
    elif kind == "data3d":
        from basictdf.tdfData3D import Data3D
        b = Data3D(100, N, g, r, g)
    elif kind == "force3d":
        from basictdf.tdfForce3D import ForceTorque3D
        b = ForceTorque3D(100, N, g, r, g)
    elif kind == "platcalib":
        from basictdf.tdfForcePlatformsCalibration import ForcePlatformsCalibrationDataBlock
        # (this constructor fills a list of the block's own: the caller's list is handed over as it is and edited later)
        return ForcePlatformsCalibrationDataBlock() if items is None else ForcePlatformsCalibrationDataBlock(platforms=items)
    else:
        from basictdf.tdfForcePlatformsData import ForcePlatformsDataBlock
        b = ForcePlatformsDataBlock(0.0, 100, N)
    for it in items or []:
        add(kind, b, it)
    if kind == "data3d" and items and LINKS[0] % 2 == 0:
        # every other 3D block built with markers also carries a link table (the skeleton): block-level data of that one block
        from basictdf.tdfData3D import LinkType
        b.links = np.array([(0, len(items) - 1)], dtype=LinkType.btype)
    LINKS[0] += 1
    return b


LINKS = [0]


def add(kind, b, it):
    if kind == "optical":
        b.channels.append(it)
    elif kind == "events":
        b.events.append(it)
    elif kind == "emg":
        CHAN[0] += 1
        b.addSignal(it, channel=300 + CHAN[0]) if CHAN[0] % 2 else b.addSignal(it)
    elif kind in ("data3d", "force3d"):
        b.add_track(it)
    else:
        # explicit channels that differ from block to block (an item shared by two blocks sits on different channels there)
        CHAN[0] += 1
        b.add_platform(it, channel=300 + CHAN[0]) if CHAN[0] % 2 else b.add_platform(it)


def remove(kind, b, k):
    if kind == "optical":
        del b.channels[k]
    elif kind == "events":
        del b.events[k]
    elif kind == "emg":
        b.removeSignal(list(b)[k].label)
    elif kind in ("data3d", "force3d"):
        t = list(b.tracks)
        del t[k]
        b.tracks = t
    elif kind == "platcalib":
        b.remove_platform(k)
    else:
        p = [x for _, x in b]
        del p[k]
        b.platforms = p


def items_of(kind, b):
    if kind in ("platcalib",):
        return [p for _, p in b.platforms]
    if kind == "platdata":
        return [p for _, p in b]
    return list(iter(b))


PROFILE = None
CHAN = [0]


def random_action(rng, n_insts):
    r = rng.random()
    if r < 0.16 or n_insts < 2:
        return ("construct", None if rng.random() < 0.55 else rng.randrange(0, 3))
    if r < 0.19:
        return ("clone", rng.randrange(n_insts), rng.choice(["deepcopy", "pickle"]))
    if r < 0.215:
        return ("provoke",)
    if r < 0.25:
        return ("caller-list",)
    if r < 0.30:
        a, b = rng.sample(range(n_insts), 2)
        return ("assign", a, b, rng.choice(["getter", "one-list", "tuple"]))
    if r < 0.34:
        return ("decode", rng.randrange(n_insts))
    if r < 0.52:
        return ("edit", rng.randrange(n_insts), None)
    if r < 0.74:
        return ("add", rng.randrange(n_insts))
    if r < 0.82:
        return ("move", rng.randrange(n_insts))
    return ("remove", rng.randrange(n_insts), None)


def scripted_plans():
    """decode-twice scenarios run for every class, item length and item profile: build a block with two items, decode its
    bytes twice, edit an item of the first decode, decode the ORIGINAL bytes twice more, edit again, add to a decode"""
    return [[("construct", 2), ("decode", 0), ("edit", 1, 0), ("decode", 0), ("edit", 3, 1), ("add", 2), ("decode", 0), ("remove", 5, 0), ("edit", 6, 0)],
            # a list handed from one block to another (or to two blocks), then each block edited on its own
            [("construct", 2), ("construct", None), ("assign", 1, 0, "getter"), ("add", 0), ("add", 1), ("remove", 0, 0), ("add", 1)],
            [("construct", 1), ("construct", None), ("construct", 2), ("assign", 1, 2, "one-list"), ("add", 2), ("remove", 1, 0), ("add", 1), ("add", 0)],
            # block-level data (the link table of a 3D block) belongs to the block that was built or decoded with it
            [("construct", 2), ("construct", None), ("construct", 1), ("decode", 0), ("construct", None), ("add", 1), ("decode", 2), ("edit", 0, 0)],
            # an item taken OUT of a decoded block stays in use: it moves to another block, the same bytes are decoded again, the moved item is edited
            [("construct", 2), ("decode", 0), ("remove", 1, 0), ("move", 0), ("decode", 0), ("edit", 0, 2), ("decode", 0), ("edit", 3, 0), ("edit", 0, 2), ("edit", 5, 0)]]


def one_run(ctx, kind, rng, plan=None, steps=0):
    insts, ids, nid = [], {}, [100]
    ops, obs, srcs = [], [], {}
    caller_lists = []
    streams = []          # kept alive: a decoder that borrowed the stream's buffer keeps borrowing it

    removed_items = []    # items taken out of a block that the caller still holds
    alive = []            # every registered object stays alive: `ids` is keyed by id(), and the id of a dead object is reused by new ones

    def reg(o):
        alive.append(o)
        ids[id(o)] = nid[0]
        nid[0] += 1
        return ids[id(o)]
    actions = list(plan) if plan else None
    for _ in range(len(actions) if actions else steps):
        act = actions.pop(0) if actions else random_action(rng, len(insts))
        try:
            if act[0] == "construct":
                if act[1] is None:
                    insts.append(construct(kind, None))
                    ops.append([Sym("construct"), Sym("none")])
                else:
                    its = [new_item(kind, rng) for _ in range(act[1])]
                    if kind == "emg":
                        for j, it in enumerate(its):
                            it.label = f"c{nid[0]}_{j}"
                    mids = [reg(o) for o in its]
                    insts.append(construct(kind, its))
                    ops.append([Sym("construct"), mids])
                    if kind == "platcalib":
                        caller_lists.append(its)
            elif act[0] == "decode":
                src = act[1]
                enc = A.encode(insts[src])
                srcs[len(ops) + 1] = enc
                if rng.random() < 0.5:
                    dec = type(insts[src])._build(io.BytesIO(enc), insts[src].format.value)
                    dec2 = type(insts[src])._build(io.BytesIO(enc), insts[src].format.value)
                else:                     # ONE stream object read twice (rewound in between), as a program re-reading a buffer does
                    st = io.BytesIO(enc)
                    dec = type(insts[src])._build(st, insts[src].format.value)
                    st.seek(0)
                    dec2 = type(insts[src])._build(st, insts[src].format.value)
                    streams.append(st)
                m1 = [reg(o) for o in items_of(kind, dec)]
                m2 = [reg(o) for o in items_of(kind, dec2)]
                insts += [dec, dec2]
                ops += [[Sym("decode"), m1], [Sym("decode"), m2]]
                obs.append(None)
            elif act[0] == "edit":
                i = act[1]
                its = items_of(kind, insts[i])
                if not its:
                    continue
                k = act[2] if act[2] is not None else rng.randrange(len(its))
                # how the program reaches the item it edits: through iteration, by position, or by label — and, before it edits,
                # it may have asked OTHER instances for the same position / label (reading never ties instances together)
                how = rng.choice(["iteration", "index", "negative-index", "label", "label"]) if kind in ("data3d", "force3d", "emg", "events") else "iteration"
                target = its[k]
                if how == "label":
                    lab = its[k].label
                    k = [x.label for x in its].index(lab)
                    for other in (insts if rng.random() < 0.7 else []):
                        try:
                            other[lab]
                        except Exception:
                            pass
                    target = insts[i][lab]
                elif how == "index":
                    for other in (insts if rng.random() < 0.7 else []):
                        try:
                            other[k]
                        except Exception:
                            pass
                    target = insts[i][k]
                elif how == "negative-index":
                    target = insts[i][k - len(its)]
                edit_item(kind, target, rng)
                ops.append([Sym("edit"), i, k])
            elif act[0] == "clone":
                # copy.deepcopy / a pickle round trip of an instance: a new instance with items of its own
                import copy
                import pickle
                src = act[1]
                dup = copy.deepcopy(insts[src]) if act[2] == "deepcopy" else pickle.loads(pickle.dumps(insts[src]))
                if any(id(o) in ids for o in items_of(kind, dup)):
                    ctx.fail(f"{kind}: {act[2]} of a block handed out item objects that another instance holds", dict(kind=kind, ops=[str(o) for o in ops]), ident=f"{kind} {act[2]} shares items")
                    return None
                insts.append(dup)
                ops.append([Sym("construct"), [reg(o) for o in items_of(kind, dup)]])
            elif act[0] == "provoke":
                import blockrun as B
                B.provoke(rng, kinds=[kind])                  # an encode / decode / constructor call of this class fails (and is caught)
                ops.append([Sym("edit"), 9999, 0])            # for the model: nothing happened
            elif act[0] == "caller-list":
                if not caller_lists:
                    continue
                lst = rng.choice(caller_lists)
                lst.append(new_item(kind, rng))          # the caller goes on using the list it gave to a constructor
                if len(lst) > 1:
                    del lst[0]
                ops.append([Sym("edit"), 9999, 0])        # for the model: nothing happened
            elif act[0] == "assign":
                # only where the library has a list setter that fills a container of the instance's own
                attr = {"data3d": "tracks", "force3d": "tracks", "platdata": "platforms"}.get(kind)
                if attr is None or act[1] >= len(insts) or act[2] >= len(insts):
                    continue
                dst, src, how = act[1], act[2], act[3]
                its = items_of(kind, insts[src])
                mids = [ids[id(o)] for o in its]
                if how == "getter" and kind != "platdata":
                    setattr(insts[dst], attr, getattr(insts[src], attr))       # b.tracks = a.tracks
                    ops.append([Sym("assign"), dst, mids])
                elif how == "tuple":
                    setattr(insts[dst], attr, tuple(its))
                    ops.append([Sym("assign"), dst, mids])
                else:
                    one = list(its)                                             # ONE list object given to both blocks
                    setattr(insts[src], attr, one)
                    setattr(insts[dst], attr, one)
                    ops += [[Sym("assign"), src, mids], [Sym("assign"), dst, mids]]
                    obs.append(None)
            elif act[0] == "add":
                i = act[1]
                it = new_item(kind, rng)
                if kind == "emg":
                    it.label = f"a{nid[0]}"
                add(kind, insts[i], it)
                ops.append([Sym("add"), i, reg(it)])
            elif act[0] == "move":
                # an item that was removed from some block earlier is still in the caller's hands: it goes into another block
                if not removed_items:
                    continue
                it = removed_items.pop()
                i = act[1]
                if any(o is it for o in items_of(kind, insts[i])):
                    continue
                if kind == "emg":
                    it.label = f"m{nid[0]}"
                    nid[0] += 1
                add(kind, insts[i], it)
                ops.append([Sym("add"), i, ids[id(it)]])
            else:
                i = act[1]
                n = len(items_of(kind, insts[i]))
                if n == 0:
                    continue
                k = act[2] if act[2] is not None else rng.randrange(n)
                gone = items_of(kind, insts[i])[k]
                remove(kind, insts[i], k)
                if id(gone) in ids and not any(o is gone for b2 in insts for o in items_of(kind, b2)):
                    removed_items.append(gone)
                ops.append([Sym("remove"), i, k])
        except Exception as e:
            ctx.fail(f"{kind}: a valid construct/decode/add/remove/edit raised {type(e).__name__}: {str(e)[:80]}", dict(kind=kind, frames=N, ops=[str(o) for o in ops]), ident=f"{kind} operation raises")
            return None
        snap = []
        for b in insts:
            try:
                snap.append(([ids.get(id(o), -1) for o in items_of(kind, b)], A.encode(b)))
            except Exception as e:
                snap.append((None, type(e).__name__))
        obs.append(snap)
    return (kind, ops, obs, N, srcs)


def run(ctx):
    rng = ctx.rng
    runs = []
    global N, PROFILE
    # scripted decode-twice scenarios: every class x item length x item profile
    for kind in CLASSES:
        framed = kind in ("emg", "data3d", "force3d", "platdata")
        for n in ([2, 1023, 1024, 4096] + ([1025, 16384, 65536] if ctx.thorough else [])) if framed else [2]:
            for prof in (["missing", "present", "gaps"] if framed and kind != "emg" else [None]):
                for plan in scripted_plans():
                    N, PROFILE = n, prof
                    r = one_run(ctx, kind, rng, plan=plan)
                    if r:
                        runs.append(r)
    PROFILE = None
    for _ in range(ctx.n(500, 20000)):
        kind = rng.choice(CLASSES)
        # most runs use 2-frame items; some use long ones (size-dependent code paths: 1 Ki, 4 Ki frames and their neighbours)
        N = 2 if rng.random() < 0.88 else rng.choice([1023, 1024, 1025, 4096])
        r = one_run(ctx, kind, rng, steps=rng.randrange(3, 15) if N == 2 else rng.randrange(3, 8))
        if r:
            runs.append(r)
    N = 2
    replies = common.drv_batch([[Sym("store.run"), ops] for _, ops, _, _, _ in runs])
    for (kind, ops, obs, nframes, srcs), rep in zip(runs, replies):
        obs = [o for o in obs]
        # align: a decode pair produced two model ops and (None, snapshot)
        snaps = []
        oi = 0
        for o in obs:
            if o is None:
                snaps.append(None)
            else:
                snaps.append(o)
        assert len(snaps) == len(ops), (len(snaps), len(ops))
        edits_after_second = any(op[0] in ("add", "remove", "edit", "assign") for op in ops[2:])
        ctx.case((kind, nframes, str(ops)), nontrivial=edits_after_second, sample=dict(kind=kind, frames=nframes, ops=[str(o)[:40] for o in ops][:8]),
                 tags=[kind, "long-items" if nframes > 16 else "short-items"] + [str(o[0]) for o in ops])
        rp = dict(kind=kind, frames=nframes, ops=[str(o) for o in ops])
        prev = mprev = None
        for i, (op, snap, m) in enumerate(zip(ops, snaps, rep)):
            if snap is None:
                continue
            real_cells = [s[0] for s in snap]
            if any(c is None for c in real_cells):
                ctx.fail(f"{kind}: an instance can no longer be iterated/encoded after step {i} {op}", dict(rp, upto=i), ident=f"{kind} instance unusable")
                break
            model_cells = [list(c[0]) for c in m]
            # oracle: every OTHER instance is unchanged (items and encoding)
            if prev is not None and op[0] == "assign" and i >= 1 and ops[i - 1][0] == "assign" and snaps[i - 1] is None:
                pass                      # second half of a one-list assignment to two blocks: both changed, by design
            elif prev is not None and op[0] in ("add", "remove", "edit", "assign"):
                hit = False
                edited = prev[op[1]][0][op[2]] if op[0] == "edit" and op[1] < len(prev) and op[2] < len(prev[op[1]][0]) else None
                for j, (before, after) in enumerate(zip(prev, snap)):
                    if edited is not None and edited in before[0]:
                        continue          # an instance that holds the very object that was edited (after a list assignment)
                    if j != op[1] and before != after:
                        what = f"items {before[0]} -> {after[0]}" if before[0] != after[0] else "its encoding changed"
                        who = "a failed call elsewhere (or the caller editing a list it had given to a constructor)" if op[1] == 9999 else f"{'editing an item of' if op[0] == 'edit' else 'editing'} instance {op[1]}"
                        ctx.fail(f"{kind}: {who} changed instance {j} ({what})", dict(rp, upto=i, frames=nframes),
                                 ident=f"{kind} instances share state")
                        hit = True
                        break
                if hit:
                    break
            if prev is not None and op[0] in ("decode", "construct"):
                # creating an instance — by a constructor call or by decoding — changes nothing about the instances that exist
                for j, (before, after) in enumerate(zip(prev, snap)):
                    if before != after:
                        ctx.fail(f"{kind}: {'decoding a block' if op[0] == 'decode' else 'constructing a block'} changed instance {j}, which existed before "
                                 f"({'items' if before[0] != after[0] else 'its encoding'} changed)", dict(rp, upto=i, frames=nframes), ident=f"{kind} creating an instance changes another")
                        break
            if prev is not None and op[0] == "decode" and i >= 1 and ops[i - 1][0] == "decode":
                # the two decodes of one encoding: same content, whatever was done to earlier decodes of the same bytes
                if snap[-1][1] != snap[-2][1] or snap[-1][1] != srcs.get(i):
                    ctx.fail(f"{kind}: decoding the same bytes again gives a block that encodes differently (state left behind by an earlier decode or edit)",
                             dict(rp, upto=i, frames=nframes), ident=f"{kind} decode depends on history")
                    break
            if op[0] == "construct" and op[1] == "none" and real_cells[-1] != []:
                ctx.fail(f"{kind}: a block constructed without items starts with {len(real_cells[-1])} items", dict(rp, upto=i), ident=f"{kind} new block not empty")
                break
            if real_cells != model_cells:
                ctx.diff("store.cells", f"{kind} step {i} {op}: real {real_cells} model {model_cells}", dict(rp, upto=i))
                break
            if prev is not None and mprev is not None and op[0] == "edit":
                rc = [a != b for a, b in zip(prev, snap)]
                mc = [list(a) != list(b) for a, b in zip(mprev, m)]
                if rc != mc:
                    ctx.diff("store.encoding", f"{kind} step {i} {op}: instances whose encoding changed: real {rc} model {mc}", dict(rp, upto=i))
                    break
            prev, mprev = snap, m


def replay(path):
    data = json.load(open(path))
    for it in (data.get("failures") or []) + (data.get("broken_correspondence") or []):
        print(it.get("what") or it.get("detail"))
        print("   ", it["replay"].get("ops"))
    return 1 if data.get("failures") else 0
