"""C20 — separately created blocks share no state."""
import io
import json

import numpy as np

import absval as A
import common
from sx import Sym

RULE = ("seeded interleavings (length<=14) over 2-4 instances of each item-holding block class (OpticalSetupBlock, "
        "TemporalEventsData, EMG, Data3D, ForceTorque3D, ForcePlatformsCalibrationDataBlock, ForcePlatformsDataBlock): construct "
        "without items, construct with an own item list (where the constructor takes one), decode the same bytes again, add an "
        "item, remove an item, encode; after every step the items (by identity) and the encoding of EVERY instance are compared "
        "with the store model. non-trivial = interleaving that edits one instance after a second one exists; distinct by (class, ops)")
ASSUMPTIONS = ["object identity is CPython's; the store model is only as good as this tie",
               "each constructor call is given its own list object (passing one list to two constructors is caller-induced aliasing)"]
CLASSES = ["optical", "events", "emg", "data3d", "force3d", "platcalib", "platdata"]
N = 2


class Inst:
    def __init__(self, kind, obj):
        self.kind, self.obj = kind, obj


def new_item(kind, rng):
    if kind == "optical":
        from basictdf.tdfOpticalSystem import OpticalChannelData
        return OpticalChannelData(rng.randrange(100), "l", "t", "n", A.viewport([0, 0, 1, 1]))
    if kind == "events":
        from basictdf.tdfEvents import Event
        return Event("e" + str(rng.randrange(100)), A.f32([A.gen_f32(rng)]))
    if kind == "emg":
        from basictdf.tdfEMG import EMGTrack
        return EMGTrack("s" + str(rng.randrange(1000)), A.frames_array(A.gen_frames(rng, 1, N, mask=[True] * N), 1)[:, 0])
    if kind == "data3d":
        from basictdf.tdfData3D import MarkerTrack
        return MarkerTrack("m", A.frames_array(A.gen_frames(rng, 3, N), 3))
    if kind == "force3d":
        from basictdf.tdfForce3D import ForceTorqueTrack
        a = A.frames_array(A.gen_frames(rng, 9, N), 9)
        return ForceTorqueTrack("f", a[:, 0:3].copy(), a[:, 3:6].copy(), a[:, 6:9].copy())
    if kind == "platcalib":
        from basictdf.tdfForcePlatformsCalibration import ForcePlatformInfo
        return ForcePlatformInfo("p", A.f32(A.gen_vec(rng, 2)), A.f32(A.gen_vec(rng, 12)).reshape(4, 3))
    from basictdf.tdfForcePlatformsData import ForcePlatformData
    a = A.frames_array(A.gen_frames(rng, 6, N), 6)
    return ForcePlatformData(a[:, 0:2].copy(), a[:, 2:5].copy(), a[:, 5].copy())


def construct(kind, items):
    """items=None: constructor without items; else a fresh list of items handed to the constructor where it takes one"""
    g = np.array([1.0, 2.0, 3.0], dtype="<f4")
    r = np.eye(3, dtype="<f4")
    if kind == "optical":
        from basictdf.tdfOpticalSystem import OpticalSetupBlock
        return OpticalSetupBlock() if items is None else OpticalSetupBlock(channels=list(items))
    if kind == "events":
        from basictdf.tdfEvents import TemporalEventsData
        b = TemporalEventsData()
        if items is not None:
            b.events = list(items)
        return b
    if kind == "emg":
        from basictdf.tdfEMG import EMG
        b = EMG(1000, N)
    elif kind == "data3d":
        from basictdf.tdfData3D import Data3D
        b = Data3D(100, N, g, r, g)
    elif kind == "force3d":
        from basictdf.tdfForce3D import ForceTorque3D
        b = ForceTorque3D(100, N, g, r, g)
    elif kind == "platcalib":
        from basictdf.tdfForcePlatformsCalibration import ForcePlatformsCalibrationDataBlock
        return ForcePlatformsCalibrationDataBlock() if items is None else ForcePlatformsCalibrationDataBlock(platforms=list(items))
    else:
        from basictdf.tdfForcePlatformsData import ForcePlatformsDataBlock
        b = ForcePlatformsDataBlock(0.0, 100, N)
    for it in items or []:
        add(kind, b, it)
    return b


def add(kind, b, it):
    if kind == "optical":
        b.channels.append(it)
    elif kind == "events":
        b.events.append(it)
    elif kind == "emg":
        b.addSignal(it)
    elif kind in ("data3d", "force3d"):
        b.add_track(it)
    else:
        b.add_platform(it)


def remove(kind, b, k):
    if kind == "optical":
        del b.channels[k]
    elif kind == "events":
        del b.events[k]
    elif kind == "emg":
        b.removeSignal(list(b)[k].label)
    elif kind in ("data3d", "force3d"):
        t = list(b.tracks)
        del t[k]
        b.tracks = t
    elif kind == "platcalib":
        b.remove_platform(k)
    else:
        p = [x for _, x in b]
        del p[k]
        b.platforms = p


def items_of(kind, b):
    if kind in ("platcalib",):
        return [p for _, p in b.platforms]
    if kind == "platdata":
        return [p for _, p in b]
    return list(iter(b))


def run(ctx):
    rng = ctx.rng
    runs = []
    for _ in range(ctx.n(500, 20000)):
        kind = rng.choice(CLASSES)
        insts, ids, nid = [], {}, [100]
        ops, obs = [], []

        def reg(o):
            ids[id(o)] = nid[0]
            nid[0] += 1
            return ids[id(o)]
        ok = True
        for _ in range(rng.randrange(3, 15)):
            r = rng.random()
            try:
                if r < 0.22 or len(insts) < 2:
                    if rng.random() < 0.55:
                        insts.append(construct(kind, None))
                        ops.append([Sym("construct"), Sym("none")])
                    else:
                        its = [new_item(kind, rng) for _ in range(rng.randrange(0, 3))]
                        if kind == "emg":
                            for j, it in enumerate(its):
                                it.label = f"c{nid[0]}_{j}"
                        mids = [reg(o) for o in its]
                        insts.append(construct(kind, its))
                        ops.append([Sym("construct"), mids])
                elif r < 0.34:
                    src = rng.randrange(len(insts))
                    enc = A.encode(insts[src])
                    dec = type(insts[src])._build(io.BytesIO(enc), insts[src].format.value)
                    dec2 = type(insts[src])._build(io.BytesIO(enc), insts[src].format.value)
                    m1 = [reg(o) for o in items_of(kind, dec)]
                    m2 = [reg(o) for o in items_of(kind, dec2)]
                    insts += [dec, dec2]
                    ops += [[Sym("decode"), m1], [Sym("decode"), m2]]
                    obs.append(None)
                elif r < 0.75:
                    i = rng.randrange(len(insts))
                    it = new_item(kind, rng)
                    if kind == "emg":
                        it.label = f"a{nid[0]}"
                    add(kind, insts[i], it)
                    ops.append([Sym("add"), i, reg(it)])
                else:
                    i = rng.randrange(len(insts))
                    n = len(items_of(kind, insts[i]))
                    if n == 0:
                        continue
                    k = rng.randrange(n)
                    remove(kind, insts[i], k)
                    ops.append([Sym("remove"), i, k])
            except Exception as e:
                ctx.fail(f"{kind}: a valid construct/decode/add/remove raised {type(e).__name__}: {str(e)[:80]}", dict(kind=kind, ops=[str(o) for o in ops]), ident=f"{kind} operation raises")
                ok = False
                break
            snap = []
            for b in insts:
                try:
                    snap.append(([ids.get(id(o), -1) for o in items_of(kind, b)], A.encode(b)))
                except Exception as e:
                    snap.append((None, type(e).__name__))
            obs.append(snap)
        if ok:
            runs.append((kind, ops, obs))
    replies = common.drv_batch([[Sym("store.run"), ops] for _, ops, _ in runs])
    for (kind, ops, obs), rep in zip(runs, replies):
        obs = [o for o in obs]
        # align: a decode pair produced two model ops and (None, snapshot)
        snaps = []
        oi = 0
        for o in obs:
            if o is None:
                snaps.append(None)
            else:
                snaps.append(o)
        assert len(snaps) == len(ops), (len(snaps), len(ops))
        edits_after_second = any(op[0] in ("add", "remove") for op in ops[2:])
        ctx.case((kind, str(ops)), nontrivial=edits_after_second, sample=dict(kind=kind, ops=[str(o)[:40] for o in ops][:8]), tags=[kind] + [str(o[0]) for o in ops])
        rp = dict(kind=kind, ops=[str(o) for o in ops])
        prev = None
        for i, (op, snap, m) in enumerate(zip(ops, snaps, rep)):
            if snap is None:
                continue
            real_cells = [s[0] for s in snap]
            if any(c is None for c in real_cells):
                ctx.fail(f"{kind}: an instance can no longer be iterated/encoded after step {i} {op}", dict(rp, upto=i), ident=f"{kind} instance unusable")
                break
            model_cells = [list(c) for c in m]
            # oracle: every OTHER instance is unchanged (items and encoding)
            if prev is not None and op[0] in ("add", "remove"):
                for j, (before, after) in enumerate(zip(prev, snap)):
                    if j != op[1] and before != after:
                        ctx.fail(f"{kind}: editing instance {op[1]} changed instance {j} (items {before[0]} -> {after[0]})", dict(rp, upto=i), ident=f"{kind} instances share state")
                        break
            if op[0] == "construct" and op[1] == "none" and real_cells[-1] != []:
                ctx.fail(f"{kind}: a block constructed without items starts with {len(real_cells[-1])} items", dict(rp, upto=i), ident=f"{kind} new block not empty")
                break
            if real_cells != model_cells:
                ctx.diff("store.cells", f"{kind} step {i} {op}: real {real_cells} model {model_cells}", dict(rp, upto=i))
                break
            prev = snap


def replay(path):
    data = json.load(open(path))
    for it in (data.get("failures") or []) + (data.get("broken_correspondence") or []):
        print(it.get("what") or it.get("detail"))
        print("   ", it["replay"].get("ops"))
    return 1 if data.get("failures") else 0
