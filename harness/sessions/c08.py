"""C08 — files are only modified inside an explicitly write-enabled context; readers never change bytes;
implicit handles are closed again."""
import io
import json
import os
import shutil
import tempfile

import absval as A
import common
import container as C
from sx import Sym

RULE = ("exhaustive matrix (on the library-written start file, on an archived foreign file with table order != storage order, and on a 5-slot file): 9 public mutators (add_block, remove_block, replace_block, five setters, add_block of a block >= 64 KiB) and 23 public readers (incl. "
        "iterating the object completely and an iterator advanced once and kept suspended while later calls run) x 13 "
        "access modes (no context; allow_write without context, before and after a first context; read-only context; write "
        "context; context re-entered after a write context; context left by an exception), plus seeded interleavings "
        "(length<=15) of allow_write/enter/exit/mutators/readers; observed per call: raised?, file sha-256 changed?, "
        "handler.closed after implicit contexts; non-trivial = trace with a mutator in >=2 different modes; distinct by trace")
ASSUMPTIONS = ["private flags are not compared, only their consequences; exception classes are not compared (the property says 'raises')",
               "OS-level handle state beyond handler.closed of the current handle is outside the model (the handle an outer `with` opened is dropped, not closed, by a nested __enter__)",
               "readers that need attributes of a first __enter__ (==, len) are not asked on an object whose only entry so far was interrupted (it has some of those attributes and not others; the model has one flag)"]

# (name, provides its own context when outside one, needs attributes that exist only after a first __enter__)
READERS = [(n, True, False) for n in ["blocks", "get_block_type", "get_block_index", "getitem", "data3D", "force_and_torque",
                                      "force_platforms_data", "events", "emg", "calibrationData", "has_data3D", "has_force_and_torque",
                                      "has_force_platforms_data", "has_events", "has_emg", "repr"]] + \
          [("eq", True, True), ("eq-other-table", False, True), ("nBytes", False, False), ("len", False, True), ("copy", False, False),
           # iteration over the object itself: completely, and an iterator advanced once and then kept alive (suspended)
           ("iterate", True, False), ("iter-held", True, False)]
# setters that evaluate a has_* property first (which provides a context of its own when outside one)
IMPLICIT_MUTATORS = {"force_and_torque", "force_platforms_data", "events", "emg"}
MUTATORS = ["add", "remove", "replace", "set:data3D", "set:force_and_torque", "set:force_platforms_data", "set:events", "set:emg", "add-big"]
MODES = {
    "no-context": [],
    "allow_write-without-context": ["allow"],
    "allow_write-after-a-closed-context": ["enter", "exit", "allow"],
    "read-only-context": ["enter"],
    "write-context": ["allow", "enter"],
    "re-entered-after-write-context": ["allow", "enter", "exit", "enter"],
    "context-left-by-exception": ["allow", "enter", "exit-exc"],
    # the same object entered again while a context is open (each __enter__ re-opens the file in the mode pending at that
    # moment; each __exit__ leaves the context altogether and resets the mode)
    "write-context-nested-in-a-plain-one": ["enter", "allow", "enter"],
    "plain-context-after-a-nested-write-context-ended": ["enter", "allow", "enter", "exit"],
    "nested-plain-enter-inside-a-write-context": ["allow", "enter", "enter"],
    "after-both-exits-of-a-nested-pair": ["allow", "enter", "enter", "exit", "exit"],
    # a write-enabled __enter__ interrupted (KeyboardInterrupt while the table is read), the interrupt caught by the caller
    "after-an-interrupted-write-enabled-enter": ["allow", "enter-interrupted"],
    "plain-context-after-an-interrupted-write-enabled-enter": ["allow", "enter-interrupted", "enter"],
}


class PropertyBroken(Exception):
    """raised by a reader probe when what it saw violates C08 by itself (recorded as a failure, not as 'the reader raised')"""


def do_reader(t, name, d, held=None):
    from basictdf.tdfBlock import BlockType
    from basictdf import Tdf
    if name == "iterate":
        n = 0
        for _ in t:
            n += 1
        return n
    if name == "iter-held":
        it = iter(t)
        if held is not None:
            held.append(it)          # stays referenced (suspended, not exhausted) until the trace ends
        return next(it)
    if name == "blocks":
        return t.blocks
    if name == "get_block_type":
        return t.get_block(BlockType.data3D)
    if name == "get_block_index":
        return t.get_block(0)
    if name == "getitem":
        return t[BlockType.temporalEventsData]
    if name in C.GETTERS or name in C.HAS:
        return getattr(t, name)
    if name == "repr":
        return repr(t)
    if name == "eq":
        o = Tdf(t.file_path)
        with o:
            pass
        return t == o
    if name == "eq-other-table":
        # compared with a well-formed file that has another number of slots (a foreign file): unequal, and nothing left open
        p = os.path.join(d, "other_table.tdf")
        if not os.path.exists(p):
            open(p, "wb").write(C.mkfile(3, []))
        o = Tdf(p)
        with o:
            pass
        r = t == o
        h = getattr(o, "handler", None)
        if h is not None and not h.closed:
            h.close()
            raise PropertyBroken("a comparison left the OTHER file's handle open")
        return r
    if name == "nBytes":
        return t.nBytes
    if name == "len":
        return len(t)
    if name == "copy":
        p = os.path.join(d, f"copy{len(os.listdir(d))}.tdf")
        c = t.copy(p)
        # the object copy() returns is a NEW file's object: whatever mode the original is in, the copy has not been write-enabled
        before = open(p, "rb").read()
        src_before = open(t.file_path, "rb").read()
        exc0 = None
        try:
            from basictdf.tdfBlock import BlockType
            c.remove_block(BlockType.temporalEventsData)        # used directly, with no context of its own
        except Exception as e:
            exc0 = e
        if exc0 is None or open(p, "rb").read() != before or open(t.file_path, "rb").read() != src_before:
            raise PropertyBroken(f"a mutation through the object returned by copy(), issued with NO context, "
                                 f"{'was accepted' if exc0 is None else 'raised'}; copy changed: {open(p, 'rb').read() != before}, "
                                 f"ORIGINAL changed: {open(t.file_path, 'rb').read() != src_before}")
        exc = None
        try:
            with c:
                c.remove_block(c.entries[0].type)
        except Exception as e:
            exc = e
        after = open(p, "rb").read()
        if exc is None or after != before:
            raise PropertyBroken(f"a mutation in a PLAIN context of the object returned by copy() {'was accepted' if exc is None else 'raised but'} "
                                 f"{'and changed' if after != before else 'and left'} the copy's bytes")
        return c
    raise KeyError(name)


class Trace:
    def __init__(self, start, wd, rng):
        from basictdf import Tdf
        self.path = os.path.join(wd, f"m{id(self)}.tdf")
        open(self.path, "wb").write(start)
        self.start = start
        self.t = Tdf(self.path)
        self.wd = wd
        self.rng = rng
        self.held = []
        self.cmds = [[Sym("mode.init"), start]]
        self.obs = []
        self.now = C.T0 + 5000
        # python-side reference monitor (independent of the Lean model)
        self.armed = False
        self.in_ctx = False
        self.in_write = False
        self.entered_once = False
        self.entered_explicitly = False
        self.broken = []

    def disk(self):
        return open(self.path, "rb").read()

    def do(self, op):
        before = self.disk()
        raised = None
        kind = op[0]
        cmd = None
        expect_write_allowed = False
        if kind == "allow":
            self.t.allow_write()
            self.armed = True
            cmd = [Sym("mode.op"), Sym("allow")]
        elif kind == "enter":
            try:
                self.t.__enter__()
            except Exception as e:
                raised = e
            self.in_ctx = True
            self.in_write = self.armed
            self.entered_once = True
            self.entered_explicitly = True
            cmd = [Sym("mode.op"), Sym("enter")]
        elif kind == "enter-interrupted":
            # __enter__ cut short by a BaseException raised inside it (a KeyboardInterrupt arriving while the table is parsed):
            # the caller catches it and goes on using the object. Injected at the k-th table entry read, if the library still
            # reads entries through basictdf.basictdf.TdfEntry._build (otherwise the scenario degrades to a plain enter + exit)
            import basictdf.basictdf as bb
            orig = bb.TdfEntry._build
            count = [0]
            k = op[1]

            def interrupting(*a, **kw):
                count[0] += 1
                if count[0] == k:
                    raise KeyboardInterrupt()
                return orig(*a, **kw)
            bb.TdfEntry._build = staticmethod(interrupting)
            try:
                self.t.__enter__()
                injected = False
            except KeyboardInterrupt as e:
                raised, injected = e, True
            finally:
                bb.TdfEntry._build = staticmethod(orig)
            if injected:
                self.in_ctx = self.in_write = self.armed = False
                self.half_entered = not self.entered_once      # the header attributes exist, the table does not: see the interleavings
                cmd = [Sym("mode.op"), Sym("enter-interrupted")]
            else:                       # the hook was not reached: an ordinary context entry happened
                self.in_ctx, self.in_write, self.entered_once, self.entered_explicitly = True, self.armed, True, True
                cmd = [Sym("mode.op"), Sym("enter")]
        elif kind in ("exit", "exit-exc"):
            try:
                if kind == "exit":
                    self.t.__exit__(None, None, None)
                else:
                    err = RuntimeError("boom")
                    self.t.__exit__(RuntimeError, err, None)
            except Exception as e:          # (leaving a context is not expected to raise; if it does, that is what is observed)
                raised = e
            self.in_ctx = self.in_write = self.armed = False
            cmd = [Sym("mode.op"), Sym("exit")]
        elif kind == "read":
            name, impl, needs = op[1], op[2], op[3]
            try:
                do_reader(self.t, name, self.wd, self.held)
            except PropertyBroken as e:
                self.broken.append(str(e))
            except Exception as e:
                raised = e
            if impl and not self.in_ctx and not (needs and not self.entered_once):
                self.armed = False
                self.entered_once = True
            cmd = [Sym("mode.read"), 1 if impl else 0, 1 if needs else 0]
        elif kind == "mut":
            self.now += 13
            C.Clock.now = self.now
            cop, spec = op[1], op[2]
            blk = C.mkblock(spec) if spec is not None else None
            exc = C.real_apply(self.t, cop, blk)
            raised = exc
            expect_write_allowed = self.in_ctx and self.in_write
            impl = cop[0] == "set" and cop[1] in IMPLICIT_MUTATORS
            if impl and not self.in_ctx and self.armed:
                self.armed = False      # the has_* check ran in a context of its own
                self.entered_once = True
            cmd = [Sym("mode.mut"), C.model_cmds(cop, blk, self.now, spec), 1 if impl else 0]
        after = self.disk()
        closed = getattr(getattr(self.t, "handler", None), "closed", None)
        self.cmds.append(cmd)
        self.obs.append(dict(op=op[:2] if kind != "mut" else (op[0], op[1]), raised=None if raised is None else type(raised).__name__, broken=list(self.broken),
                             changed=before != after, closed=closed, ref_in_ctx=self.in_ctx, ref_write=expect_write_allowed,
                             kind=kind, after=after))

    def close(self):
        self.held.clear()
        if self.in_ctx:
            try:
                self.t.__exit__(None, None, None)
            except Exception:
                pass
        try:
            os.unlink(self.path)
        except OSError:
            pass


def judge(ctx, tr, desc):
    models = tr.models
    for i, (o, m) in enumerate(zip(tr.obs, models)):
        rep = dict(trace=desc, start=tr.start.hex() if len(tr.start) < 20000 else None, upto=i,
                   steps=[f"{x['kind']}:{x['op'][1] if len(x['op']) > 1 else ''}:{'raised ' + x['raised'] if x['raised'] else 'ok'}{':CHANGED' if x['changed'] else ''}" for x in tr.obs[:i + 1]])
        m_raised, m_changed, m_handle, m_inctx = m[0] == 1, m[1] == 1, m[2], m[3] == 1
        # oracle (the property itself, with the python reference monitor)
        if o.get("broken"):
            ctx.fail(f"{desc} step {i} {o['op']}: {o['broken'][0]}", rep, ident="reader probe: " + o["broken"][0][:60])
            return
        if o["changed"] and not (o["kind"] == "mut" and o["ref_write"]):
            what = "a read operation" if o["kind"] == "read" else ("a mutation outside a write-enabled context" if o["kind"] == "mut" else o["kind"])
            ctx.fail(f"{desc} step {i} {o['op']}: the file's bytes changed through {what}", rep, ident=f"bytes changed by {o['kind']} outside write ctx")
            return
        if o["kind"] == "mut" and not o["ref_write"] and o["raised"] is None:
            ctx.fail(f"{desc} step {i} {o['op']}: a mutation outside a write-enabled context did not raise", rep, ident="mutation outside write ctx accepted")
            return
        if o["kind"] == "read" and not o["ref_in_ctx"] and o["closed"] is False:
            ctx.fail(f"{desc} step {i} {o['op']}: a handle opened implicitly by a reader was left open", rep, ident="implicit handle left open")
            return
        # correspondence with the Lean mode machine
        if o["kind"] in ("mut", "enter", "enter-interrupted") and (o["raised"] is not None) != m_raised:
            ctx.diff("mode.raised", f"{desc} step {i} {o['op']}: real raised={o['raised']} model raised={m_raised}", rep)
            return
        if o["changed"] != m_changed:
            ctx.diff("mode.disk", f"{desc} step {i} {o['op']}: real file changed={o['changed']} model={m_changed}", rep)
            return
        if o["kind"] == "mut" and o["changed"] and C.absfile(o["after"]) != C.absfile(m[5]):
            ctx.diff("mode.file", f"{desc} step {i} {o['op']}: file after a mutation in a write context differs from the model", rep)
            return
        if o["kind"] == "enter-interrupted" and o["closed"] is False and not o["ref_in_ctx"]:
            ctx.fail(f"{desc} step {i} {o['op']}: an interrupted __enter__ left its handle open", rep, ident="handle left open by an interrupted enter")
            return
        if o["closed"] is not None and o["kind"] in ("read", "exit", "exit-exc", "enter", "enter-interrupted") and (o["closed"] is True) != (m_handle == -1):
            ctx.diff("mode.handle", f"{desc} step {i} {o['op']}: handler.closed={o['closed']} model handle={m_handle}", rep)
            return


def big_spec(rng, kind):
    """a block of at least 64 KiB (4096 … 65537 frames): where a writer might reserve room, stream, or switch strategy"""
    A.SCALE["frames"], A.SCALE["items"] = rng.choice([8192, 8192, 16384]), 2
    try:
        return dict(kind=kind, v=A.GEN[kind](rng))
    finally:
        A.SCALE["frames"] = A.SCALE["items"] = None


def mutator_op(rng, name, present):
    """a mutation that would succeed in a write context"""
    if name == "add-big":
        kinds = [k for k in ("emg", "data3d", "force3d", "platdata") if A.BLOCKTYPE[k] not in present]
        if kinds:
            return (("add", None, None), big_spec(rng, rng.choice(kinds)))
        name = "add"                 # (all four big kinds are in the file already)
    if name == "add":
        kinds = [k for k in A.KINDS if A.BLOCKTYPE[k] not in present]
        if not kinds:                # (every decodable type is in the file: replace one instead)
            return (("replace", None, None), C.gen_spec(rng, rng.choice([k for k in A.KINDS if A.BLOCKTYPE[k] in present])))
        return (("add", None, None), C.gen_spec(rng, rng.choice(kinds)))
    if name == "remove":
        return (("remove", rng.choice(sorted(present))), None)
    if name == "replace":
        kinds = [k for k in A.KINDS if A.BLOCKTYPE[k] in present]
        return (("replace", None, None), C.gen_spec(rng, rng.choice(kinds)))
    prop = name.split(":")[1]
    return (("set", prop), C.gen_spec(rng, C.SETTERS[prop]))


def start_with(rng, kinds, age=0, foreign=False, n=14):
    """the file the traces start from. age: its header and table dates lie that many seconds in the past (an archived file: years) or
    in the future (negative); foreign: table order differs from storage order and junk lies between the blocks"""
    blocks = []
    for kind in kinds:
        v = A.GEN[kind](rng)
        blocks.append(dict(type=A.BLOCKTYPE[kind], fmt=A.fmt_of(kind, v), payload=A.encode(A.build(kind, v)), cdate=C.T0 - 50 - age, mdate=C.T0 - 40 - age,
                           adate=C.T0 - 3 - age, comment="pre"))
    if foreign:
        return C.mkfile_gappy(n, blocks, [0, 7, 300, 64], now=C.T0 - age, order=[2, 0, 1])
    return C.mkfile(n, blocks, now=C.T0 - age)


def run(ctx):
    rng = ctx.rng
    C.Clock.install()
    wd = tempfile.mkdtemp(prefix="vtdf")
    traces = []

    def flush():
        """model + judgement for the traces collected so far (every trace keeps the file's bytes after each of its steps: the
        thorough tier holds thousands of traces, so they are judged and dropped in chunks)"""
        if not traces:
            return
        cmds = []
        for tr, _, _ in traces:
            cmds += tr.cmds
        rep = common.drv_batch(cmds)
        pos = 0
        for tr, desc, tags in traces:
            pos += 1
            tr.models = rep[pos:pos + len(tr.obs)]
            pos += len(tr.obs)
            ops = [(o["kind"], o["op"][1] if len(o["op"]) > 1 and o["kind"] == "read" else "", o["raised"], o["changed"]) for o in tr.obs]
            ctx.case((desc.split("#")[0], str(ops)), nontrivial=getattr(tr, "nmodes", 2) >= 2,
                     sample=dict(trace=desc, steps=[f"{o['kind']}:{o['op'][1] if o['kind'] == 'read' else ''}:{'raised' if o['raised'] else 'ok'}{':CHANGED' if o['changed'] else ''}" for o in tr.obs]),
                     tags=tags)
            judge(ctx, tr, desc)
        del traces[:]
    try:
        start0 = start_with(rng, ["data3d", "events", "emg"])
        # the same file as it is found years later (every date in header and table long past), as other software wrote it, or stamped
        # in the future (a clock that was wrong): nothing in C08 depends on WHEN a file was written or by whom
        aged = start_with(rng, ["data3d", "events", "emg"], age=86400 * 3210, foreign=True)
        others = [aged, start_with(rng, ["data3d", "events", "emg"], age=86400 * 400), start_with(rng, ["data3d", "events", "emg"], age=-86400 * 2, foreign=True),
                  # tables of other lengths than the 14 slots the library creates (foreign files): 4, 15, 20, 100 slots
                  start_with(rng, ["data3d", "events", "emg"], n=4), start_with(rng, ["data3d", "events", "emg"], n=15, foreign=True),
                  start_with(rng, ["data3d", "events", "emg"], n=20), start_with(rng, ["data3d", "events", "emg"], n=100, age=86400 * 30)]
        small = start_with(rng, ["data3d", "events", "emg"], n=5)      # a 5-slot table: the data end before byte 4096
        present = {5, 16, 11}
        # exhaustive matrix
        for (mode, prefix), start in [(mp, st) for mp in MODES.items() for st in (start0, aged, small)]:
            for mname in MUTATORS:
                tr = Trace(start, wd, rng)
                for p in prefix:
                    tr.do((p, 2) if p == "enter-interrupted" else (p,))
                cop, spec = mutator_op(rng, mname, present)
                tr.do(("mut", cop, spec))
                tr.do(("read", "has_events", True, False))
                tr.close()
                traces.append((tr, f"matrix[{mode} x {mname}]" + (" on the aged foreign file" if start is aged else " on a 5-slot file" if start is small else ""), ("matrix", mode)))
            for rname, impl, needs in READERS:
                tr = Trace(start, wd, rng)
                for p in prefix:
                    tr.do((p, 2) if p == "enter-interrupted" else (p,))
                tr.do(("read", rname, impl, needs))
                tr.close()
                traces.append((tr, f"matrix[{mode} x reader {rname}]" + (" on the aged foreign file" if start is aged else " on a 5-slot file" if start is small else ""), ("matrix-readers", mode)))
            if len(traces) >= 250:
                flush()
        flush()
        start = start0
        # seeded interleavings
        for k in range(ctx.n(150, 8000)):
            tr = Trace(rng.choice([start, start] + others), wd, rng)
            pres = set(present)
            modes_seen = set()
            for _ in range(rng.randrange(4, 16)):
                r = rng.random()
                if r < 0.18:
                    tr.do(("allow",))
                elif r < 0.36:
                    if tr.in_ctx and rng.random() < 0.75:
                        tr.do((rng.choice(["exit", "exit-exc"]),))
                    elif not tr.in_ctx and tr.entered_explicitly and rng.random() < 0.15:
                        tr.do(("exit",))            # the outer `with` of a nested pair ending after the inner one
                    elif not tr.in_ctx and rng.random() < 0.15:
                        tr.do(("enter-interrupted", rng.choice([1, 2, 5, 14])))
                    else:
                        tr.do(("enter",))           # (also while a context is open: nested `with` on one object)
                elif r < 0.62:
                    rname, impl, needs = rng.choice(READERS)
                    if needs and getattr(tr, "half_entered", False) and not tr.entered_once:
                        # an object whose ONLY entry so far was interrupted has some of the attributes `==` and `len` need and not
                        # others (which ones depends on where the interrupt fell): the model has one flag for "has been entered";
                        # this corner of the READERS is left out (nothing in C08 depends on it: readers never change bytes)
                        rname, impl, needs = READERS[0]
                    tr.do(("read", rname, impl, needs))
                else:
                    mname = rng.choice(MUTATORS)
                    if mname == "remove" and not pres:
                        continue
                    if mname == "replace" and not (pres & set(A.BLOCKTYPE.values())):
                        continue
                    cop, spec = mutator_op(rng, mname, pres)
                    tr.do(("mut", cop, spec))
                    modes_seen.add((tr.in_ctx, tr.in_write, tr.armed))
                    if tr.obs[-1]["changed"]:
                        pres = {e[1] for e in (C.absfile(tr.obs[-1]["after"]) or {"live": []})["live"]}
            tr.close()
            tr.nmodes = len(modes_seen)
            traces.append((tr, f"interleaving#{k}", ("interleaving",)))
            if len(traces) >= 250:
                flush()
        flush()
        ctx.exhaustive = False
        ctx.notes.append(f"exhaustive part: {len(MODES)} modes x ({len(MUTATORS)} mutators + {len(READERS)} readers)")
    finally:
        shutil.rmtree(wd, ignore_errors=True)


def replay(path):
    data = json.load(open(path))
    for it in (data.get("failures") or []) + (data.get("broken_correspondence") or []):
        print(it.get("what") or it.get("detail"))
        print("  trace:", it["replay"].get("trace"), "up to step", it["replay"].get("upto"))
    return 1 if data.get("failures") else 0
