"""C05 — missing-data gaps: runs written are canonical and cover exactly the present frames; gap frames decode
as NaN in every component, present frames as stored, identically on every decode (dirty heap in between)."""
import io
import itertools
import json
import struct

import numpy as np

import absval as A
import blockrun as B
import common
from sx import Sym

RULE = ("exhaustive: all 2^n presence masks for n<=10 (quick) / n<=12 (thorough) for each of the four run-length-coded track kinds "
        "(3D marker, EMG, force/torque, platform data), as single track and inside 3-track blocks; seeded masks up to 5000 frames; "
        "segment tables parsed from the real bytes by an independent struct parser; each block decoded twice with the allocator "
        "dirtied by same-sized non-NaN arrays; plus in-place transitions: one track object, already printed/sized/encoded with mask m1, "
        "[plus single runs of 65535..65538 frames (thorough: up to 262145) that do not start at frame 0] [plus rows with NaN/+-inf in single components: table canonical, rows outside the runs read as NaN, rows inside keep their bits; table = the model's `see`] edited through its arrays to mask m2 and written again - every ordered pair (m1, m2) for n<=4 (thorough 5), seeded pairs up to 1100 frames. non-trivial = mask with >=1 gap and >=1 present frame; distinct by (kind, mask)")
ASSUMPTIONS = ["uninitialised memory cannot be exhibited by the Lean model; that half is exploration of the real decoder (dirty-heap double decode)"]
KINDS = ["data3d", "emg", "force3d", "platdata"]


def block_with_tracks(kind, rng, frames_list):
    n = len(frames_list[0])
    k = len(frames_list)
    if kind == "data3d":
        return [2, n, 100, 0, A.gen_vec(rng, 3), A.gen_vec(rng, 9), A.gen_vec(rng, 3), 0, [], [[[65 + i], f] for i, f in enumerate(frames_list)]]
    if kind == "emg":
        return [1000, 0, n, list(range(k)), [[[65 + i], f] for i, f in enumerate(frames_list)]]
    if kind == "force3d":
        return [100, 0, n, A.gen_vec(rng, 3), A.gen_vec(rng, 9), A.gen_vec(rng, 3), [[[65 + i], f] for i, f in enumerate(frames_list)]]
    return [100, 0, n, list(range(k)), frames_list]


def parse_tables(kind, enc, ntracks):
    """independent parser: list of segment tables [(start, count)...], one per track"""
    k = A.NCOMP[kind]
    off = {"data3d": 80, "emg": 16 + 2 * ntracks, "force3d": 80, "platdata": 16 + 2 * ntracks}[kind]
    out = []
    for _ in range(ntracks):
        if kind != "platdata":
            off += 256
        nseg, = struct.unpack_from("<i", enc, off)
        off += 8
        tbl = [struct.unpack_from("<ii", enc, off + 8 * i) for i in range(nseg)]
        off += 8 * nseg + sum(c for _, c in tbl) * 4 * k
        out.append([list(t) for t in tbl])
    if off != len(enc):
        raise ValueError(f"independent parser ends at {off}, encoding has {len(enc)} bytes")
    return out


def canonical(tbl, n):
    lo = 0
    for s, c in tbl:
        if not (lo <= s and c > 0 and s + c <= n):
            return False
        lo = s + c + 1
    return True


def covered(tbl, n):
    m = [False] * n
    for s, c in tbl:
        for i in range(max(s, 0), min(s + c, n)):
            m[i] = True
    return m


def dirty_heap(n, k):
    junk = [np.full(n * k, 1.5, dtype="<f4") for _ in range(4)] + [np.full(n * 3, 2.5, dtype="<f4") for _ in range(3)]
    s = sum(float(j[0]) for j in junk)
    del junk
    return s


def raw_tracks(kind, blk):
    """decoded arrays per track: (n,k) float32"""
    if kind == "data3d":
        return [np.asarray(t.data).reshape(len(t.data), 3) for t in blk]
    if kind == "emg":
        return [np.asarray(t.data).reshape(-1, 1) for t in blk]
    if kind == "force3d":
        return [np.concatenate([np.asarray(t.application_point), np.asarray(t.force), np.asarray(t.torque)], axis=1) for t in blk]
    return [np.concatenate([np.asarray(p.application_point), np.asarray(p.force), np.asarray(p.torque).reshape(-1, 1)], axis=1) for _, p in blk]


def morph(kind, obj, frames_list):
    """edits the tracks of an existing block IN PLACE (through the public array attributes) until they hold frames_list"""
    items = [it for it, _ in B.items_of(kind, obj)]
    for it, frames in zip(items, frames_list):
        for i, f in enumerate(frames):
            col = 0
            for attr in B.TRACK_ARRAYS[kind]:
                arr = getattr(it, attr)
                w = 1 if arr.ndim == 1 else arr.shape[1]
                if f is None:
                    B._w(it, attr, i, np.nan)
                else:
                    vals = A.f32(f[col:col + w])
                    B._w(it, attr, i, vals[0] if arr.ndim == 1 else vals)
                col += w


def long_runs_family(ctx):
    """single runs at and just past buffer-like lengths (2^16 frames and neighbours; thorough also 2^17, 2^18) that do NOT start at
    frame 0, and two such runs in one track: where a decoder that reads long runs piecewise would misplace the pieces"""
    rng = ctx.rng
    lens = [65535, 65536, 65537, 65538] + ([131072, 131073, 262145] if ctx.thorough else [])
    jobs = []
    for kind in KINDS:
        k = A.NCOMP[kind]
        for L in (lens if kind == "emg" or ctx.thorough else lens[1:3]):
            row = [A.gen_f32(rng) for _ in range(k)]
            row2 = [A.gen_f32(rng) for _ in range(k)]
            lead = rng.choice([1, 3, 17])
            frames = [None] * lead + [list(row) for _ in range(L - 1)] + [list(row2)] + [None] * rng.choice([0, 2])
            jobs.append((kind, [frames]))
        if kind == "emg":
            frames = [None] * 2 + [[7]] * 65537 + [None] * 5 + [[9]] * 65540 + [None]
            jobs.append((kind, [frames]))
    replies = common.drv_batch([[Sym("rle.runs"), [Sym("none") if f is None else f for f in fl[0]]] for _, fl in jobs])
    for (kind, fl), mt in zip(jobs, replies):
        v = block_with_tracks(kind, rng, fl)
        ctx.case((kind, "long-run", len(fl[0])), nontrivial=True, tags=(kind, "long-run"))
        check_case(ctx, kind, v, fl, [mt])


def raw_rows_family(ctx, n):
    """rows that are neither wholly missing nor wholly finite (NaN / +-inf in the first or in another component). The model's
    `see` (first component finite) predicts the table; the oracle asks only what the property says for ANY table: canonical
    runs, rows outside them read back as NaN in every component, rows inside carry their stored bits, on every decode"""
    rng = ctx.rng
    recs, cmds = [], []
    for i in range(n):
        kind = KINDS[i % 4]
        k = A.NCOMP[kind]
        nfr = rng.choice([1, 2, 3, 5, 8, 13, 40])
        fl = [A.gen_frames(rng, k, nfr) for _ in range(rng.choice([1, 2]))]
        v = block_with_tracks(kind, rng, fl)
        try:
            obj = A.build(kind, v, wide=rng.random() < 0.3)
            raws = []
            for it, _ in B.items_of(kind, obj):
                attrs = B.TRACK_ARRAYS[kind]
                for j in range(nfr):
                    for a in attrs:
                        arr = getattr(it, a)
                        w = 1 if arr.ndim == 1 else arr.shape[1]
                        for c in range(w):
                            if rng.random() < 0.12:
                                B._w(it, a, j if arr.ndim == 1 else (j, c), rng.choice([np.nan, np.inf, -np.inf]))
                cols = [np.asarray(getattr(it, a)).reshape(nfr, -1) for a in attrs]
                raws.append(A.raw_rows(np.concatenate(cols, axis=1), k))
            enc = A.encode(obj)
            tbls = parse_tables(kind, enc, len(fl))
            dec = [raw_tracks(kind, A.klass(kind)._build(io.BytesIO(enc), obj.format.value)) for _ in range(2)]
        except Exception as e:
            ctx.fail(f"{kind}: a track with non-finite components cannot be encoded/decoded: {type(e).__name__}: {e}", dict(kind=kind, v=v), ident=f"{kind} non-finite rows raise")
            continue
        recs.append((kind, nfr, raws, tbls, dec))
        cmds += [[Sym("rle.see"), k, rows] for rows in raws]
    replies = common.drv_batch(cmds)
    pos = 0
    for kind, nfr, raws, tbls, dec in recs:
        views = replies[pos:pos + len(raws)]
        pos += len(raws)
        ctx.case((kind, "raw", str(raws)[:300]), nontrivial=True, tags=(kind, "raw-rows"))
        rep = dict(kind=kind, raw_rows=raws)
        for ti, (rows, tbl, w) in enumerate(zip(raws, tbls, views)):
            if not canonical(tbl, nfr):
                ctx.fail(f"{kind}: segment table {tbl} written for rows with non-finite components is not canonical", rep, ident=f"{kind} table not canonical (raw rows)")
                continue
            inside = covered(tbl, nfr)
            a, b = dec[0][ti], dec[1][ti]
            ua = np.ascontiguousarray(a.astype("<f4")).view("<u4")
            if not np.array_equal(ua, np.ascontiguousarray(b.astype("<f4")).view("<u4")):
                ctx.fail(f"{kind}: two decodes of the same bytes differ", rep, ident=f"{kind} nondeterministic decode")
            for j in range(nfr):
                if not inside[j] and not np.isnan(a[j]).all():
                    ctx.fail(f"{kind}: row {j} is outside the runs {tbl} but reads back as {a[j].tolist()}", rep, ident=f"{kind} gap not NaN (raw rows)")
                    break
                if inside[j] and [int(x) for x in ua[j]] != rows[j]:
                    ctx.fail(f"{kind}: row {j} is inside the runs {tbl} but does not carry its stored bits", rep, ident=f"{kind} present frame changed (raw rows)")
                    break
            if [list(x) for x in w[1]] != tbl:
                ctx.diff("rle.see.table", f"{kind}: real table {tbl}, the model's presence rule gives {[list(x) for x in w[1]]}", rep)


def check_case(ctx, kind, v, frames_list, model_tbls, obj=None, came_from=None):
    rep = dict(kind=kind, masks=["".join("1" if f is not None else "0" for f in fr) for fr in frames_list], v=v if len(repr(v)) < 3000 else None)
    if came_from:
        rep["edited_in_place_from_masks"] = came_from
    n = len(frames_list[0])
    k = A.NCOMP[kind]
    try:
        if obj is None:
            # where the arrays come from must not matter: half of the blocks are built from big-endian, Fortran-ordered
            # (e.g. a transposed (k, n) table), strided or read-only arrays holding the same values
            prov = ctx.rng.choice([None, None, None, None] + A.PROVENANCES)
            rep["array_provenance"] = prov
            obj = A.build(kind, v, prov=prov)
        enc = A.encode(obj)
        tbls = parse_tables(kind, enc, len(frames_list))
    except Exception as e:
        ctx.fail(f"{kind}: cannot encode/parse a valid block: {type(e).__name__}: {e}", rep, ident=f"{kind} encode")
        return
    for ti, (frames, tbl, mt) in enumerate(zip(frames_list, tbls, model_tbls)):
        mask = [f is not None for f in frames]
        if not canonical(tbl, n):
            ctx.fail(f"{kind}: segment table {tbl} for mask {rep['masks'][ti]} is not canonical (non-empty, increasing, non-touching, in range)", rep, ident=f"{kind} table not canonical")
        elif covered(tbl, n) != mask:
            ctx.fail(f"{kind}: segment table {tbl} does not cover exactly the present frames of {rep['masks'][ti]}", rep, ident=f"{kind} table cover")
        if [list(x) for x in mt] != tbl:
            ctx.diff("rle.runs", f"{kind}: real table {tbl} model {mt} for mask {rep['masks'][ti]}", rep)
    # decode twice with a dirtied allocator
    outs, keep = [], []
    for _ in range(2):
        dirty_heap(n, k)
        try:
            dec = A.klass(kind)._build(io.BytesIO(enc), obj.format.value)
            outs.append([np.array(x, copy=True) for x in raw_tracks(kind, dec)])
            # ... and the caller then USES the decoded arrays: overwrites them in place. The next decode of the same bytes
            # must not see that (no buffer handed out twice)
            for it, _ in B.items_of(kind, dec):
                for attr in B.TRACK_ARRAYS[kind]:
                    arr = getattr(it, attr)
                    if arr.flags.writeable:
                        arr[...] = 7.25
            keep.append(dec)
        except Exception as e:
            ctx.fail(f"{kind}: own encoding cannot be decoded: {type(e).__name__}: {e}", rep, ident=f"{kind} decode")
            return
    for ti, frames in enumerate(frames_list):
        a, b = outs[0][ti], outs[1][ti]
        ua = np.ascontiguousarray(a.astype("<f4")).view("<u4")
        ub = np.ascontiguousarray(b.astype("<f4")).view("<u4")
        if not np.array_equal(ua, ub):
            ctx.fail(f"{kind}: two decodes of the same bytes differ (uninitialised memory?) mask {rep['masks'][ti]}", rep, ident=f"{kind} nondeterministic decode")
        for i, f in enumerate(frames):
            if f is None:
                if not np.isnan(a[i]).all():
                    ctx.fail(f"{kind}: gap frame {i} of mask {rep['masks'][ti]} decodes as {a[i].tolist()} instead of NaN in every component", rep, ident=f"{kind} gap not NaN")
                    break
            elif [int(x) for x in ua[i]] != f:
                ctx.fail(f"{kind}: present frame {i} of mask {rep['masks'][ti]} does not carry its stored value", rep, ident=f"{kind} present frame changed")
                break


def run(ctx):
    rng = ctx.rng
    nmax = 12 if ctx.thorough else 10
    jobs = []  # (kind, frames_list)
    for kind in KINDS:
        k = A.NCOMP[kind]
        for n in range(1, nmax + 1):
            for bits in itertools.product([False, True], repeat=n):
                fl = [A.gen_frames(rng, k, n, mask=list(bits))]
                if rng.random() < 0.15:
                    fl = [A.gen_frames(rng, k, n), fl[0], A.gen_frames(rng, k, n)]
                jobs.append((kind, fl))
    for _ in range(ctx.n(300, 6000)):
        kind = rng.choice(KINDS)
        n = rng.choice([13, 16, 31, 64, 100, 257, 1000, 5000] if rng.random() < 0.5 else [rng.randrange(9, 40)])
        jobs.append((kind, [A.gen_frames(rng, A.NCOMP[kind], n) for _ in range(rng.choice([1, 1, 3]))]))
    # the same OBJECT taken from one mask to another by in-place edits after it has been printed, sized and encoded once:
    # every ordered pair of masks for n <= 4 (thorough: 5), seeded pairs for longer tracks
    trans = []
    for kind in KINDS:
        k = A.NCOMP[kind]
        for n in range(1, (5 if ctx.thorough else 4) + 1):
            for b1 in itertools.product([False, True], repeat=n):
                for b2 in itertools.product([False, True], repeat=n):
                    if b1 != b2:
                        trans.append((kind, [A.gen_frames(rng, k, n, mask=list(b1))], [A.gen_frames(rng, k, n, mask=list(b2))]))
    for _ in range(ctx.n(150, 3000)):
        kind = rng.choice(KINDS)
        n = rng.choice([6, 9, 17, 40, 130, 1100])
        nt = rng.choice([1, 2])
        trans.append((kind, [A.gen_frames(rng, A.NCOMP[kind], n) for _ in range(nt)], [A.gen_frames(rng, A.NCOMP[kind], n) for _ in range(nt)]))
    tcmds = [[Sym("rle.runs"), [Sym("none") if f is None else f for f in fr]] for _, _, fl2 in trans for fr in fl2]
    treplies = common.drv_batch(tcmds)
    tpos = 0
    for kind, fl1, fl2 in trans:
        mt = treplies[tpos:tpos + len(fl2)]
        tpos += len(fl2)
        v1 = block_with_tracks(kind, rng, fl1)
        masks1 = ["".join("1" if f is not None else "0" for f in fr) for fr in fl1]
        ctx.case((kind, "transition", tuple(masks1), tuple(tuple(f is not None for f in fr) for fr in fl2)), nontrivial=True,
                 tags=(kind, "in-place-transition", "n<=4" if len(fl1[0]) <= 4 else "n-large"))
        try:
            prov = rng.choice([None, None, None, "be", "fortran", "strided"])
            obj = A.build(kind, v1, prov=prov)
            repr(obj), [repr(it) for it, _ in B.items_of(kind, obj)], int(obj.nBytes), A.encode(obj)
            morph(kind, obj, fl2)
        except Exception as e:
            ctx.fail(f"{kind}: building/editing a valid block raised {type(e).__name__}: {e}", dict(kind=kind, masks=masks1), ident=f"{kind} edit raises")
            continue
        v2 = A.norm(A.absv(kind, obj))
        check_case(ctx, kind, v2, fl2, mt, obj=obj, came_from=masks1)
    raw_rows_family(ctx, ctx.n(250, 5000))
    long_runs_family(ctx)
    cmds = []
    for kind, fl in jobs:
        for fr in fl:
            cmds.append([Sym("rle.runs"), [Sym("none") if f is None else f for f in fr]])
    replies = common.drv_batch(cmds)
    # the decidable canonicity predicate of the theorem, run by the model on tables parsed from REAL bytes, is
    # cross-checked against the python predicate on a sample below
    pos = 0
    lean_canon_cmds, lean_canon_expect = [], []
    for kind, fl in jobs:
        mt = replies[pos:pos + len(fl)]
        pos += len(fl)
        v = block_with_tracks(kind, rng, fl)
        mask0 = [f is not None for f in fl[0]]
        ctx.case((kind, tuple(tuple(f is not None for f in fr) for fr in fl)), nontrivial=any(mask0) and not all(mask0),
                 sample=dict(kind=kind, masks=["".join("1" if f is not None else "0" for f in fr) for fr in fl]) if len(fl[0]) <= 12 else None,
                 tags=(kind, f"n<={nmax}" if len(fl[0]) <= nmax else "n-large", f"tracks={len(fl)}"))
        check_case(ctx, kind, v, fl, mt)
        if len(lean_canon_cmds) < 400 and len(fl[0]) <= 40:
            lean_canon_cmds.append([Sym("rle.canon"), len(fl[0]), [list(x) for x in mt[0]]])
            lean_canon_expect.append(1)
    for r, e, c in zip(common.drv_batch(lean_canon_cmds), lean_canon_expect, lean_canon_cmds):
        if r != e:
            ctx.diff("rle.canon", f"Lean canonicalFrom says {r} for {c}", dict(cmd=str(c)))
    ctx.exhaustive = False
    ctx.notes.append(f"exhaustive part: all masks n<={nmax} for 4 track kinds ({sum(2 ** n for n in range(1, nmax + 1)) * 4} blocks)")


def replay(path):
    data = json.load(open(path))
    rc = 0
    for it in (data.get("failures") or []) + (data.get("broken_correspondence") or []):
        rp = it["replay"]
        if not rp.get("v"):
            print("case without stored value:", rp.get("kind"), rp.get("masks"))
            continue
        c = common.Ctx("C05", "quick", 0)
        v = A.norm(rp["v"])
        kind = rp["kind"]
        fl = [t[1] for t in v[-1]] if kind != "platdata" else v[4]
        mt = common.drv_batch([[Sym("rle.runs"), [Sym("none") if f is None else f for f in fr]] for fr in fl])
        check_case(c, kind, v, fl, mt)
        print(kind, rp["masks"], "->", "holds" if not c.fails else c.fails[0]["what"])
        rc |= 1 if c.fails else 0
    return rc
