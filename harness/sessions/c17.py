"""C17 — Tdf.new / Tdf.copy never clobber an existing path; opening refuses missing and non-TDF files."""
import json
import os
import shutil
import tempfile

import absval as A
import common
import container as C
from sx import Sym

RULE = ("[plus path spellings: relative, with ./.. components, Path objects, leading ~ with a same-named file in $HOME; every pre-existing file is compared before/after] [plus long-lived objects: 3-8 step scripts of construct / explicit enter / reader with implicit context / the file under the path "
        "replaced by TDF, junk, damaged signature, nothing, a directory, or deleted] all target kinds (absent; existing TDF; existing non-TDF; existing empty file; directory) x {Tdf.new, Tdf.copy, Tdf()+enter}; "
        "copy sources reached by seeded mutation histories; later mutations applied to the copy or to the original with the other "
        "file's bytes compared before/after; observed: exception class, bytes of every pre-existing target before/after, independent "
        "parse of new files (Lean wfB/compactB + equality with the model's image); non-trivial = scenario with an existing target or a "
        "source with >=1 block; distinct by scenario")
ASSUMPTIONS = ["the exists()/open race is OS behaviour, not modelled; paths are abstract ids in the model"]
KINDS = ["absent", "tdf", "nontdf", "empty", "dir"]
# file (and directory) NAMES that some machinery treats specially — glob patterns, format strings, shell and URL syntax, options,
# case and unicode normalisation, trailing blanks/dots, very long names: to open()/exists() each is just a name
NAMES = ["keep.tdf", "walk[1].tdf", "trial[a-c].tdf", "[abc].tdf", "a*b.tdf", "*.tdf", "what?.tdf", "with space.tdf", " lead.tdf", "trail.tdf ",
         "{x}.tdf", "{0}.tdf", "%s.tdf", "100%.tdf", "$HOME.tdf", "-rf.tdf", "--help", "a;b.tdf", "a#b.tdf", "a&b.tdf", "a|b.tdf", "it's.tdf", 'q"q.tdf',
         "back\\slash.tdf", "new\nline.tdf", "tab\t.tdf", "dot.", ".hidden", "..tdf", "noext", "x.TDF", "KEEP.tdf", "caf\u00e9.tdf", "cafe\u0301.tdf",
         "\u00fc\u00f1\u00ed.tdf", "\u65e5\u672c.tdf", "\U0001f600.tdf", "file:x.tdf", "http:%2F%2Fx.tdf", "a" * 200 + ".tdf", "~", "~user.tdf", "!bang.tdf", "(1).tdf", "a,b.tdf", "a=b.tdf", "@at.tdf"]


def near_names(name):
    """other names that a careless existence test would identify with `name`"""
    import unicodedata
    out = {name.lower(), name.upper(), name.swapcase(), name.strip(), name + " ", name.rstrip(".") , name + ".", unicodedata.normalize("NFC", name),
           unicodedata.normalize("NFD", name), name.replace("[", "").replace("]", ""), name.replace("*", "x").replace("?", "x"), name.replace("[1]", "1"),
           name.replace("[a-c]", "a"), name.replace("[a-c]", "b"), name.replace("[abc]", "a"), name.replace("\\", "/").split("/")[-1], name.replace("%2F", "_"), os.path.splitext(name)[0],
           name + ".tdf", name.replace(" ", ""), name.replace("{x}", "").replace("{0}", "").replace("%s", "")}
    return sorted(n for n in out if n and n != name and "/" not in n and n not in (".", "..") and len(n.encode()) < 250)


def make_target(d, kind, rng, name):
    p = os.path.join(d, name)
    if kind == "absent":
        return p, None
    if kind == "dir":
        os.mkdir(p)
        return p, "dir"
    if kind == "tdf":
        data, _ = C.start_file(rng, rng.choice(["n2", "n5", "n14"]))
    elif kind == "nontdf":
        data = bytes(rng.randrange(256) for _ in range(rng.choice([1, 15, 16, 17, 64, 400])))
        if rng.random() < 0.3:
            data = C.SIG[:15] + b"\x00" + data      # almost the signature
    else:
        data = b""
    open(p, "wb").write(data)
    return p, data


def node(p, content):
    if content is None:
        return None
    if content == "dir":
        return [p, Sym("dir")]
    return [p, Sym("file"), content]


def classify(e):
    if e is None:
        return "ok"
    if isinstance(e, FileExistsError):
        return "FileExistsError"
    if isinstance(e, FileNotFoundError):
        return "FileNotFoundError"
    if isinstance(e, IsADirectoryError):
        return "isDir"
    return "invalid"


def read_node(p):
    if os.path.isdir(p):
        return "dir"
    if os.path.exists(p):
        return open(p, "rb").read()
    return None


def run(ctx):
    from basictdf import Tdf
    rng = ctx.rng
    C.Clock.install()
    scenarios = []
    for kind in KINDS:
        for op in ("new", "copy", "open"):
            scenarios += [(kind, op)] * (1 if not ctx.thorough else 4)
    for _ in range(ctx.n(300, 4000)):
        scenarios.append((rng.choice(KINDS), rng.choice(["new", "copy", "open", "copy-then-mutate"])))
    model_cmds, expected = [], []
    for k, (kind, op) in enumerate(scenarios):
        d = tempfile.mkdtemp(prefix="vtdf")
        try:
            target, before = make_target(d, kind, rng, "target")
            src_data, src_desc = C.start_file(rng, rng.choice(["fresh", "n3", "n14"]))
            if op in ("copy", "copy-then-mutate") and rng.random() < 0.15:
                # a LARGE original (several 64 KiB buffers) whose content is mostly zero bytes — a recording with silent channels:
                # zeros at the very end, in the middle, everywhere
                big = rng.choice([65536, 70000, 131072, 200000])
                shape = rng.choice(["zero-tail", "zero-middle", "all-zero", "zero-head"])
                noise = bytes(rng.randrange(1, 256) for _ in range(3000))
                payload = {"zero-tail": noise + bytes(big), "zero-middle": noise + bytes(big) + noise, "all-zero": bytes(big + 3000),
                           "zero-head": bytes(big) + noise}[shape]
                blk = dict(C.opaque(rng), payload=payload)
                src_data = C.mkfile(14, [blk])
                src_desc = f"big({shape}, {len(src_data)} bytes)"
            src = os.path.join(d, "src.tdf")
            open(src, "wb").write(src_data)
            nodes = [n for n in [node(1, src_data), node(2, before)] if n]
            rep = dict(target_kind=kind, op=op, before=(before.hex() if isinstance(before, bytes) and len(before) < 5000 else str(before)[:20]))
            now = C.T0 + k
            C.Clock.now = now
            exc = None
            result = None
            try:
                if op == "new":
                    result = Tdf.new(target)
                elif op in ("copy", "copy-then-mutate"):
                    src_name = src
                    if rng.random() < 0.3:
                        # the original is NAMED through a symbolic link ("latest.tdf" -> the real file)
                        src_name = os.path.join(d, "latest.tdf")
                        os.symlink(src, src_name)
                        rep["source_named_through_symlink"] = True
                    if rng.random() < 0.4:
                        # the copy is made while the source object is inside a context (plain or write-enabled), and the object
                        # that copy() returns is then used as it is: it belongs to the NEW file and to no context
                        so = Tdf(src_name)
                        if rng.random() < 0.5:
                            so.allow_write()
                        with so:
                            result = so.copy(target)
                            probe_before = (open(src, "rb").read(), read_node(target))
                            try:
                                from basictdf.tdfBlock import BlockType
                                live = [e.type for e in so.entries if e.type.value != 0]
                                result.remove_block(live[0] if live else BlockType.temporalEventsData)
                            except Exception:
                                pass
                            if (open(src, "rb").read(), read_node(target)) != probe_before:
                                ctx.fail("a mutation issued through the object copy() returned (made while the source was inside a context) changed "
                                         + ("the ORIGINAL" if open(src, "rb").read() != probe_before[0] else "the copy") + " without any write context of its own",
                                         dict(rep, copy_inside_source_context=True), ident="copy object shares the source's context")
                    else:
                        result = Tdf(src_name).copy(target)
                else:
                    with Tdf(target) as t:
                        result = len(t.entries)
            except Exception as e:
                exc = e
            after = read_node(target)
            got = classify(exc)
            ctx.case((kind, op, k if op == "copy-then-mutate" else 0, str(before)[:40]), nontrivial=kind != "absent" or op != "open",
                     sample=dict(target=kind, op=op, outcome=got), tags=(f"{op}:{kind}:{got}",))
            mop = {"new": [Sym("new"), 2, now], "copy": [Sym("copy"), 1, 2], "copy-then-mutate": [Sym("copy"), 1, 2], "open": [Sym("open"), 2]}[op]
            model_cmds.append([Sym("fs.run"), nodes, [mop, [Sym("get"), 2], [Sym("get"), 1]]])
            expected.append((got, after, read_node(src), rep))
            # ---- oracle: the property on the real code
            if kind != "absent" and op in ("new", "copy", "copy-then-mutate"):
                if got != "FileExistsError":
                    ctx.fail(f"{op} onto an existing {kind} target: {got} instead of FileExistsError", rep, ident=f"{op} existing target not refused")
                if after != before:
                    ctx.fail(f"{op} onto an existing {kind} target changed that file's bytes", rep, ident=f"{op} clobbers existing target")
            if kind == "absent" and op == "new":
                if got != "ok":
                    ctx.fail(f"Tdf.new on a free path raised {type(exc).__name__}", rep, ident="new raises")
                else:
                    fc = C.file_checks([after])[0]
                    a = C.absfile(after)
                    okk = fc["readable"] and fc["wf"] and fc["compact"] and a["version"] == 1 and a["n"] == 14 and not a["live"] \
                        and all(o == 4096 and s == 0 for _, o, s in a["free"]) and len(after) == 4096
                    if not okk:
                        ctx.fail("Tdf.new did not produce the well-formed empty container (signature, version 1, 14 unused slots at 4096, length 4096)", rep, ident="new file malformed")
            if kind == "absent" and op in ("copy", "copy-then-mutate"):
                if got == "ok" and os.path.islink(target):
                    ctx.fail("the copy is a symbolic link to the original, not a file of its own (mutating either changes both)", rep, ident="copy is a link")
                elif got != "ok" or after != src_data:
                    ctx.fail("copy to a free path is not byte-identical to the original", rep, ident="copy not identical")
                elif op == "copy-then-mutate":
                    # mutate one of the two, the other must keep its bytes
                    which = rng.choice(["copy", "original"])
                    victim, other = (target, src) if which == "copy" else (src, target)
                    other_before = open(other, "rb").read()
                    with Tdf(victim).allow_write() as t:
                        spec = C.gen_spec(rng, "events")
                        live = [e.type for e in t.entries if e.type.value != 0]
                        if len(live) == len(t.entries) and not t.has_events:
                            t.remove_block(live[0])          # full table: make room first
                        t.events = C.mkblock(spec)
                        if rng.random() < 0.5:
                            t.remove_block(C.mkblock(spec))
                    if open(other, "rb").read() != other_before:
                        ctx.fail(f"mutating the {which} changed the other file", rep, ident="copy not independent")
                    if open(victim, "rb").read() == other_before and which:
                        pass
            if op == "open":
                if kind == "absent" and got != "FileNotFoundError":
                    ctx.fail(f"opening a missing path: {got} instead of FileNotFoundError", rep, ident="open missing")
                if kind in ("nontdf", "empty", "dir") and got == "ok":
                    ctx.fail(f"opening a {kind} path yielded data instead of being refused", rep, ident="open non-TDF accepted")
                if kind == "tdf" and got != "ok":
                    ctx.fail(f"opening a valid TDF raised {got}", rep, ident="open valid refused")
                if after != before:
                    ctx.fail("opening changed the target", rep, ident="open changes file")
        finally:
            shutil.rmtree(d, ignore_errors=True)
    long_lived(ctx)
    spellings(ctx)
    for (got, after, srcafter, rep), m in zip(expected, common.drv_batch(model_cmds)):
        m_out = str(m[0])
        canon = {"isDir": "invalid"}        # how a directory is refused on open is OS detail; only "refused" matters
        if canon.get(got, got) != canon.get(m_out, m_out):
            ctx.diff("fs.outcome", f"{rep['op']} on {rep['target_kind']}: real {got} model {m_out}", rep)
            continue
        m_after = None if m[1] == "absent" else ("dir" if m[1] == "dir" else m[1])
        if m_after != after:
            ctx.diff("fs.bytes", f"{rep['op']} on {rep['target_kind']}: target after the call differs from the model", rep)


def spellings(ctx):
    """the same targets spelled in other ways: relative to the working directory, with `.`/`..` components, as Path objects,
    and with a leading `~` (which open() does NOT expand: `~/x` is the file x in a directory called `~`) while a file of that
    name exists in $HOME. Whatever the spelling: an existing target is refused, and NO pre-existing file anywhere changes."""
    from pathlib import Path
    from basictdf import Tdf
    rng = ctx.rng
    old_cwd, old_home = os.getcwd(), os.environ.get("HOME")
    for k in range(ctx.n(60, 600)):
        d = tempfile.mkdtemp(prefix="vtdf")
        try:
            cwd, home = os.path.join(d, "work"), os.path.join(d, "home")
            os.makedirs(os.path.join(cwd, "sub"))
            os.makedirs(home)
            if rng.random() < 0.5:
                os.makedirs(os.path.join(cwd, "~"))
            good, _ = C.start_file(rng, "n3")
            junk = bytes(rng.randrange(256) for _ in range(40))
            name = rng.choice(NAMES) if rng.random() < 0.6 else "keep.tdf"
            if name == "~" and os.path.isdir(os.path.join(cwd, "~")):
                name = "keep.tdf"
            for place in [os.path.join(home, name), os.path.join(cwd, name), os.path.join(cwd, "~", name), os.path.join(cwd, "sub", name)]:
                if os.path.isdir(os.path.dirname(place)) and rng.random() < 0.6:
                    open(place, "wb").write(rng.choice([good, junk, b""]))
            # files whose names a careless existence test would take for the target (other case, normalisation, what a glob pattern
            # matches, a stripped blank …): they are OTHER files — neither a reason to refuse nor anything to touch
            for nn in near_names(name):
                if rng.random() < 0.35:
                    for dd in (cwd, os.path.join(cwd, "sub")):
                        if rng.random() < 0.7 and not os.path.exists(os.path.join(dd, nn)):
                            open(os.path.join(dd, nn), "wb").write(rng.choice([good, junk, b""]))
            src = os.path.join(d, "src.tdf")
            open(src, "wb").write(good)
            os.chdir(cwd)
            os.environ["HOME"] = home
            spelled = rng.choice(["~/keep.tdf", "keep.tdf", "./keep.tdf", "sub/../keep.tdf", "sub/keep.tdf", "./sub/./keep.tdf", "../work/keep.tdf",
                                  os.path.join(cwd, "keep.tdf"), "~/../keep.tdf", "fresh.tdf", "~/fresh.tdf"]).replace("keep.tdf", name)
            as_path = rng.random() < 0.4
            literal = os.path.normpath(os.path.join(cwd, spelled))        # what open()/exists() mean by it (no ~ expansion)
            if spelled.startswith("~/..") and not os.path.isdir(os.path.join(cwd, "~")):
                literal = None                                             # `~/..` needs the directory `~` to exist
            before = {}
            for root, _, files in os.walk(d):
                for f in files:
                    before[os.path.join(root, f)] = open(os.path.join(root, f), "rb").read()
            existed = literal is not None and os.path.exists(literal)
            parent_ok = literal is not None and os.path.isdir(os.path.dirname(literal))
            op = rng.choice(["new", "copy"])
            C.Clock.now = C.T0 + k
            exc = None
            try:
                arg = Path(spelled) if as_path else spelled
                if op == "new":
                    Tdf.new(arg)
                else:
                    Tdf(src).copy(arg)
            except Exception as e:
                exc = e
            got = classify(exc)
            rep = dict(op=op, spelled=spelled, as_path=as_path, existed=existed, files=sorted(os.path.relpath(p, d) for p in before))
            ctx.case(("spelling", op, spelled, as_path, existed, k), nontrivial=existed or spelled.startswith("~"),
                     tags=(f"spelling:{op}:{'existing' if existed else 'free'}:{got}", "name:" + ("plain" if name == "keep.tdf" else "special")),
                     sample=dict(op=op, target=spelled, existed=existed, outcome=got))
            changed = [os.path.relpath(p, d) for p, b in before.items() if not os.path.exists(p) or open(p, "rb").read() != b]
            if changed:
                ctx.fail(f"{op}({spelled!r}) changed pre-existing file(s) {changed} (outcome {got})", rep, ident=f"{op} clobbers an existing file (path spelling)")
                continue
            if existed and got != "FileExistsError":
                ctx.fail(f"{op}({spelled!r}): the target exists but the call gave {got} instead of FileExistsError", rep, ident=f"{op} existing target not refused (path spelling)")
                continue
            if not existed and parent_ok:
                if got != "ok" or not os.path.exists(literal):
                    ctx.fail(f"{op}({spelled!r}) on a free path with an existing directory: {got}, file created: {os.path.exists(literal)}", rep, ident=f"{op} free path (path spelling)")
                    continue
                made = open(literal, "rb").read()
                if op == "copy" and made != good:
                    ctx.fail(f"copy({spelled!r}) is not byte-identical to the original", rep, ident="copy not identical (path spelling)")
                if op == "new" and (len(made) != 4096 or made[:16] != C.SIG):
                    ctx.fail(f"new({spelled!r}) did not write the empty container", rep, ident="new file malformed (path spelling)")
                extra = [p for p in (os.path.join(r_, f) for r_, _, fs in os.walk(d) for f in fs) if p not in before and os.path.normpath(p) != literal]
                if extra:
                    ctx.fail(f"{op}({spelled!r}) created {[os.path.relpath(p, d) for p in extra]} instead of / besides the target", rep, ident=f"{op} writes elsewhere (path spelling)")
        finally:
            os.chdir(old_cwd)
            if old_home is None:
                os.environ.pop("HOME", None)
            else:
                os.environ["HOME"] = old_home
            shutil.rmtree(d, ignore_errors=True)


def long_lived(ctx):
    """objects that live across several contexts while the file under their path is replaced, deleted or recreated by
    someone else: every entry — explicit `with`, or the implicit context of a reader — must judge the file as it is NOW"""
    from basictdf import Tdf
    rng = ctx.rng
    # readers that cannot raise on a valid file (a getter of an absent block raises legitimately and would prove nothing)
    # (len(t) is not among them: it never opens the file, it counts the table remembered from the last context)
    readers = [("has_events", lambda t: t.has_events), ("has_emg", lambda t: t.has_emg),
               ("has_data3D", lambda t: t.has_data3D), ("repr", lambda t: repr(t))]
    cmds, recs = [], []
    for k in range(ctx.n(120, 1500)):
        d = tempfile.mkdtemp(prefix="vtdf")
        try:
            p = os.path.join(d, "f.tdf")
            objs, ops, obs = {}, [], []
            good, _ = C.start_file(rng, rng.choice(["fresh", "n3", "n14"]))
            kind0 = rng.choice(["tdf", "tdf", "tdf", "nontdf", "empty", "absent"])
            nodes = []
            if kind0 != "absent":
                data0 = good if kind0 == "tdf" else (b"" if kind0 == "empty" else bytes(rng.randrange(256) for _ in range(rng.choice([3, 16, 64, 700]))))
                open(p, "wb").write(data0)
                nodes = [node(1, data0)]
            cur = kind0
            script = []
            for _ in range(rng.randrange(3, 9)):
                r = rng.random()
                if r < 0.2 or not objs:
                    script.append(("construct", len(objs) + 1))
                    objs[len(objs) + 1] = None
                elif r < 0.62:
                    script.append((rng.choice(["enter", "probe"]), rng.choice(list(objs))))
                else:
                    script.append((rng.choice(["put-tdf", "put-nontdf", "put-sigonly", "put-empty", "del", "mkdir"]), 0))
            objs = {}
            for step, (what, arg) in enumerate(script):
                exc, extra = None, ""
                if what == "construct":
                    try:
                        objs[arg] = Tdf(p)
                    except Exception as e:
                        exc = e
                    ops.append([Sym("construct"), arg, 1])
                elif what in ("enter", "probe"):
                    t = objs.get(arg)
                    ops.append([Sym("enter"), arg])
                    if t is None:
                        obs.append((what, "FileNotFoundError", cur, "never constructed"))
                        continue
                    before = read_node(p)
                    try:
                        if what == "enter":
                            with t:
                                extra = f"{len(t.entries)} entries"
                        else:
                            name, fn = rng.choice(readers)
                            extra = f"{name} -> {str(fn(t))[:40]}"
                    except Exception as e:
                        exc = e
                    if read_node(p) != before:
                        ctx.fail(f"{what} on a {cur} path changed the file", dict(script=script[:step + 1], start=kind0), ident="open changes file")
                    h = getattr(t, "handler", None)
                    if h is not None and not h.closed:
                        h.close()        # (a leaked handle is C08's subject, and only on well-formed files; not judged here)
                else:
                    if os.path.isdir(p):
                        os.rmdir(p)
                    elif os.path.exists(p):
                        os.unlink(p)
                    if what == "put-tdf":
                        data, _ = C.start_file(rng, rng.choice(["fresh", "n3", "n5"]))
                    elif what == "put-nontdf":
                        data = bytes(rng.randrange(256) for _ in range(rng.choice([1, 16, 90, 5000])))
                    elif what == "put-sigonly":
                        data = C.SIG[:rng.choice([8, 15])] + b"\x00" * rng.choice([1, 50])     # a damaged signature
                    elif what == "put-empty":
                        data = b""
                    if what.startswith("put"):
                        open(p, "wb").write(data)
                        ops.append([Sym("put"), 1, data])
                        cur = "tdf" if what == "put-tdf" else "nontdf" if what != "put-empty" else "empty"
                    elif what == "del":
                        ops.append([Sym("del"), 1])
                        cur = "absent"
                    else:
                        os.mkdir(p)
                        ops.append([Sym("mkdir"), 1])
                        cur = "dir"
                    obs.append((what, "ok", cur, ""))
                    continue
                obs.append((what, classify(exc), cur, extra))
            cmds.append([Sym("world.run"), nodes, ops])
            recs.append((kind0, script, obs))
        finally:
            shutil.rmtree(d, ignore_errors=True)
    for (kind0, script, obs), m in zip(recs, common.drv_batch(cmds)):
        rep = dict(start=kind0, script=script)
        entered = sum(1 for w, o, _, _ in obs if w in ("enter", "probe") and o == "ok")
        replaced_then_entered = any(w in ("enter", "probe") for w, *_ in obs[1:]) and any(w.startswith(("put", "del", "mk")) for w, *_ in obs)
        ctx.case(("long-lived", kind0, str(script)), nontrivial=replaced_then_entered and entered >= 1,
                 sample=dict(start=kind0, script=[f"{w}:{o}@{c}" for w, o, c, _ in obs]), tags=[f"long-lived:{w}:{c}:{o}" for w, o, c, _ in obs if w in ("enter", "probe", "construct")])
        for i, ((what, got, cur, extra), mo) in enumerate(zip(obs, m)):
            rpi = dict(rep, upto=i)
            if what in ("enter", "probe") and extra != "never constructed":
                if cur in ("nontdf", "empty", "dir", "absent") and got == "ok":
                    ctx.fail(f"{what} through a long-lived object on a path that now holds {cur} content yielded data ({extra}) instead of being refused "
                             f"[after: {[f'{w}:{o}' for w, o, _, _ in obs[:i]]}]", rpi, ident=f"long-lived object: {what} on {cur} accepted")
                    break
                if cur == "tdf" and got != "ok":
                    ctx.fail(f"{what} through a long-lived object on a valid TDF raised {got} [after: {[f'{w}:{o}' for w, o, _, _ in obs[:i]]}]", rpi,
                             ident="long-lived object: valid TDF refused")
                    break
            canon = {"isDir": "invalid"}
            g, mm = canon.get(got, got), canon.get(str(mo), str(mo))
            if what == "probe" and g != "ok" and mm != "ok":
                continue         # HOW a reader's implicit context is refused (which exception) is not part of the property
            if g != mm:
                ctx.diff("world.step", f"long-lived scenario step {i} {what} on {cur}: real {got} model {mo}", rpi)
                break


def replay(path):
    data = json.load(open(path))
    for it in (data.get("failures") or []) + (data.get("broken_correspondence") or []):
        print(it.get("what") or it.get("detail"), it["replay"].get("target_kind"), it["replay"].get("op"))
    return 1 if data.get("failures") else 0
