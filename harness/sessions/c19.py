"""C19 — constructors refuse arguments whose shape would mis-size the encoding."""
import io
import itertools
import json

import numpy as np

import absval as A
import common
from sx import Sym

RULE = ("exhaustive: every array shape of rank 0-3 with extents 0..4 (156 shapes) x dtypes {f4,f8,i4,i8,bool,object} plus flat "
        "the rank-1/2 shapes again as non-owning views, Fortran-ordered, read-only and strided arrays; flat "
        "lists/tuples of length 0..4, None, str, int, float, dict for each of the 25 validated constructor arguments (geometry of "
        "3D / force-torque / calibration blocks, the seven Seelab camera parameters, viewport halves, viewport parameters of "
        "channel and camera records); constructors with several geometry arguments (3D, force/torque, calibration block: 3; Seelab camera: 7) with "
        "two arguments wrong at once, the second related to the first (same shape, one more/less axis, reversed, 3 x or 2 x it), and with all arguments of one wrong shape; for the coupled arrays of a force/torque track every triple of shapes of rank<=2 with "
        "extents {0,1,2,3,5}, once as separate arrays and once cut from one owning table; events x both kinds x sized/unsized/non-iterable values; for every ACCEPTED object: nBytes = "
        "len(encoding) = the model's field width. non-trivial = argument that is an array; distinct by (parameter, argument)")
ASSUMPTIONS = ["acceptance depends on kind and shape only, not on element values or on how the array was obtained; nested lists are not generated for viewport halves",
               "'refuse' = any exception at construction time"]

SHAPES = [()] + [s for r in (1, 2, 3) for s in itertools.product(range(5), repeat=r)]
DTYPES = ["<f4", "<f8", "<i4", "<i8", "bool", "object"]


class AcceptedButUnusable(Exception):
    pass


def good(shape, dt="<f4"):
    return np.arange(int(np.prod(shape)) if shape else 1, dtype="<f8").reshape(shape).astype(dt)


def carved(shapes, dt="<f4"):
    """arrays of the given shapes that are all views of ONE owning array (columns / slices cut from a common table)"""
    sizes = [int(np.prod(sh)) if sh else 1 for sh in shapes]
    pool = np.arange(sum(sizes) + 1, dtype="<f8").astype(dt)
    out, o = [], 0
    for sh, z in zip(shapes, sizes):
        out.append(pool[o:o + z].reshape(sh))
        o += z
    return out


def provenance(shape, dt, how):
    """the same shape and dtype through another route: a non-owning view, Fortran order, read-only, non-contiguous"""
    a = good(shape, dt)
    if how == "view":
        return carved([shape], dt)[0]
    if how == "fortran":
        return np.asfortranarray(a)
    if how == "readonly":
        a.setflags(write=False)
        return a
    big = np.zeros(tuple(2 * e for e in shape), dtype=dt)       # every second element of a larger array
    v = big[tuple(slice(None, None, 2) for _ in shape)]
    v[...] = a
    return v


def std(name):
    return {"vol": good((3,)), "rot": good((3, 3)), "tr": good((3,))}[name]


def vp_good():
    from basictdf.tdfTypes import CameraViewPort
    return CameraViewPort(np.array([0, 0], dtype="<i4"), np.array([640, 480], dtype="<i4"))


_FORM = [0]


def geometry_call(klass, head, names, values):
    """the same constructor call in one of three ARGUMENT FORMS, taken in turn: all geometry by keyword, all positional, the first
    positional and the rest by keyword — how an argument is passed says nothing about whether it is acceptable"""
    _FORM[0] += 1
    form = _FORM[0] % 3
    if form == 0:
        return klass(*head, **dict(zip(names, values)))
    if form == 1:
        return klass(*head, *values)
    return klass(*head, values[0], **dict(zip(names[1:], values[1:])))


def seelab_args(**over):
    d = dict(rotation_matrix=good((3, 3), "<f8"), translation_vector=good((3,), "<f8"), focus=good((2,), "<f8"), optical_center=good((2,), "<f8"),
             radial_distortion=good((2,), "<f8"), decentering=good((2,), "<f8"), thin_prism=good((2,), "<f8"), view_port=vp_good())
    d.update(over)
    return d


def build_param(param, arg):
    """constructs the object that validates `param` with `arg`, wrapped into a block; returns (block, expected width in bytes of that field)"""
    from basictdf.tdfCalibrationData import (BTSCameraData, CalibrationDataBlock, CalibrationDataBlockFormat, DistorsionModel, SeelabCameraData)
    from basictdf.tdfData3D import Data3D
    from basictdf.tdfForce3D import ForceTorque3D
    from basictdf.tdfOpticalSystem import OpticalChannelData, OpticalSetupBlock
    from basictdf.tdfTypes import CameraViewPort
    cls, field = param.split(".")
    if cls in ("data3d", "force3d"):
        kw = dict(volume=std("vol"), rotationMatrix=std("rot"), translationVector=std("tr"))
        kw[{"volume": "volume", "rot": "rotationMatrix", "transl": "translationVector"}[field]] = arg
        return geometry_call(Data3D if cls == "data3d" else ForceTorque3D, (100, 2), list(kw), list(kw.values()))
    if cls == "calib":
        kw = dict(calibration_volume_size=std("vol"), calibration_volume_rotation_matrix=std("rot"), calibration_volume_translation_vector=std("tr"))
        kw[{"volume": "calibration_volume_size", "rot": "calibration_volume_rotation_matrix", "transl": "calibration_volume_translation_vector"}[field]] = arg
        names = list(kw) + ["cameras_calibration_map", "cam_data"]
        return geometry_call(CalibrationDataBlock, (DistorsionModel(0),), names, list(kw.values()) + [np.array([], dtype="<i2"), []])
    if cls == "seelab":
        cam = SeelabCameraData(**seelab_args(**{field: arg}))
        return CalibrationDataBlock(DistorsionModel(0), std("vol"), std("rot"), std("tr"), np.array([3], dtype="<i2"), [cam], CalibrationDataBlockFormat.Seelab1)
    if cls == "bts":
        cam = BTSCameraData(good((3, 3), "<f8"), good((3,), "<f8"), good((2,), "<f8"), good((2,), "<f8"), good((70,), "<f8"), good((70,), "<f8"), arg)
        return CalibrationDataBlock(DistorsionModel(0), std("vol"), std("rot"), std("tr"), np.array([3], dtype="<i2"), [cam], CalibrationDataBlockFormat.BTS)
    if cls == "optchan":
        return OpticalSetupBlock(channels=[OpticalChannelData(0, "l", "t", "n", arg)])
    if cls == "viewport":
        o, s = (arg, np.array([1, 2], dtype="<i4")) if field == "origin" else (np.array([1, 2], dtype="<i4"), arg)
        return OpticalSetupBlock(channels=[OpticalChannelData(0, "l", "t", "n", CameraViewPort(o, s))])
    raise KeyError(param)


PARAMS = {  # param -> (model query kind, required shape)
    **{f"{c}.{f}": ("shape", r) for c in ("data3d", "force3d", "calib") for f, r in (("volume", [3]), ("rot", [3, 3]), ("transl", [3]))},
    **{f"seelab.{f}": ("shape", r) for f, r in (("rotation_matrix", [3, 3]), ("translation_vector", [3]), ("focus", [2]), ("optical_center", [2]),
                                               ("radial_distortion", [2]), ("decentering", [2]), ("thin_prism", [2]))},
    "seelab.view_port": ("viewport", None), "bts.view_port": ("viewport", None), "optchan.camera_viewport": ("viewport", None),
    "viewport.origin": ("vec2", None), "viewport.size": ("vec2", None),
}


JOINT = {"data3d": [[3], [3, 3], [3]], "force3d": [[3], [3, 3], [3]], "calib": [[3], [3, 3], [3]],
         "seelab": [[3, 3], [3], [2], [2], [2], [2], [2]]}


def related(s, req):
    """shapes that a relational check ("the matrix has one more axis than the vector", "same shape as …", "3 x volume")
    would accept together with a wrong shape s of another argument"""
    s = tuple(s)
    out = {s, (3,) + s, s + (3,), s + s, s[::-1], s[1:], s[:-1], tuple(req), (2,) + s, s + (2,)}
    return [x for x in out if len(x) <= 4]


def joint_space(rng, thorough):
    base = [sh for sh in SHAPES if len(sh) <= (3 if thorough else 2)]
    out = []
    for cls, reqs in JOINT.items():
        n = len(reqs)
        pairs = [(i, j) for i in range(n) for j in range(n) if i != j]
        if cls == "seelab" and not thorough:
            pairs = [(i, j) for i, j in pairs if i < 3 or j < 3]
        for i, j in pairs:
            for sh in base:
                for sj in related(sh, reqs[j]):
                    shapes = [tuple(r) for r in reqs]
                    shapes[i], shapes[j] = tuple(sh), tuple(sj)
                    out.append((cls, reqs, shapes))
        for sh in base:                      # all arguments of one (wrong) shape
            out.append((cls, reqs, [tuple(sh)] * n))
    return out


def build_joint(cls, shapes):
    from basictdf.tdfCalibrationData import CalibrationDataBlock, CalibrationDataBlockFormat, DistorsionModel, SeelabCameraData
    from basictdf.tdfData3D import Data3D
    from basictdf.tdfForce3D import ForceTorque3D
    if cls in ("data3d", "force3d"):
        v, r, t = (good(sh) for sh in shapes)
        return geometry_call(Data3D if cls == "data3d" else ForceTorque3D, (100, 2), ["volume", "rotationMatrix", "translationVector"], [v, r, t])
    if cls == "calib":
        v, r, t = (good(sh) for sh in shapes)
        return CalibrationDataBlock(DistorsionModel(0), v, r, t, cameras_calibration_map=np.array([], dtype="<i2"), cam_data=[])
    names = ["rotation_matrix", "translation_vector", "focus", "optical_center", "radial_distortion", "decentering", "thin_prism"]
    cam = SeelabCameraData(**seelab_args(**{nm: good(sh, "<f8") for nm, sh in zip(names, shapes)}))
    return CalibrationDataBlock(DistorsionModel(0), std("vol"), std("rot"), std("tr"), np.array([3], dtype="<i2"), [cam], CalibrationDataBlockFormat.Seelab1)


def args_space(rng, thorough):
    out = []
    for s in SHAPES:
        for dt in (DTYPES if thorough or len(s) <= 2 else DTYPES[:2]):
            out.append((good(s, dt), [Sym("nd"), list(s)], f"ndarray{s}:{dt}"))
    for s in SHAPES:
        if len(s) in (1, 2) and (thorough or max(s) <= 3):
            for how in ("view", "fortran", "readonly", "strided"):
                out.append((provenance(s, "<f4", how), [Sym("nd"), list(s)], f"ndarray{s}:<f4:{how}"))
    for n in range(5):
        out.append(([1] * n, [Sym("list"), n], f"list{n}"))
        out.append((tuple([1] * n), [Sym("tuple"), n], f"tuple{n}"))
    for o, nm in ((None, "None"), ("ab", "str"), (5, "int"), (2.5, "float"), ({"a": 1}, "dict")):
        out.append((o, Sym("other"), nm))
    out.append((vp_good(), Sym("vp"), "CameraViewPort"))
    return out


def run(ctx):
    rng = ctx.rng
    space = args_space(rng, ctx.thorough)
    queries, meta = [], []
    for param, (qk, req) in PARAMS.items():
        for obj, marg, desc in space:
            q = [Sym(qk), req, marg] if qk == "shape" else [Sym(qk), marg]
            queries.append(q)
            meta.append((param, obj, desc))
    # several geometry arguments wrong at once, the second wrong "in the same way" as the first
    joint = joint_space(rng, ctx.thorough)
    for cls, reqs, shapes in joint:
        queries.append([Sym("all"), reqs, [[Sym("nd"), list(sh)] for sh in shapes]])
        meta.append((f"{cls}.joint", shapes, f"joint{shapes}"))
    # coupled arrays
    cshapes = [()] + [(a,) for a in (0, 1, 2, 3, 5)] + [(a, b) for a in (0, 1, 2, 3, 5) for b in (0, 1, 2, 3, 5)]
    triples = list(itertools.product(cshapes, repeat=3)) if ctx.thorough else \
        [t for t in itertools.product(cshapes, repeat=3) if t[0] == t[1] or t[1] == t[2] or rng.random() < 0.08]
    for t in triples:
        queries.append([Sym("coupled")] + [[Sym("nd"), list(s)] for s in t])
        meta.append(("force3d.track", t, f"coupled{t}"))
    for t in triples:       # the same triples with all three arrays cut from one owning table
        queries.append([Sym("coupled")] + [[Sym("nd"), list(s)] for s in t])
        meta.append(("force3d.track", t, f"coupled-views{t}"))
    for nonarr in ([1, 2, 3], None, "x"):
        queries.append([Sym("coupled"), Sym("other"), [Sym("nd"), [2, 3]], [Sym("nd"), [2, 3]]])
        meta.append(("force3d.track", ("nonarray", nonarr), "coupled non-array"))
    # events
    for single in (1, 0):
        for n in range(4):
            for mk in ("list", "tuple", "array", "array-f8", "array-f4-view", "range"):
                queries.append([Sym("event"), single, [Sym("sized"), n]])
                meta.append(("event", (single, n, mk), f"event single={single} {mk}{n}"))
        for ni in (5, None, 2.5):
            queries.append([Sym("event"), single, Sym("notIterable")])
            meta.append(("event", (single, "ni", ni), f"event single={single} non-iterable"))
    # the whole space is asked TWICE: in a process where nothing has failed yet, and again after decodes, encodes and
    # constructor calls of every block class have failed (and been caught): acceptance must not depend on that
    n_once = len(queries)
    queries, meta = queries + queries, meta + [(p_, o_, d_ + " [after failures elsewhere]") for p_, o_, d_ in meta]
    answers = common.drv_batch([[Sym("shape.accepts"), queries]])[0]
    from basictdf.tdfEvents import Event, EventsDataType, TemporalEventsData
    from basictdf.tdfForce3D import ForceTorque3D, ForceTorqueTrack
    import blockrun as Bk
    for qi, ((param, obj, desc), m) in enumerate(zip(meta, answers)):
        if qi == n_once:
            for kd in A.KINDS:
                for _ in range(6):
                    Bk.provoke(rng, kinds=[kd])
        model_accepts = m == 1
        exc = None
        blk = None
        try:
            if param == "force3d.track":
                if obj[0] == "nonarray":
                    tr = ForceTorqueTrack("t", obj[1], good((2, 3)), good((2, 3)))
                elif desc.startswith("coupled-views"):
                    tr = ForceTorqueTrack("t", *carved(obj))
                else:
                    tr = ForceTorqueTrack("t", good(obj[0]), good(obj[1]), good(obj[2]))
                try:
                    blk = ForceTorque3D(100, tr.nFrames, std("vol"), std("rot"), std("tr"))
                    blk.add_track(tr)
                except Exception as e2:
                    if obj[0] and obj[0] != "nonarray" and obj[0][0] == 0:
                        blk = None          # zero-frame track: outside the valid domain
                    else:
                        raise AcceptedButUnusable(f"{type(e2).__name__}: {e2}")
            elif param.endswith(".joint"):
                blk = build_joint(param.split(".")[0], obj)
            elif param == "event":
                single, n, mk = obj
                if n == "ni":
                    vals = mk
                else:
                    vals = {"list": [1.0] * n, "tuple": tuple([1.0] * n), "array": np.ones(n, dtype="<f4"), "array-f8": np.ones(n, dtype="<f8"),
                            "array-f4-view": np.ones(2 * n, dtype="<f4")[::2], "range": range(n)}[mk]
                ev = Event("e", vals, EventsDataType.singleEvent if single else EventsDataType.eventSequence)
                blk = TemporalEventsData()
                blk.events = [ev]
            else:
                blk = build_param(param, obj)
        except AcceptedButUnusable as e:
            ctx.fail(f"{param} accepted {desc} but the object cannot be used in a block: {e}", dict(param=param, arg=desc), ident=f"{param} accepted but unusable")
            continue
        except Exception as e:
            exc = e
        accepted = exc is None
        if accepted and blk is None:
            continue
        ctx.case((param, desc), nontrivial=desc.startswith(("ndarray", "coupled", "joint")), sample=dict(param=param, arg=desc, accepted=accepted) if accepted or ctx.rng.random() < 0.01 else None,
                 tags=(param.split(".")[0], "accepted" if accepted else "refused"))
        rp = dict(param=param, arg=desc)
        # oracle: the event sentences of the property, as they stand
        if param == "event" and accepted:
            single, n, mk = obj
            if n == "ni":
                ctx.fail(f"Event accepted a non-iterable value ({desc})", rp, ident="event non-iterable accepted")
                continue
            if single and n > 1:
                ctx.fail(f"a single (non-sequence) Event accepted {n} values given as {mk} ({desc})", rp, ident="single event with several values accepted")
                continue
        # oracle: no accepted object may be mis-sized
        if accepted:
            try:
                enc = A.encode(blk)
                nb = int(blk.nBytes)
            except Exception as e:
                if param == "force3d.track" and obj[0] and obj[0][0] == 0:
                    continue   # a zero-frame track is outside the valid domain (frame count >= 1); encoding raises loudly, nothing is mis-sized
                ctx.fail(f"{param} accepted {desc} but the object cannot be encoded: {type(e).__name__}: {str(e)[:80]}", rp, ident=f"{param} accepted but unencodable")
                continue
            if nb != len(enc):
                ctx.fail(f"{param} accepted {desc}: nBytes={nb} but {len(enc)} bytes are written (mis-sized encoding)", rp, ident=f"{param} accepted mis-sized")
                continue
        if model_accepts and not accepted and not desc.endswith(":object"):
            ctx.fail(f"{param} refuses {desc}, which has exactly the required shape/kind ({type(exc).__name__}: {str(exc)[:60]})", rp, ident=f"{param} refuses a valid argument")
            continue
        # correspondence
        if accepted != model_accepts:
            ctx.diff("shape.accepts", f"{param} with {desc}: real {'accepts' if accepted else 'refuses (' + type(exc).__name__ + ')'}, model {'accepts' if model_accepts else 'refuses'}", rp)
    ctx.exhaustive = True
    ctx.notes.append(f"{len(PARAMS)} parameters x {len(space)} arguments, {len(joint)} joint argument tuples, {len(triples)} coupled triples, events: exhaustive over the listed space")


def replay(path):
    data = json.load(open(path))
    for it in (data.get("failures") or []) + (data.get("broken_correspondence") or []):
        print(it.get("what") or it.get("detail"))
    return 1 if data.get("failures") else 0
