"""C16 — no track of the wrong length enters a block; list assignment is all-or-nothing."""
import json

import numpy as np

import absval as A
import common
from sx import Sym

RULE = ("seeded call sequences (length<=10) on Data3D, ForceTorque3D (add_track, tracks = …) and EMG (addSignal): tracks of the "
        "block's length and of other lengths, instances of a user subclass of the track class (accepted like any track), non-track objects (None, str, ndarray, int, a track of another block kind) at every "
        "position of assigned lists, generators that raise midway, one-shot iterables that do not (generator, iter, map, filter, reversed), the block's OWN track list / lazy views of it assigned back, non-iterables; after half of the list assignments the caller appends a wrong-length track to / deletes from ITS list; observed after each call: identity of the tracks "
        "held (block.tracks / iteration) and raised?; non-trivial = sequence with >=1 refused call after >=1 accepted; distinct by calls")
ASSUMPTIONS = ["'refused' = raises; the exception class is not part of the property"]


def mk_block(kind, n, rng):
    if kind == "data3d":
        from basictdf.tdfData3D import Data3D
        return Data3D(100, n, A.f32(A.gen_vec(rng, 3)), A.f32(A.gen_vec(rng, 9)).reshape(3, 3), A.f32(A.gen_vec(rng, 3)))
    if kind == "force3d":
        from basictdf.tdfForce3D import ForceTorque3D
        return ForceTorque3D(100, n, A.f32(A.gen_vec(rng, 3)), A.f32(A.gen_vec(rng, 9)).reshape(3, 3), A.f32(A.gen_vec(rng, 3)))
    from basictdf.tdfEMG import EMG
    return EMG(1000, n)


_SUB = {}


def sub(cls):
    """a user's subclass of a track class: still a track of the right kind"""
    if cls not in _SUB:
        def valid_frames(self):
            """the user's own notion of length: frames that hold data (the library defines no len() for tracks)"""
            import blockrun as B
            arr = getattr(self, "data", None)
            arr = self.force if arr is None else arr
            a = np.asarray(arr, dtype="f8")
            return int(np.count_nonzero(~np.isnan(a.reshape(a.shape[0], -1)[:, 0]))) if a.shape[0] else 0
        _SUB[cls] = type("My" + cls.__name__, (cls,), {"note": "user subclass", "__len__": valid_frames, "__bool__": lambda self: True})
    return _SUB[cls]


def mk_track(kind, frames, rng, was=None):
    import blockrun as B
    if was is not None and was != frames or rng.random() < 0.2:
        # a track that had ANOTHER length when it was constructed: its arrays were re-bound afterwards through the public attributes
        # (cut, or replaced by a longer recording). What counts is the number of frames it has when it is offered.
        other = was if was is not None and was != frames else rng.choice([x for x in [frames + 1, frames + 4, 2 * frames + 1, max(0, frames - 1), 0] if x != frames])
        t = _mk_track(kind, other, rng)
        getattr(t, "nFrames", None), getattr(t, "nSamples", None)      # (its frame count has been asked for once already)
        fresh = _mk_track(kind, frames, rng)
        for attr in B.TRACK_ARRAYS[kind]:
            setattr(t, attr, getattr(fresh, attr) if other < frames else getattr(t, attr)[:frames])
    else:
        t = _mk_track(kind, frames, rng)
    if rng.random() < 0.12:
        t.__class__ = sub(type(t))
    return t


def _mk_track(kind, frames, rng):
    if kind == "data3d":
        from basictdf.tdfData3D import MarkerTrack
        return MarkerTrack("m", A.frames_array(A.gen_frames(rng, 3, frames), 3) if frames else np.zeros((0, 3), dtype="<f4"))
    if kind == "force3d":
        from basictdf.tdfForce3D import ForceTorqueTrack
        a = A.frames_array(A.gen_frames(rng, 9, frames), 9) if frames else np.zeros((0, 9), dtype="<f4")
        return ForceTorqueTrack("f", a[:, 0:3].copy(), a[:, 3:6].copy(), a[:, 6:9].copy())
    from basictdf.tdfEMG import EMGTrack
    return EMGTrack("e", A.frames_array(A.gen_frames(rng, 1, frames), 1)[:, 0] if frames else np.zeros((0,), dtype="<f4"))


def gen_offered(kind, n, rng, ids):
    """returns (python object, model term)"""
    r = rng.random()
    if r < 0.55:
        t = mk_track(kind, n, rng)
        ids.setdefault("alive", []).append(t)        # (ids is keyed by id(): every offered object stays alive, a dead object's id would be reused)
        ids[id(t)] = len(ids) + 1
        return t, [Sym("t"), ids[id(t)], n]
    if r < 0.8:
        f = rng.choice([x for x in [0, 1, n - 1, n + 1, 2 * n] if x != n and x >= 0])
        # (four in ten of the wrong-length tracks HAD the block's length when they were constructed and were cut or extended since)
        t = mk_track(kind, f, rng, was=n if rng.random() < 0.4 else None)
        ids.setdefault("alive", []).append(t)
        ids[id(t)] = len(ids) + 1
        return t, [Sym("t"), ids[id(t)], f]
    other_kind = rng.choice([k for k in ("data3d", "force3d", "emg") if k != kind])
    return rng.choice([None, "track", np.zeros((n, 3)), 7, mk_track(other_kind, n, rng)]), Sym("other")


def held(kind, blk, ids):
    objs = list(blk) if kind == "emg" else list(blk.tracks)
    it = list(iter(blk))
    if [id(o) for o in it] != [id(o) for o in objs]:
        return None
    return [ids.get(id(o), -1) for o in objs]


def run(ctx):
    rng = ctx.rng
    runs = []
    aliased = []
    for _ in range(ctx.n(1200, 40000)):
        kind = rng.choice(["data3d", "force3d", "emg"])
        n = rng.choice([0, 1, 2, 5, 9])     # 0: a block that was created empty ("any frame count")
        blk = mk_block(kind, n, rng)
        ids = {}
        calls, obs = [], []
        for _ in range(rng.randrange(2, 11)):
            if kind != "emg" and rng.random() < 0.45:
                offered = [gen_offered(kind, n, rng, ids) for _ in range(rng.randrange(0, 5))]
                objs = [o for o, _ in offered]
                boom = None
                oneshot = None
                mode = rng.random()
                if mode < 0.2 and objs:
                    boom = rng.randrange(0, len(objs) + 1)

                    def gen(objs=objs, boom=boom):
                        for k, o in enumerate(objs):
                            if k == boom:
                                raise RuntimeError("iterable failed")
                            yield o
                        if boom == len(objs):
                            raise RuntimeError("iterable failed")
                    values = gen()
                elif mode < 0.27:
                    values = rng.choice([None, 5])
                    offered, boom = [], 0
                elif mode < 0.36 and list(blk):
                    # the block's OWN tracks come back: its list object itself, a lazy view of it, a filtered generator over the
                    # block - whatever the setter does to the old container, it must have read the new value first
                    cur = list(blk)
                    how = rng.choice(["self-list", "self-reversed", "self-generator", "self-iter-block", "self-plus-one"])
                    if how == "self-list":
                        offered, values = [(o, [Sym("t"), ids.get(id(o), 999999), n]) for o in cur], blk.tracks
                    elif how == "self-reversed":
                        offered, values = [(o, [Sym("t"), ids.get(id(o), 999999), n]) for o in cur[::-1]], reversed(blk.tracks)
                    elif how == "self-generator":
                        keep = [o for k, o in enumerate(cur) if k % 2 == 0]
                        offered, values = [(o, [Sym("t"), ids.get(id(o), 999999), n]) for o in keep], (o for k, o in enumerate(blk.tracks) if k % 2 == 0)
                    elif how == "self-iter-block":
                        offered, values = [(o, [Sym("t"), ids.get(id(o), 999999), n]) for o in cur], iter(blk)
                    else:
                        extra = gen_offered(kind, n, rng, ids)
                        offered = [(o, [Sym("t"), ids.get(id(o), 999999), n]) for o in cur] + [extra]
                        values = (o for o in list(blk.tracks) + [extra[0]])
                    objs = [o for o, _ in offered]
                    oneshot = how
                elif mode < 0.45:
                    # one-shot iterables that do NOT raise: a generator, iter(list), map, filter, reversed (the latter yields the
                    # elements last to first): the setter must install exactly what the iterable yields, once
                    how = rng.choice(["generator", "iter", "map", "filter", "reversed"])
                    if how == "reversed":
                        offered = offered[::-1]
                        values = reversed(objs)
                    else:
                        values = {"generator": (o for o in objs), "iter": iter(objs), "map": map(lambda o: o, objs),
                                  "filter": filter(lambda o: True, objs)}[how]
                    oneshot = how
                elif mode < 0.5:
                    values = tuple(objs)
                else:
                    values = objs
                exc = None
                try:
                    blk.tracks = values
                except Exception as e:
                    exc = e
                calls.append([Sym("assign"), [m for _, m in offered], Sym("none") if boom is None else boom])
                desc = "assign" + ("(raising iterable)" if boom is not None else "") + (f"({oneshot})" if oneshot else "")
                if isinstance(values, list) and rng.random() < 0.5:
                    # the caller goes on using ITS list: the block must have taken the tracks, not the list
                    before_ids = held(kind, blk, ids)
                    wrong = mk_track(kind, n + 3, rng)
                    values.append(wrong)
                    if rng.random() < 0.5 and len(values) > 1:
                        del values[0]
                    after_ids = held(kind, blk, ids)
                    if after_ids != before_ids or any((len(t.data if hasattr(t, "data") else t.force) != n) for t in blk):
                        aliased.append((kind, n, [str(c) for c in calls], before_ids, after_ids))
            else:
                o, m = gen_offered(kind, n, rng, ids)
                exc = None
                try:
                    (blk.addSignal if kind == "emg" else blk.add_track)(o)
                except Exception as e:
                    exc = e
                calls.append([Sym("add"), m])
                desc = "add"
            # the length of a track is the length of the arrays it holds NOW (not what the track says about itself)
            import blockrun as B
            lens_ok = all(len(getattr(t, a)) == n for t in blk for a in B.TRACK_ARRAYS[kind])
            given = None
            if desc.startswith("assign") and exc is None:
                given = [ids.get(id(o), -1) for o, _ in offered]       # "installs exactly that list"
            obs.append((desc, exc, held(kind, blk, ids), lens_ok, given))
        runs.append((kind, n, calls, obs))
    for kind, n, calls, b, a in aliased[:5]:
        ctx.fail(f"{kind} (nFrames={n}): after `block.tracks = lst` the caller changed lst and the block's tracks changed with it ({b} -> {a}): "
                 f"a wrong-length track entered without any call on the block", dict(kind=kind, n=n, calls=calls), ident=f"{kind} assigned list stays shared with the caller")
    replies = common.drv_batch([[Sym("tb.run"), n, calls] for _, n, calls, _ in runs])
    for (kind, n, calls, obs), rep in zip(runs, replies):
        accepted_then_refused = False
        seen_ok = False
        for d, e, _, _, _ in obs:
            if e is None:
                seen_ok = True
            elif seen_ok:
                accepted_then_refused = True
        ctx.case((kind, n, str(calls)), nontrivial=accepted_then_refused, sample=dict(kind=kind, n=n, calls=[f"{d}:{'raised' if e else 'ok'}" for d, e, _, _, _ in obs]),
                 tags=[kind] + [f"{d}:{'raised' if e else 'ok'}" for d, e, _, _, _ in obs])
        rp = dict(kind=kind, n=n, calls=[str(c) for c in calls])
        prev = []
        for i, ((desc, exc, ids_now, lens_ok, given), m) in enumerate(zip(obs, rep)):
            rpi = dict(rp, upto=i)
            if ids_now is None:
                ctx.fail(f"{kind}: iteration and the tracks list disagree after {desc}", rpi, ident=f"{kind} iteration")
                break
            if not lens_ok:
                ctx.fail(f"{kind} (nFrames={n}): the block now contains a track of another length after {desc}", rpi, ident=f"{kind} wrong-length track entered via {desc.split('(')[0]}")
                break
            if given is not None and ids_now is not None and ids_now != given:
                ctx.fail(f"{kind}: {desc} succeeded but the block holds {ids_now}, not the list that was assigned {given}", dict(rp, upto=i), ident=f"{kind} {desc.split('(')[0]} did not install the assigned list")
                break
            if exc is not None and ids_now != prev:
                ctx.fail(f"{kind}: {desc} raised {type(exc).__name__} but the block's tracks changed {prev} -> {ids_now}", rpi, ident=f"{kind} refused {desc.split('(')[0]} changed the block")
                break
            if -1 in ids_now:
                ctx.fail(f"{kind}: the block holds an object that is not one of the offered tracks after {desc}", rpi, ident=f"{kind} foreign object entered")
                break
            m_raised, m_ids = m[0] == 1, list(m[1])
            if (exc is not None) != m_raised or ids_now != m_ids:
                ctx.diff("tb.step", f"{kind} n={n} step {i} {desc}: real {'raised ' + type(exc).__name__ if exc else 'ok'} {ids_now}, model raised={m_raised} {m_ids}", rpi)
                break
            prev = ids_now


def replay(path):
    data = json.load(open(path))
    for it in (data.get("failures") or []) + (data.get("broken_correspondence") or []):
        print(it.get("what") or it.get("detail"))
        print("   ", it["replay"])
    return 1 if data.get("failures") else 0
