"""C02 — declared size (nBytes) = bytes written = bytes consumed, blocks and nested items; BTS capture vs jump table."""
import io
import json

import numpy as np

import absval as A
import blockrun as B

RULE = ("(2 % of the blocks, 4 % in the thorough tier, sit on the scale axis: 255 ... 65537 frames or 15 ... 257 items) " 
        "[plus tracks whose deciding (first) component is +-inf/NaN while the others are finite: the three sizes must still agree] [plus object life cycles as in C01: sized/encoded/decoded, edited in place, sized/encoded/decoded again] same generator as C01 (valid blocks of nine types, every nested item kind); per case three numbers for the block "
        "(nBytes, len(_write), tell() after _build on bytes+sentinel tail) and (nBytes, len) per nested item; thorough: the 8 "
        "blocks of the BTS capture against the jump-table sizes. non-trivial as C01")
ASSUMPTIONS = ["Data2D cells may be float32 or float64 arrays (the property's quantifier); on disk both are float32"]


def judge(ctx, kind, v, opts, r, m):
    rep = dict(kind=kind, v=v, **opts)
    lc = " [object used, then edited in place: " + "; ".join(opts["life_cycle"]["edits"]) + "]" if opts.get("life_cycle") else ""
    sfx = " after in-place edit" if lc else ""
    if "nbytes" not in r or "enc" not in r:
        ctx.fail(f"{kind}: valid block cannot be sized/encoded ({r.get('exc', '')[:120]}){lc}", rep, ident=f"{kind} stage={r['stage']}")
        return
    if r["nbytes"] != len(r["enc"]):
        ctx.fail(f"{kind}: nBytes={r['nbytes']} but _write produced {len(r['enc'])} bytes{lc}", rep, ident=f"{kind} nBytes!=written{sfx}")
    for i, (nb, ln) in enumerate(r.get("items", [])):
        if nb != ln:
            ctx.fail(f"{kind}: nested item {i}: nBytes={nb} but its _write produced {ln} bytes{lc}", rep, ident=f"{kind} item nBytes!=written{sfx}")
    if "tell" in r:
        if r["tell"] != len(r["enc"]):
            ctx.fail(f"{kind}: _build consumed {r['tell']} of {len(r['enc'])} bytes{lc}", rep, ident=f"{kind} consumed!=written{sfx}")
        if r.get("dec_nbytes") is not None and r["dec_nbytes"] != len(r["enc"]):
            ctx.fail(f"{kind}: decoded block reports nBytes={r['dec_nbytes']} for {len(r['enc'])} bytes{lc}", rep, ident=f"{kind} decoded nBytes{sfx}")
    elif "exc" in r:
        ctx.fail(f"{kind}: own encoding cannot be decoded ({r['exc'][:120]}){lc}", rep, ident=f"{kind} stage={r['stage']}")
    # correspondence: the three numbers of the model
    if m["size"] != r["nbytes"]:
        ctx.diff("blk.size", f"{kind}: real nBytes {r['nbytes']} model size {m['size']}{lc}", rep)
    if len(m["enc"]) != len(r["enc"]):
        ctx.diff("blk.enc.length", f"{kind}: real wrote {len(r['enc'])} model {len(m['enc'])}{lc}", rep)
    if "tell" in r and m["consumed"] != r["tell"]:
        ctx.diff("blk.dec.consumed", f"{kind}: real consumed {r['tell']} model {m['consumed']}{lc}", rep)


def run(ctx):
    n = ctx.n(1500, 12000)
    for c0 in range(0, n, 2500):
        cases = B.gen_cases(ctx, min(2500, n - c0), big=ctx.thorough)
        models = B.model_side(cases)
        for (kind, v), m in zip(cases, models):
            opts = dict(wide=ctx.rng.random() < 0.3, vpstyle=ctx.rng.choice([0, 0, 1]),
                        prov=ctx.rng.choice(A.PROVENANCES) if ctx.rng.random() < 0.2 else None, scalars=ctx.rng.choice([None, None, "np", "py"]))
            if ctx.rng.random() < 0.03:
                ctx.dist["provoked:" + B.provoke(ctx.rng).split(":")[0]] += 1      # a failure elsewhere in the process, caught
            r = B.real_side(kind, v, **opts)
            ctx.case((kind, v), nontrivial=A.nontrivial(kind, v), sample=dict(kind=kind, v=v) if len(repr(v)) < 700 else None,
                     tags=B.shape_tags(kind, v) + (["f64-input"] if opts["wide"] else []) + ([f"prov={opts['prov']}"] if opts["prov"] else []) + ([f"scalars={opts['scalars']}"] if opts.get("scalars") else []))
            judge(ctx, kind, v, opts, r, m)
    from sessions.c01 import life_cycles
    life_cycles(ctx, judge, ctx.n(350, 8000))
    deciding_component(ctx, ctx.n(200, 4000))
    copied_blocks(ctx, ctx.n(200, 4000))
    if ctx.thorough or True:
        capture_sizes(ctx)


def copied_blocks(ctx, n):
    """copy.copy / copy.deepcopy of a block (what a program does before it tries a change), then items added to or removed
    from the copy: whatever the copy shares with the original, BOTH objects must go on declaring the size they write"""
    import copy
    import sessions.c20 as c20
    rng = ctx.rng
    for i in range(n):
        kind = ["emg", "data3d", "force3d", "platdata", "platcalib", "events", "optical"][i % 7]
        v = A.GEN[kind](rng)
        if kind in ("emg", "platdata"):
            v[3] = list(range(len(v[3])))      # low channels: automatic channels (max + 1) added below stay inside the on-disk range
        elif kind == "platcalib":
            v[0] = list(range(len(v[0])))
        how = rng.choice(["copy", "deepcopy"])
        rep = dict(kind=kind, v=v, how=how)
        try:
            obj = A.build(kind, v)
            c20.N = v[1] if kind == "data3d" else v[2] if kind in ("emg", "force3d", "platdata") else 2
            c20.PROFILE = None
            dup = copy.copy(obj) if how == "copy" else copy.deepcopy(obj)
            steps = []
            for _ in range(rng.randrange(1, 4)):
                target = rng.choice([obj, dup])
                items = c20.items_of(kind, target)
                if items and rng.random() < 0.4:
                    c20.remove(kind, target, rng.randrange(len(items)))
                    steps.append("remove from " + ("the copy" if target is dup else "the original"))
                else:
                    it = c20.new_item(kind, rng)
                    if kind == "emg":
                        it.label = f"n{i}_{len(steps)}"
                    c20.add(kind, target, it)
                    steps.append("add to " + ("the copy" if target is dup else "the original"))
        except Exception as e:
            ctx.diff("c02.copy", f"{kind}: copying / editing a copy raised {type(e).__name__}: {str(e)[:80]}", rep)
            continue
        finally:
            c20.N = 2
        ctx.case((kind, how, str(v)[:500], str(steps)), nontrivial=True, tags=(kind, how))
        for name, o in (("original", obj), ("copy", dup)):
            r = B.observe_obj(kind, o)
            if "enc" in r and (r["nbytes"] != len(r["enc"]) or r.get("tell", len(r["enc"])) != len(r["enc"])):
                ctx.fail(f"{kind}: after {how} and {steps} the {name} declares nBytes={r['nbytes']}, writes {len(r['enc'])}, decoding consumes {r.get('tell')}", dict(rep, steps=steps),
                         ident=f"{kind} {name} mis-sized after {how}")
            elif "exc" in r and r["stage"] in ("decode", "abs1", "nbytes1", "rewrite"):
                ctx.fail(f"{kind}: after {how} and {steps} the {name}'s own encoding cannot be read back: {r['exc'][:80]}", dict(rep, steps=steps), ident=f"{kind} {name} unreadable after {how}")


def deciding_component(ctx, n):
    """tracks in which the component that decides presence (the first one) is +inf, -inf or NaN while the others are
    finite - e.g. a centre of pressure computed as M/Fz with Fz = 0 -, and rows with NaN/inf elsewhere. The Lean model's `see`
    (rowPresent: first component finite) says which rows the library stores; whatever it stores, the three sizes must agree.
    (Outside C01's domain: such a row does not read back as given.)"""
    import common
    from sx import Sym
    rng = ctx.rng
    recs, cmds = [], []
    for i in range(n):
        kind = ["data3d", "emg", "force3d", "platdata"][i % 4]
        k = A.NCOMP[kind]
        v0 = A.GEN[kind](rng)
        try:
            obj = A.build(kind, v0, wide=rng.random() < 0.3)
            hits, raws = 0, []
            for it, _ in B.items_of(kind, obj):
                attrs = B.TRACK_ARRAYS[kind]
                n_rows = len(getattr(it, attrs[0]))
                for j in range(n_rows):
                    r = rng.random()
                    if r < 0.3:             # the deciding component
                        arr = getattr(it, attrs[0])
                        B._w(it, attrs[0], j if arr.ndim == 1 else (j, 0), rng.choice([np.inf, -np.inf, np.nan]))
                        hits += 1
                    elif r < 0.4 and k > 1:  # some other component
                        a = rng.choice(attrs)
                        arr = getattr(it, a)
                        if arr.ndim == 2 and (a != attrs[0] or arr.shape[1] > 1):
                            B._w(it, a, (j, arr.shape[1] - 1), rng.choice([np.inf, np.nan]))
                cols = [np.asarray(getattr(it, a)).reshape(n_rows, -1) for a in attrs]
                raws.append(A.raw_rows(np.concatenate(cols, axis=1), k))
            r = B.observe_obj(kind, obj)
        except Exception as e:
            ctx.fail(f"{kind}: a block with non-finite components cannot be built/observed: {type(e).__name__}: {e}", dict(kind=kind, v=v0), ident=f"{kind} non-finite components raise")
            continue
        if hits:
            recs.append((kind, v0, raws, r, hits))
            cmds += [[Sym("rle.see"), k, rows] for rows in raws]
    replies = common.drv_batch(cmds)
    pos = 0
    stages = []
    for kind, v0, raws, r, hits in recs:
        views = replies[pos:pos + len(raws)]
        pos += len(raws)
        rep = dict(kind=kind, start=v0, raw_rows=raws if len(repr(raws)) < 3000 else None)
        ctx.case((kind, str(raws)[:400], "deciding"), nontrivial=True, tags=[kind, "non-finite-components"])
        # the abstract value the model's presence rule gives this object: its frames replaced by `see raw`
        v = A.norm(v0)
        seen = [A.norm(w[0]) for w in views]
        if kind == "platdata":
            v[4] = seen
        else:
            v[-1] = [[t[0], fr] for t, fr in zip(v[-1], seen)]
        # per track: declared size, bytes written, and (through the block decode) what reads back
        for ti, ((nb, ln), w) in enumerate(zip(r.get("items", []), views)):
            extra = 0 if kind == "platdata" else 256
            if nb != ln:
                ctx.fail(f"{kind}: track {ti} with non-finite components: nBytes={nb} but {ln} bytes are written", rep, ident=f"{kind} item nBytes!=written (non-finite)")
            if ln != w[2] + extra or nb != w[3] + extra:
                ctx.diff("rle.see", f"{kind}: track {ti}: real writes {ln} / declares {nb}; model writes {w[2] + extra} / declares {w[3] + extra}", rep)
        stages.append((kind, v, dict(non_finite_components=hits), r))
    models = B.model_side([(k, v) for k, v, _, _ in stages])
    for (kind, v, opts, r), m in zip(stages, models):
        if not m["valid"]:
            continue
        r = dict(r, abs0=v)
        judge(ctx, kind, v, opts, r, m)
        if r.get("dec_abs") is not None and r["dec_abs"] != v:
            ctx.diff("rle.see.decode", f"{kind}: what reads back differs from the model's view of the raw rows", dict(kind=kind, v=v))


def capture_sizes(ctx):
    """every block decoded from the BTS-written file: size = jump-table size = bytes consumed (real and model)"""
    import capture
    for ent in capture.entries():
        kind = ent["kind"]
        rep = dict(capture=ent["type"], kind=kind)
        data = ent["payload"]
        try:
            st = io.BytesIO(data + B.SENTINEL)
            blk = A.klass(kind)._build(st, ent["format"])
            tell, nb = st.tell(), int(blk.nBytes)
        except Exception as e:
            ctx.fail(f"capture block {kind}: cannot be decoded: {type(e).__name__}: {e}", rep, ident=f"capture {kind} decode")
            continue
        ctx.case(("capture", kind), nontrivial=True, tags=("capture",))
        if tell != ent["size"] or nb != ent["size"]:
            ctx.fail(f"capture block {kind}: jump table says {ent['size']}, _build consumed {tell}, nBytes={nb}", rep, ident=f"capture {kind} size")
        md = B.model_decode(kind, ent["format"], data + B.SENTINEL)
        if not md["ok"] or md["consumed"] != tell:
            ctx.diff("capture.consumed", f"{kind}: real consumed {tell}, model {md.get('consumed')}", rep)


def replay(path):
    data = json.load(open(path))
    rc = 0
    for it in (data.get("failures") or []) + (data.get("broken_correspondence") or []):
        rp = it["replay"]
        if "v" not in rp:
            print("capture case:", rp)
            continue
        kind, v = rp["kind"], A.norm(rp["v"])
        r = B.real_side(kind, v, wide=rp.get("wide", False), vpstyle=rp.get("vpstyle", 0), prov=rp.get("prov"), scalars=rp.get("scalars"))
        ok = "exc" not in r and r["nbytes"] == len(r["enc"]) == r["tell"] and all(a == b for a, b in r["items"])
        print(kind, "nBytes", r.get("nbytes"), "written", len(r.get("enc", b"")), "consumed", r.get("tell"), "->", "holds" if ok else "FAILS")
        rc |= 0 if ok else 1
    return rc
