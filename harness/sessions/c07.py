"""C07 — a rejected mutation leaves the file exactly as it was, and later operations behave as if it never happened."""
import json
import shutil
import tempfile

import container as C

RULE = ("histories with a high share of invalid requests (duplicate type, full table, over-long / non-cp1252 label at the first or "
        "last item, over-long / non-cp1252 comment, unsupported format, wrong object, absent type on remove/replace, unused slot "
        "between live blocks) on reachable states incl. N in {1,2,3}; plus ONE block object through every history <= 4 of add/replace/setter (as is, grown, "
        "changed at the same size), remove, re-entering, and REJECTED requests carrying that very object; for every raising call: sha-256 of the file before = after, "
        "Tdf.entries = table on disk; then the same history WITHOUT the rejected calls is run on a twin file and the two final "
        "files are compared; non-trivial = history with >=1 rejected call after >=1 successful mutation; distinct by (start, history)")
ASSUMPTIONS = ["'rejected' = the call raises; whether a given request must be rejected is C11/C13's concern, not C07's"]


def judge(ctx, r):
    for i, s in enumerate(r.steps):
        if s["real"] == "ok":
            continue
        rep = C.replay_of(r, i)
        cause = s["real"].split(":")[1]
        bad = (s.get("spec") or {}).get("bad", "")
        if C.sha(s["before"]) != C.sha(s["after"]):
            a, b = C.absfile(s["before"]), C.absfile(s["after"])
            lost = sorted({e[1] for e in (a["live"] if a else [])} - {e[1] for e in (b["live"] if b else [])})
            ctx.fail(f"{r.desc} step {i}: {s['op'][0]} raised {cause} ({bad or 'invalid request'}) but the file changed" + (f"; block types {lost} were lost" if lost else ""),
                     rep, ident=f"{s['op'][0]} rejected but file changed")
            return False
        a = C.absfile(s["after"])
        if a is None:
            ctx.fail(f"{r.desc} step {i}: the file can no longer be parsed after a rejected call", rep, ident="file unreadable after rejected " + s["op"][0])
            return False
        disk_tbl = [(e[0], e[1], e[2], e[3], e[4]) for e in a["live"]] + [(e[0], 0, 0, e[1], e[2]) for e in a["free"]]
        mem_tbl = [(e[0], e[1], e[2] if e[1] else 0, e[3], e[4]) for e in s["entries"]]
        if sorted(disk_tbl) != sorted(mem_tbl):
            ctx.fail(f"{r.desc} step {i}: {s['op'][0]} raised {cause} and left Tdf.entries different from the table on disk", rep,
                     ident=f"{s['op'][0]} rejected but entries changed")
            return False
    return True


def twin(ctx, r, wd):
    """same history without the rejected calls, same clock values, on a twin file"""
    t = C.Run(r.start, wd)
    t.open()
    now = C.T0 + 1000
    for s in r.steps:
        if s["op"][0] not in C.IDLE:
            now += 17
        if s["real"] != "ok":
            sp = s.get("spec") or {}
            if sp.get("grow") or sp.get("tilt"):
                t.block_for(sp)        # the caller changed its object before the (rejected) call: that happened in both worlds
            continue
        if s["op"][0] not in C.IDLE:
            t.now = now - 17
        t.step(s["op"], s.get("spec"))
    t.finish()
    if C.absfile(t.final) != C.absfile(r.final):
        ctx.fail(f"{r.desc}: the history with its rejected calls ends in a different file than the same history without them",
                 C.replay_of(r, len(r.steps) - 1), ident="continuation differs after a rejected call")


def big_rejected(ctx, wd):
    """a LARGE block (64 KiB ... 128 KiB and neighbours) is to be replaced by a block of exactly the same size whose LAST item
    cannot be encoded (over-long / non-cp1252 label), through replace_block and through the setter: nothing of the new block
    may reach the file - whatever way large or same-sized blocks take through the library"""
    import absval as A
    C.Clock.install()
    rng = ctx.rng
    runs = []
    sizes = [65536, 65540, 70000, 131072] + ([65532, 98304, 262144, 300000] if ctx.thorough else [])
    for size in sizes:
        for kind in ("events", "data3d"):
            if kind == "events":
                n = (size - 8 - 2 * 264) // 4
                old = dict(kind="events", v=[1, 0, [[[65], 1, [1065353216 + (i % 1000) for i in range(n)]], [[66], 0, []]]])
                new = dict(kind="events", v=[1, 0, [[[67], 1, [1073741824 + (i % 999) for i in range(n)]], [[68], 0, []]]])
            else:
                nfr = max(2, (size - 80 - 2 * 272) // 24)
                z3, z9 = [0, 0, 0], [0] * 9
                old = dict(kind="data3d", v=[2, nfr, 100, 0, z3, z9, z3, 0, [], [[[65], [[1, 2, 3]] * nfr], [[66], [[4, 5, 6]] * nfr]]])
                new = dict(kind="data3d", v=[2, nfr, 100, 0, z3, z9, z3, 0, [], [[[67], [[7, 8, 9]] * nfr], [[68], [[10, 11, 12]] * nfr]]])
            blk = A.build(kind, A.norm(old["v"]))
            payload = A.encode(blk)
            start = C.mkfile(3, [dict(type=3, fmt=1, payload=bytes(range(100)), cdate=C.T0 - 9, mdate=C.T0 - 8, comment="first"),
                                 dict(type=A.BLOCKTYPE[kind], fmt=A.fmt_of(kind, old["v"]), payload=payload, cdate=C.T0 - 7, mdate=C.T0 - 6, comment="big")])
            for bad in ("label-long-last", "label-noncp"):
                for how in ("replace", "set"):
                    r = C.Run(start, wd)
                    r.desc, r.style = f"big(N=3, {kind} of {len(payload)} bytes)", "big-rejected"
                    op = ("replace", None, None) if how == "replace" else ("set", {"events": "events", "data3d": "data3D"}[kind])
                    r.hist = [(op, dict(new, bad=bad)), (op, dict(new)), (("reopen",), None)]
                    r.open()
                    for o, sp in r.hist:
                        r.step(o, sp)
                    r.finish()
                    runs.append(r)
    C._finish_chunk(runs)
    return runs


def run(ctx):
    styles = ["fresh", "n1", "n2", "n3", "n5", "n14"]
    import itertools
    # (the twin run needs blocks that do not depend on which earlier calls ran: no object reuse in the seeded histories; in the
    #  one-object family the rejected requests hand the object over AS IT IS, so the twin sees the same objects)
    C.EXTRA_BAD[:] = C.UNNOTICED_BAD_KINDS          # (only here: requests the library accepts although they are wrong)
    runs = itertools.chain(C.explore(ctx, ctx.n(500, 8000), 12, styles, p_invalid=0.55, hole=True, reuse=False),
                           C.explore_one_object(ctx, depth=5 if ctx.thorough else 4))
    wd = tempfile.mkdtemp(prefix="vtdf")
    try:
        runs = itertools.chain(runs, big_rejected(ctx, wd))
        for r in runs:
            rejected = [s for s in r.steps if s["real"] != "ok"]
            first_ok = next((i for i, s in enumerate(r.steps) if s["real"] == "ok" and s["op"][0] not in C.IDLE), None)
            nontriv = first_ok is not None and any(s["real"] != "ok" for s in r.steps[first_ok + 1:])
            tags = [f"start={r.style}"] + [f"{s['op'][0]}:{s['real']}:{(s.get('spec') or {}).get('bad', '-')}" for s in rejected]
            ctx.case((r.desc, str(C.jsonable_hist(r.hist))), nontrivial=nontriv,
                     sample=dict(start=r.desc, ops=[s["op"][0] + ":" + s["real"] for s in r.steps]), tags=tags)
            C.correspondence(ctx, r)
            if C.judge_and_shrink(ctx, r, judge):
                twin(ctx, r, wd)
    finally:
        shutil.rmtree(wd, ignore_errors=True)


def replay(path):
    import common
    data = json.load(open(path))
    rc = 0
    for it in (data.get("failures") or []) + (data.get("broken_correspondence") or []):
        rp = it["replay"]
        if not rp.get("start"):
            continue
        r = C.replay_history(rp)
        c = common.Ctx("C07", "quick", 0)
        judge(c, r)
        print(r.desc, [s["op"][0] + ":" + s["real"] for s in r.steps], "->", "rejected calls left the file alone" if not c.fails else c.fails[0]["what"])
        rc |= 1 if c.fails else 0
    return rc
