"""C11 — at most one block per type; presence checks, count, lookup by type/index, blocks list and getters agree with content."""
import json

import absval as A
import container as C

RULE = ("histories as C03 biased to repeated adds of one type and setter assignment when present/absent/table full; after every "
        "call: per-type count in an independent parse (Lean typesNodupB), and every accessor (five has_*, len, get_block by type "
        "for all 17 type codes, get_block by index -2..N+1, [] , blocks, six getters) against the live set parsed from disk; "
        "duplicate add must raise ValueError; plus every history of length <= 4 over add/remove/setter of three blocks of different "
        "types and IDENTICAL size (1144 bytes; thorough also 4312) with all accessors after every call; non-trivial as C03")
ASSUMPTIONS = ["blocks of undecodable types make get_block/blocks raise NotImplementedError by design; for them only presence/count are compared"]
DECODABLE = set(A.BLOCKTYPE.values())


def observe(run, st):
    from basictdf.tdfBlock import BlockType
    t = run.t
    o = {}

    def attempt(f):
        try:
            return ("ok", f())
        except Exception as e:
            return ("raised", type(e).__name__)
    o["len"] = attempt(lambda: len(t))
    for name in C.HAS:
        o[name] = attempt(lambda: getattr(t, name))
    o["by_type"] = {bt.value: attempt(lambda: t.get_block(bt).type.value) for bt in BlockType}
    n = len(t.entries)
    o["by_index"] = {i: attempt(lambda: t.get_block(i).type.value) for i in range(-2, n + 2)}
    o["getitem"] = {i: attempt(lambda: t[i].type.value) for i in range(0, n)}
    o["blocks"] = attempt(lambda: [b.type.value for b in t.blocks])
    for name in C.GETTERS:
        o["get_" + name] = attempt(lambda: getattr(t, name).type.value)
    o["other_key"] = attempt(lambda: t.get_block("data3D"))
    st["extra"]["acc"] = o


def judge(ctx, r):
    for i, s in enumerate(r.steps):
        rep = C.replay_of(r, i)
        a = C.absfile(s["after"])
        if a is None or C.absfile(s["before"]) is None:
            ctx.fail(f"{r.desc} step {i} {s['op']}: the file can no longer be parsed", rep, ident="file unreadable after " + s["op"][0])
            return
        table = [None] * a["n"]
        for e in a["live"]:
            table[e[0]] = e[1]
        for e in a["free"]:
            table[e[0]] = 0
        live = [x for x in table if x != 0]
        if not s["fc"]["nodup"] or len(set(live)) != len(live):
            ctx.fail(f"{r.desc} step {i} {s['op']}: the file holds two blocks of one type", rep, ident="two blocks of one type after " + s["op"][0])
            return
        b = C.absfile(s["before"])
        before_types = {e[1] for e in b["live"]}
        blk = s.get("blk")
        if s["op"][0] == "add" and hasattr(blk, "type") and blk.type.value in before_types:
            if s["real"] != "raised:ValueError":
                ctx.fail(f"{r.desc} step {i}: adding a type that is already present gave {s['real']} instead of ValueError", rep, ident="duplicate add not ValueError")
                return
        if s["op"][0] == "set" and s["real"] == "ok":
            t = blk.type.value
            if t not in live:
                ctx.fail(f"{r.desc} step {i}: property assignment succeeded but the block is absent", rep, ident="setter lost block")
                return
            # "assigning through a convenience property replaces the existing block": what is stored now is what was assigned,
            # bit for bit - however little it differs from what was there before
            arg = s.get("arg")
            stored = next((bytes.fromhex(e[8]) for e in a["live"] if e[1] == t), None)
            if arg is not None and isinstance(arg[3], (bytes, bytearray)) and stored != bytes(arg[3]):
                was = next((bytes.fromhex(e[8]) for e in b["live"] if e[1] == t), None) if b else None
                ctx.fail(f"{r.desc} step {i}: property assignment of type {t} succeeded but the file does not hold the block that was assigned"
                         + (" (it still holds the old one)" if stored == was else ""), rep, ident="setter did not install the block")
                return
        acc = s["extra"].get("acc")
        if not acc:
            continue
        opaque_present = any(x not in DECODABLE for x in live)

        def bad(what):
            ctx.fail(f"{r.desc} step {i} after {s['op']}: {what}", rep, ident="accessor: " + what.split(":")[0])
        if acc["len"] != ("ok", len(live)):
            return bad(f"len: {acc['len']} but {len(live)} live blocks")
        for name, t in C.HAS.items():
            if acc[name] != ("ok", t in live):
                return bad(f"{name}: {acc[name]} but presence is {t in live}")
        for t in range(17):
            got = acc["by_type"][t]
            if t in live or (t == 0 and 0 in table):
                if t in DECODABLE or t == 0:
                    if got != ("ok", t):
                        return bad(f"get_block(type {t}): {got} though the block is present")
                elif got[0] != "raised":
                    return bad(f"get_block(opaque type {t}): {got}")
            elif got[0] != "raised":
                return bad(f"get_block(absent type {t}): returned {got} instead of raising")
        for idx, got in acc["by_index"].items():
            if 0 <= idx < len(table):
                t = table[idx]
                if t in DECODABLE or t == 0:
                    if got != ("ok", t):
                        return bad(f"get_block(index {idx}): {got} but slot holds type {t}")
            elif got != ("raised", "IndexError"):
                return bad(f"get_block(index {idx}) out of range: {got} instead of IndexError")
        for idx, got in acc["getitem"].items():
            if got != acc["by_index"][idx]:
                return bad(f"[]: tdf[{idx}] {got} differs from get_block({idx}) {acc['by_index'][idx]}")
        if not opaque_present:
            if acc["blocks"] != ("ok", table):
                return bad(f"blocks: {acc['blocks']} but table is {table}")
        for name, t in C.GETTERS.items():
            got = acc["get_" + name]
            if t in live:
                if got != ("ok", t):
                    return bad(f"getter {name}: {got} though type {t} is present")
            elif got[0] != "raised":
                return bad(f"getter {name}: returned {got} for an absent type")
        if acc["other_key"] != ("raised", "TypeError"):
            return bad(f"get_block('data3D'): {acc['other_key']} instead of TypeError")
        if s["model"] is not None and s["model"]["len"] != len(live):
            ctx.diff("tdf.len", f"{r.desc} step {i}: model live count {s['model']['len']} real {len(live)}", rep)


def gen_dup_history(rng):
    """repeated adds of one type, setter on present/absent, until the table is full"""
    kind = rng.choice(list(C.SETTERS.values()))
    prop = next(p for p, k in C.SETTERS.items() if k == kind)
    h = []
    for _ in range(rng.randrange(3, 9)):
        r = rng.random()
        spec = C.gen_spec(rng, kind)
        if r < 0.4:
            h.append((("add", None, None), spec))
        elif r < 0.7:
            h.append((("set", prop), spec))
        elif r < 0.85:
            h.append((("remove", A.BLOCKTYPE[kind]), None))
        else:
            h.append((("add", None, None), C.gen_spec(rng)))
    return h


def run(ctx):
    import sessions.c03 as c03
    orig = C.gen_history

    def mixed(rng, length, **kw):
        return gen_dup_history(rng) if rng.random() < 0.4 else orig(rng, length, **kw)
    C.gen_history = mixed
    try:
        import itertools
        for r in itertools.chain(C.explore(ctx, ctx.n(400, 6000), 10, c03.STYLES_WF, p_invalid=0.1, observe=observe),
                                 C.explore_equal_sizes_big(ctx, observe=observe)):
            ctx.case((r.desc, str(C.jsonable_hist(r.hist))), nontrivial=C.nontrivial_history(r),
                     sample=dict(start=r.desc, ops=[s["op"][0] + ":" + s["real"] for s in r.steps]), tags=C.history_tags(r))
            C.correspondence(ctx, r)
            C.judge_and_shrink(ctx, r, judge, observe=observe)
    finally:
        C.gen_history = orig


def replay(path):
    import common
    data = json.load(open(path))
    rc = 0
    for it in (data.get("failures") or []) + (data.get("broken_correspondence") or []):
        rp = it["replay"]
        if not rp.get("start"):
            continue
        C.Clock.install()
        import shutil
        import tempfile
        wd = tempfile.mkdtemp(prefix="vtdf")
        try:
            r = C.Run(bytes.fromhex(rp["start"]), wd)
            r.desc = rp.get("start_desc", "?")
            r.hist = [(tuple(op), spec) for op, spec in rp["history"]]
            r.open()
            for op, spec in r.hist:
                r.step(op, spec, observe=observe)
            r.finish()
            C.attach_model([r])
            for s, fc in zip(r.steps, C.file_checks([s["after"] for s in r.steps])):
                s["fc"] = fc
        finally:
            shutil.rmtree(wd, ignore_errors=True)
        c = common.Ctx("C11", "quick", 0)
        judge(c, r)
        print(r.desc, [s["op"][0] + ":" + s["real"] for s in r.steps], "->", "accessors agree" if not c.fails else c.fails[0]["what"])
        rc |= 1 if c.fails else 0
    return rc
