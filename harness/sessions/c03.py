"""C03 — any history of add/remove/replace/setters leaves a structurally sound file."""
import json

import container as C

RULE = ("exhaustive: all histories of length<=3 (thorough 4) over add/remove/replace of four blocks with IDENTICAL encoded sizes on tables of 3 and 14 slots; "
        "exhaustive: all histories of length<=2 (quick) / <=4 (thorough) over a 12-operation alphabet on empty tables of 1,2,3 slots; "
        "seeded histories (length<=12) of add/remove/replace/five setters/reopen, valid and invalid variants, on start files: "
        "fresh Tdf.new (N=14), pre-populated compact files with N in {1,2,3,5,14} incl. opaque blocks of undecodable types, well-formed NON-compact files (junk between and after the blocks), "
        "(thorough) the BTS capture; after EVERY call the file is read independently and judged by Lean's wfB; "
        "non-trivial = >=2 successful mutations incl. a remove/replace/setter; distinct by (start, history)")
ASSUMPTIONS = ["the THEOREMS start from compact files (what Tdf.new and BTS software write); well-formed files with junk between the blocks are covered by the correspondence of the byte-level model and by the wfB judge only",
               "unused slots of start files point at or beyond the end of all live data (a slot pointing INTO live data makes the first add overwrite it: C09 defines that convention)",
               "blocks satisfy C02 (declared size = bytes written)"]
STYLES = ["fresh", "n1", "n2", "n3", "n5", "n14", "n14"]       # compact start files (C09 needs these)
STYLES_WF = STYLES + ["gappy", "permuted"]      # + well-formed files that are NOT compact: junk between and after the blocks (foreign software)


def judge(ctx, r):
    a0 = C.absfile(r.start)
    for i, s in enumerate(r.steps):
        if s["real"] != "ok":
            continue
        a = C.absfile(s["after"])
        rep = C.replay_of(r, i)
        if a is None or a["version"] != a0["version"] or a["n"] != a0["n"]:
            ctx.fail(f"{r.desc} step {i} {s['op']}: signature/version/slot count changed", rep, ident="header changed")
            return
        if not s["fc"]["wf"]:
            ctx.fail(f"{r.desc} step {i} {s['op']}: file no longer well-formed (range outside file/table, overlap, or unused slot with size)", rep,
                     ident="not well-formed after " + s["op"][0])
            return


def run(ctx):
    import itertools
    styles = STYLES_WF + (["capture"] if ctx.thorough else [])
    # exhaustive: every history of length <= 2 (quick) / <= 4 (thorough) over a 12-symbol alphabet, on empty tables of 1, 2, 3 slots
    depth = 4 if ctx.thorough else 2
    gens = [C.explore(ctx, ctx.n(600, 6000), 12, styles, p_invalid=0.2)] + [C.explore_exhaustive(ctx, n, depth) for n in (1, 2, 3)] \
        + [C.explore_equal_sizes(ctx, depth=4 if ctx.thorough else 3), C.explore_boundary_sizes(ctx), C.explore_one_object(ctx, depth=5 if ctx.thorough else 4), C.explore_two_objects(ctx, ctx.n(200, 4000))]
    for r in itertools.chain(*gens):
        ctx.case((r.desc, str(C.jsonable_hist(r.hist))), nontrivial=C.nontrivial_history(r),
                 sample=dict(start=r.desc, ops=[s["op"][0] + ":" + s["real"] for s in r.steps]), tags=C.history_tags(r))
        if not r.fc_start["wf"]:
            raise RuntimeError(f"generator produced a start file that is not well-formed: {r.desc}")
        C.correspondence(ctx, r)
        C.judge_and_shrink(ctx, r, judge)
    ctx.notes.append(f"exhaustive part: all histories of length <= {depth} over 12 operations for N in {{1,2,3}}")


def replay(path):
    data = json.load(open(path))
    rc = 0
    for it in (data.get("failures") or []) + (data.get("broken_correspondence") or []):
        rp = it["replay"]
        if not rp.get("start"):
            print("history on", rp.get("start_desc"), "(start file too large to embed)")
            continue
        r = C.replay_history(rp)
        bad = [i for i, s in enumerate(r.steps) if s["real"] == "ok" and not s["fc"]["wf"]]
        print(r.desc, [s["op"][0] + ":" + s["real"] for s in r.steps], "->", "well-formed throughout" if not bad else f"NOT well-formed after step {bad[0]}")
        rc |= 1 if bad else 0
    return rc
