"""Abstract block values (the s-expressions the Lean model reads) <-> real basictdf objects.

  gen_*   : seeded generators of VALID abstract values (the quantifier of C01/C02/C05/C06/C12/C14)
  build   : abstract value -> real object, through the public constructors / add-methods
  absv    : real object -> abstract value (floats as bit patterns at on-disk width, gaps as None)
Schema (positional lists), mirrored by /verif/lean/TdfModel/Wire.lean:
  frame   : None | [u32 bits ...]                track : [label_cps, [frame ...]]
  data3d  : [fmt nFrames freq start vol3 rot9 tr3 flag [[a b]..] [track..]]
  emg     : [freq start nSamples [chan..] [track..]]         (1 component per frame)
  force3d : [freq start nFrames vol3 rot9 tr3 [track..]]     (9 components: ap, force, torque)
  platdata: [freq start nFrames [chan..] [[frame..]..]]      (6 components: ap2, force3, torque1)
  platcalib:[[chan..] [[label size2 pos12]..]]
  data2d  : [nCams nFrames freq start flags [cam..] [[cell..]..]]   cell: None | [[x y]..]
  calib   : [fmt dist vol3 rot9 tr3 [cam map..] [[f64 bits.. , vp4]..]]
  optical : [fmt [[idx lens type name vp4]..]]
  events  : [fmt start [[label kind [value..]]..]]
"""
import io
import math
import struct

import numpy as np

KINDS = ["data3d", "emg", "force3d", "platdata", "platcalib", "data2d", "calib", "optical", "events"]
BLOCKTYPE = dict(data3d=5, emg=11, force3d=12, platdata=9, platcalib=7, data2d=4, calib=2, optical=6, events=16)
NCOMP = dict(data3d=3, emg=1, force3d=9, platdata=6)

# ------------------------------------------------------------------ float helpers

def f32(bits):
    return np.array(bits, dtype="<u4").view("<f4")


def f64(bits):
    return np.array(bits, dtype="<u8").view("<f8")


def bits32(a):
    return [int(x) for x in np.ascontiguousarray(np.asarray(a).astype("<f4")).view("<u4").reshape(-1)]


def bits64(a):
    return [int(x) for x in np.ascontiguousarray(np.asarray(a).astype("<f8")).view("<u8").reshape(-1)]


def scalar32(x):
    return int(np.array(x, dtype="<f4").view("<u4"))


def is_nan32(b):
    return (b >> 23) & 0xFF == 0xFF and (b & 0x7FFFFF) != 0


def is_fin32(b):
    return (b >> 23) & 0xFF != 0xFF


SPECIAL32 = [0x00000000, 0x80000000, 0x00000001, 0x807FFFFF, 0x7F7FFFFF, 0xFF7FFFFF, 0x3F800000, 0xBF800000,
             0x00800000, 0x3DCCCCCD, 0x7F000000, 0x33D6BF95]


def gen_f32(rng, finite=True):
    r = rng.random()
    if r < 0.35:
        return rng.choice(SPECIAL32)
    if r < 0.45 and not finite:
        return rng.choice([0x7F800000, 0xFF800000])
    while True:
        b = rng.getrandbits(32)
        if is_fin32(b):
            return b


def gen_f64(rng):
    r = rng.random()
    if r < 0.3:
        return rng.choice([0, 1 << 63, 1, 0x7FEFFFFFFFFFFFFF, 0x3FF0000000000000, 0xBFF0000000000000, 0x000FFFFFFFFFFFFF])
    while True:
        b = rng.getrandbits(64)
        if (b >> 52) & 0x7FF != 0x7FF:
            return b


ASCII = list(range(0x20, 0x7F))
HIGH = [0xE9, 0xF1, 0xFF, 0xA0, 0x20AC, 0x2122, 0x178, 0x152, 0x160, 0x2026, 0xC7]


# texts that are valid in MORE THAN ONE encoding: the cp1252 reading of UTF-8 byte sequences ("mojibake" — what a label typed as é, µV, €
# or Cyrillic а looks like after a wrong turn), digits and signs that parse as numbers, blanks at either end, a text that is another
# label plus a blank. Each is an ordinary cp1252 string and must come back as the characters it is.
_SPECIAL_TEXTS = [t.encode("utf-8").decode("cp1252") for t in ("é", "µV", "€", "а", "ß", "ñ", "Déltoïde", "50 µV", "–", "™x")] + \
                 ["1", "007", "-1", "1e3", "0x10", "nan", "inf", "None", "True", " x", "x ", "  ", "x\t", "A", "a", "é", "e\u0301"[:1]]
LAST_LABELS = []          # labels generated recently: one label in eight repeats one of them (items of one block sharing a label, also "")


def gen_label(rng, width):
    r0 = rng.random()
    if r0 < 0.06:
        t = rng.choice(_SPECIAL_TEXTS)
        if len(t) < width:
            return [ord(c) for c in t]
    elif r0 < 0.18 and LAST_LABELS:
        t = rng.choice(LAST_LABELS[-4:])
        if len(t) < width:
            return list(t)
    lab = _gen_label(rng, width)
    LAST_LABELS.append(lab)
    if len(LAST_LABELS) > 32:
        del LAST_LABELS[:16]
    return lab


def _gen_label(rng, width):
    r = rng.random()
    if r < 0.12:
        n = 0
    elif r < 0.25:
        n = 1
    elif r < 0.35:
        n = width - 1
    elif r < 0.42:
        n = width - 2
    else:
        n = rng.randrange(0, min(width, 14))
    return [rng.choice(HIGH) if rng.random() < 0.2 else rng.choice(ASCII) for _ in range(n)]


def gen_mask(rng, n):
    """presence mask over n frames, shape-directed"""
    r = rng.random()
    if r < 0.25:
        return [True] * n
    if r < 0.32:
        return [False] * n
    if r < 0.42:                      # gap at the first / last frame
        m = [True] * n
        m[0] = False
        if rng.random() < 0.5:
            m[-1] = False
        return m
    if r < 0.52:                      # alternating
        return [(i + (r < 0.47)) % 2 == 0 for i in range(n)]
    p = rng.choice([0.1, 0.5, 0.9])
    m = []
    cur = rng.random() < 0.5
    for _ in range(n):
        if rng.random() < (0.3 if p == 0.5 else 0.15):
            cur = not cur
        m.append(cur if p != 0.1 else (cur and rng.random() < 0.7))
    return m


def gen_frames(rng, k, n, mask=None):
    mask = gen_mask(rng, n) if mask is None else mask
    out = []
    for present in mask:
        if not present:
            out.append(None)
        else:
            out.append([gen_f32(rng, finite=True)] + [gen_f32(rng, finite=rng.random() < 0.97) for _ in range(k - 1)])
    # data-dependent paths: a track at rest — every present row all zero (+0.0 or -0.0), or its FIRST component zero on every present
    # row, or the same row throughout
    r = rng.random()
    if r < 0.04:
        z = rng.choice([0, 0x80000000])
        out = [None if f is None else [z] * k for f in out]
    elif r < 0.08:
        out = [None if f is None else [0] + f[1:] for f in out]
    elif r < 0.11:
        first = next((f for f in out if f is not None), None)
        out = [None if f is None else list(first) for f in out]
    return out


# scale axis: when set, the frame count / the number of top-level items of the next generated block is forced
SCALE = dict(frames=None, items=None)
SCALE_FRAMES = [255, 256, 257, 1023, 1024, 1025, 4095, 4096, 4097, 65535, 65536, 65537]
SCALE_ITEMS = [15, 16, 17, 31, 32, 33, 63, 64, 65, 127, 128, 129, 255, 256, 257]


def gen_scaled(rng, kind):
    """a valid block at a size where thresholds, power-of-two buffers or narrow counters would sit: many frames with one or
    two items, or many items with one or two frames"""
    try:
        if kind in ("data3d", "emg", "force3d", "platdata") and rng.random() < 0.5:
            SCALE["frames"], SCALE["items"] = rng.choice(SCALE_FRAMES), rng.choice([1, 2])
        elif kind == "events" and rng.random() < 0.5:
            SCALE["frames"], SCALE["items"] = rng.choice(SCALE_FRAMES[:9]), rng.choice([1, 2])
        else:
            SCALE["frames"], SCALE["items"] = rng.choice([1, 2]), rng.choice(SCALE_ITEMS)
        return GEN[kind](rng)
    finally:
        SCALE["frames"] = SCALE["items"] = None


def items_count(rng, big=6):
    return SCALE["items"] if SCALE["items"] is not None else gen_count(rng, big)


def gen_count(rng, big=6):
    r = rng.random()
    if r < 0.12:
        return 0
    if r < 0.3:
        return 1
    return rng.randrange(2, big + 1)


def gen_nframes(rng, big):
    if SCALE["frames"] is not None:
        return SCALE["frames"]
    r = rng.random()
    if r < 0.15:
        return 1
    if r < 0.3:
        return 2
    return rng.randrange(3, big + 1)


def gen_i32(rng):
    return rng.choice([0, 1, 100, 1000, -1, 2 ** 31 - 1, -2 ** 31, rng.randrange(-2 ** 31, 2 ** 31)])


def gen_chans(rng, n, lo, hi):
    pool = set()
    base = rng.choice([0, 0, 1, lo, hi - n - 1, rng.randrange(lo, hi - n)])
    if rng.random() < 0.5:
        return [base + i for i in range(n)] if lo <= base and base + n <= hi else list(range(n))
    while len(pool) < n:
        pool.add(rng.choice([lo, hi - 1, 0, rng.randrange(lo, hi)]))
    out = list(pool)
    rng.shuffle(out)
    return out


def gen_vec(rng, n):
    return [gen_f32(rng) for _ in range(n)]


def gen_vp(rng):
    return [gen_i32(rng) for _ in range(4)]


# ------------------------------------------------------------------ generators

def gen_data3d(rng, big=12):
    n = gen_nframes(rng, big)
    fmt = rng.choice([1, 1, 2])
    links = []
    if fmt == 1 and rng.random() < 0.6:
        links = [[rng.choice([0, 1, 2 ** 32 - 1, rng.randrange(2 ** 32)]), rng.randrange(0, 40)] for _ in range(rng.randrange(0, 5))]
    return [fmt, n, gen_i32(rng), gen_f32(rng), gen_vec(rng, 3), gen_vec(rng, 9), gen_vec(rng, 3), rng.choice([0, 1]),
            links, [[gen_label(rng, 256), gen_frames(rng, 3, n)] for _ in range(items_count(rng))]]


def gen_emg(rng, big=12):
    n = gen_nframes(rng, big)
    k = items_count(rng)
    return [gen_i32(rng), gen_f32(rng), n, gen_chans(rng, k, -32768, 32768),
            [[gen_label(rng, 256), gen_frames(rng, 1, n)] for _ in range(k)]]


def gen_force3d(rng, big=10):
    n = gen_nframes(rng, big)
    return [gen_i32(rng), gen_f32(rng), n, gen_vec(rng, 3), gen_vec(rng, 9), gen_vec(rng, 3),
            [[gen_label(rng, 256), gen_frames(rng, 9, n)] for _ in range(items_count(rng, 4))]]


def gen_platdata(rng, big=12):
    n = gen_nframes(rng, big)
    k = items_count(rng, 4)
    return [gen_i32(rng), gen_f32(rng), n, gen_chans(rng, k, 0, 65536), [gen_frames(rng, 6, n) for _ in range(k)]]


def gen_platcalib(rng):
    k = items_count(rng, 4)
    return [gen_chans(rng, k, -32768, 32768), [[gen_label(rng, 256), gen_vec(rng, 2), gen_vec(rng, 12)] for _ in range(k)]]


def gen_data2d(rng, big=5, force_boundary=None):
    nc = gen_count(rng, 4)
    nf = items_count(rng, big)
    rows = []
    # the per-cell point count is a u16: now and then one cell sits at a boundary of 8/16-bit arithmetic
    boundary = rng.choice([255, 256, 257, 4095, 4096, 8191, 8192, 8193, 32767, 32768, 65535]) if rng.random() < 0.06 else None
    if force_boundary is not None:
        boundary, nc, nf = force_boundary, max(nc, 1), max(nf, 1)
    for _ in range(nf):
        row = []
        for _ in range(nc):
            if rng.random() < 0.35 and not (force_boundary is not None and boundary is not None):
                row.append(None)
            elif boundary is not None:
                x, y = gen_f32(rng), gen_f32(rng)
                row.append([[x, y]] * (boundary - 1) + [[gen_f32(rng), gen_f32(rng)]])
                boundary = None
            else:
                row.append([[gen_f32(rng), gen_f32(rng)] for _ in range(rng.choice([1, 1, 2, 3, 5]))])
        rows.append(row)
    return [nc, nf, gen_i32(rng), gen_f32(rng), rng.choice([0, 1]), gen_chans(rng, nc, 0, 32768), rows]


def corner_cases(rng):
    """blocks every run of a block session includes whatever its size and seed: values at the boundaries of the format's and numpy's
    fixed-width arithmetic that a random draw reaches only now and then (a 2D cell of 8 192, 8 193, 65 535 points: 8 bytes per point
    wrap a 16-bit product from 8 192 on)"""
    return [("data2d", gen_data2d(rng, big=2, force_boundary=b)) for b in (8192, 8193, 65535)]


def gen_calib(rng):
    fmt = rng.choice([1, 2])
    k = items_count(rng, 3)
    nfl = 22 if fmt == 1 else 156
    return [fmt, rng.randrange(0, 4), gen_vec(rng, 3), gen_vec(rng, 9), gen_vec(rng, 3), gen_chans(rng, k, -32768, 32768),
            [[[gen_f64(rng) for _ in range(nfl)], gen_vp(rng)] for _ in range(k)]]


def gen_optical(rng):
    return [rng.choice([1, 1, 1, 0]), [[gen_i32(rng), gen_label(rng, 32), gen_label(rng, 32), gen_label(rng, 32), gen_vp(rng)]
                                        for _ in range(items_count(rng, 5))]]


def gen_events(rng):
    evs = []
    for _ in range(items_count(rng, 5)):
        kind = rng.choice([0, 1])
        nv = rng.choice([0, 1]) if kind == 0 else rng.choice([0, 1, 2, 5, 5, 64, 255, 256, 300] if rng.random() < 0.1 else [0, 1, 2, 5])
        if kind == 1 and SCALE["frames"] is not None and SCALE["frames"] > 2:
            nv = SCALE["frames"]
        evs.append([gen_label(rng, 256), kind, [gen_f32(rng) for _ in range(nv)]])
    return [rng.choice([1, 1, 1, 0]), gen_f32(rng), evs]


GEN = dict(data3d=gen_data3d, emg=gen_emg, force3d=gen_force3d, platdata=gen_platdata, platcalib=gen_platcalib,
           data2d=gen_data2d, calib=gen_calib, optical=gen_optical, events=gen_events)


def nontrivial(kind, v):
    """>= 2 items, or >= 1 gap, or links, or a None cell, or the BTS camera format"""
    if kind in ("data3d", "emg", "force3d"):
        tracks = v[-1]
        return len(tracks) >= 2 or any(f is None for t in tracks for f in t[1]) or (kind == "data3d" and bool(v[8]))
    if kind == "platdata":
        return len(v[4]) >= 2 or any(f is None for p in v[4] for f in p)
    if kind == "platcalib":
        return len(v[1]) >= 2
    if kind == "data2d":
        return any(c is None for r in v[6] for c in r) or len(v[6]) * v[0] >= 2
    if kind == "calib":
        return v[0] == 2 or len(v[6]) >= 2
    return len(v[-1]) >= 2


# ------------------------------------------------------------------ build real objects

def text(cps):
    return "".join(chr(c) for c in cps)


def frames_array(frames, k, wide=False):
    n = len(frames)
    a = np.full((n, k), np.nan, dtype="<f4")
    for i, f in enumerate(frames):
        if f is not None:
            a[i, :] = f32(f)
    return a.astype("<f8") if wide else a


# provenance axis: the SAME values handed over as arrays a user may well hold - read from a big-endian source, Fortran-ordered,
# every second element of a larger array, read-only. What is written must not depend on it.
_USER_SUBCLASSES = {}


def as_user_subclass(obj):
    """the same object as an instance of a USER-DEFINED subclass of its library class (`class GaitMarkers(Data3D): pass` — what
    applications do to attach their own helpers): it is a block / track / event of that kind in every respect"""
    cls = type(obj)
    if cls not in _USER_SUBCLASSES:
        _USER_SUBCLASSES[cls] = type("My" + cls.__name__, (cls,), {"__doc__": "user-defined subclass", "describe": lambda self: "mine"})
    try:
        obj.__class__ = _USER_SUBCLASSES[cls]
    except TypeError:
        pass
    return obj


PROVENANCES = ["be", "fortran", "strided", "readonly"]
PROV = [None]


# scalar-type axis: header scalars, channels and indices handed over as numpy scalars (what arithmetic on arrays and decoded
# fields gives) or as plain python numbers - the same VALUES either way
SCALARS = [None]


def si(x):
    """an integer argument"""
    how = SCALARS[0]
    if how == "np":
        return np.int64(x) if x % 2 else (np.int32(x) if -2 ** 31 <= x < 2 ** 31 else np.int64(x))
    return x


class StrSub(str):
    """text held as an instance of a str subclass whose str()/repr()/format() do NOT give the text back — what a member of
    `class Marker(str, Enum)` is: the characters of the string are its value, str(x) is 'Marker.X'"""

    def __str__(self):
        return "StrSub." + str.__str__(self).upper()

    def __repr__(self):
        return "<StrSub %s>" % str.__repr__(self)

    def __format__(self, spec):
        return format(self.__str__(), spec)


def sl(s):
    """a label / name argument: the same text as a plain str, as numpy's str_ (what indexing an array of labels gives) or as a str subclass"""
    how = SCALARS[0]
    if how == "np" and not s.endswith("\0"):
        return np.str_(s)
    if how == "py":
        return StrSub(s)
    return s


def sf(bits):
    """a float32-valued scalar argument given as bit pattern"""
    v = f32(bits)[()]
    how = SCALARS[0]
    if how == "np":
        return np.float64(v)
    if how == "py":
        return float(v)
    return v


def pv(a):
    how = PROV[0]
    a = np.asarray(a)
    if how is None or a.dtype == object:
        return a
    if how == "be":
        return a.astype(a.dtype.newbyteorder(">"))
    if how == "fortran":
        return np.asfortranarray(a)
    if how == "readonly":
        a = a.copy()
        a.setflags(write=False)
        return a
    if a.ndim == 0:
        return a
    big = np.zeros(tuple(2 * e for e in a.shape), dtype=a.dtype)
    v = big[tuple(slice(None, None, 2) for _ in a.shape)]
    v[...] = a
    return v


def viewport(vp, style=0):
    from basictdf.tdfTypes import CameraViewPort
    o = pv(np.array(vp[:2], dtype="<i4"))
    s = pv(np.array(vp[2:], dtype="<i4"))
    if style == 1:
        return pv(np.array([vp[:2], vp[2:]], dtype="<i4"))   # (2,2) array accepted by the item constructors
    return CameraViewPort(o, s)


def build(kind, v, wide=False, vpstyle=0, prov=None, scalars=None):
    """abstract value -> real block object (public constructors and add-methods); prov: see PROVENANCES; scalars: None | "np" | "py" """
    PROV[0], SCALARS[0] = prov, scalars
    try:
        return _build(kind, v, wide, vpstyle)
    finally:
        PROV[0] = SCALARS[0] = None


def _build(kind, v, wide=False, vpstyle=0):
    if kind == "data3d":
        from basictdf.tdfData3D import Data3D, Data3dBlockFormat, Flags, LinkType, MarkerTrack
        fmt, n, freq, st, vol, rot, tr, flag, links, tracks = v
        d = Data3D(si(freq), si(n), pv(f32(vol)), pv(f32(rot).reshape(3, 3)), pv(f32(tr)), sf(st), Flags(flag), Data3dBlockFormat(fmt))
        for label, frames in tracks:
            d.add_track(MarkerTrack(sl(text(label)), pv(frames_array(frames, 3, wide))))
        if links or (fmt == 1 and len(tracks) % 2 == 1):
            d.links = np.array([tuple(l) for l in links], dtype=LinkType.btype)
        return d
    if kind == "emg":
        from basictdf.tdfEMG import EMG, EMGTrack
        freq, st, n, chans, tracks = v
        d = EMG(si(freq), si(n), sf(st))
        for ch, (label, frames) in zip(chans, tracks):
            d.addSignal(EMGTrack(sl(text(label)), pv(frames_array(frames, 1, wide)[:, 0])), channel=si(ch))
        return d
    if kind == "force3d":
        from basictdf.tdfForce3D import ForceTorque3D, ForceTorqueTrack
        freq, st, n, vol, rot, tr, tracks = v
        d = ForceTorque3D(si(freq), si(n), pv(f32(vol)), pv(f32(rot).reshape(3, 3)), pv(f32(tr)), sf(st))
        for label, frames in tracks:
            a = frames_array(frames, 9, wide)
            d.add_track(ForceTorqueTrack(sl(text(label)), pv(a[:, 0:3].copy()), pv(a[:, 3:6].copy()), pv(a[:, 6:9].copy())))
        return d
    if kind == "platdata":
        from basictdf.tdfForcePlatformsData import ForcePlatformData, ForcePlatformsDataBlock
        freq, st, n, chans, plats = v
        d = ForcePlatformsDataBlock(sf(st), si(freq), si(n))
        for ch, frames in zip(chans, plats):
            a = frames_array(frames, 6, wide)
            d.add_platform(ForcePlatformData(pv(a[:, 0:2].copy()), pv(a[:, 2:5].copy()), pv(a[:, 5].copy())), channel=si(ch))
        return d
    if kind == "platcalib":
        from basictdf.tdfForcePlatformsCalibration import ForcePlatformInfo, ForcePlatformsCalibrationDataBlock
        chans, plats = v
        d = ForcePlatformsCalibrationDataBlock()
        for ch, (label, size, pos) in zip(chans, plats):
            d.add_platform(ForcePlatformInfo(sl(text(label)), pv(f32(size)), pv(f32(pos).reshape(4, 3))), channel=si(ch))
        return d
    if kind == "data2d":
        from basictdf.tdfData2D import Data2D, Data2DFlags
        nc, nf, freq, st, flags, cam_map, rows = v
        data = np.empty((nf, nc), dtype=object)
        for i, row in enumerate(rows):
            for j, cell in enumerate(row):
                if cell is not None:
                    a = f32([c for p in cell for c in p]).reshape(-1, 2)
                    data[i, j] = pv(a.astype("<f8") if wide else a)
        if nc == 0:
            d = Data2D(si(nc), si(nf), si(freq), sf(st), Data2DFlags(flags))
        else:
            # the camera map has no public setter: the only public way to get a block with a map is to decode one.
            # Header + map + an all-empty count table are produced here with struct; the point data then comes in
            # through the public `data` setter, so that what `_write` emits is built from OUR arrays.
            hdr = struct.pack("<iiiII", nc, nf, freq, st, flags) + struct.pack(f"<{nc}H", *cam_map) + b"\x00\x00" * (nc * nf)
            d = Data2D._build(io.BytesIO(hdr), 2)
        d.data = data
        return d
    if kind == "calib":
        from basictdf.tdfCalibrationData import (BTSCameraData, CalibrationDataBlock, CalibrationDataBlockFormat,
                                                 DistorsionModel, SeelabCameraData)
        fmt, dist, vol, rot, tr, cam_map, cams = v
        cd = []
        for fl, vp in cams:
            a = f64(fl)
            if fmt == 1:
                cd.append(SeelabCameraData(pv(a[0:9].reshape(3, 3)), pv(a[9:12]), pv(a[12:14]), pv(a[14:16]), pv(a[16:18]), pv(a[18:20]), pv(a[20:22]),
                                           viewport(vp, vpstyle)))
            else:
                cd.append(BTSCameraData(pv(a[0:9].reshape(3, 3)), pv(a[9:12]), pv(a[12:14]), pv(a[14:16]), pv(a[16:86]), pv(a[86:156]), viewport(vp, vpstyle)))
        return CalibrationDataBlock(DistorsionModel(dist), pv(f32(vol)), pv(f32(rot).reshape(3, 3)), pv(f32(tr)),
                                    pv(np.array(cam_map, dtype="<i2")), cd, CalibrationDataBlockFormat(fmt))
    if kind == "optical":
        from basictdf.tdfOpticalSystem import OpticalChannelData, OpticalSetupBlock, OpticalSetupBlockFormat
        fmt, chans = v
        return OpticalSetupBlock(OpticalSetupBlockFormat(fmt),
                                 [OpticalChannelData(si(idx), sl(text(l)), sl(text(t)), sl(text(nm)), viewport(vp, vpstyle)) for idx, l, t, nm, vp in chans])
    if kind == "events":
        from basictdf.tdfEvents import Event, EventsDataType, TemporalEventsData, TemporalEventsDataFormat
        fmt, st, evs = v
        d = TemporalEventsData(TemporalEventsDataFormat(fmt), sf(st))
        d.events = [Event(sl(text(l)), pv(f32(vals)), EventsDataType(k)) for l, k, vals in evs]
        return d
    raise KeyError(kind)


# ------------------------------------------------------------------ abstract real objects

def cps(s):
    return [ord(c) for c in s]


def abs_frames(a, k):
    """(n,k) float array -> frames; a row is missing iff every component is NaN"""
    a = np.asarray(a)
    b = np.ascontiguousarray(a.astype("<f4")).reshape(len(a), k)
    u = b.view("<u4")
    nan = np.isnan(b)
    out = []
    for i in range(len(a)):
        if nan[i].all():
            out.append(None)
        else:
            out.append([int(x) for x in u[i]])
    return out


def raw_rows(a, k):
    """(n,k) float array -> every row as k float32 bit patterns, whatever it holds (the model's `see` decides presence)"""
    b = np.ascontiguousarray(np.asarray(a).astype("<f4")).reshape(-1, k)
    return [[int(x) for x in row] for row in b.view("<u4")]


def abs_vp(vp):
    return [int(x) for x in np.asarray(vp.origin).reshape(-1)] + [int(x) for x in np.asarray(vp.size).reshape(-1)]


def encode(obj):
    b = io.BytesIO()
    obj._write(b)
    return b.getvalue()


def absv(kind, d):
    """real block object -> abstract value. Channel maps without a public accessor (EMG, Data2D) are read
    from the object's own encoding, which is the only place they are observable."""
    if kind == "data3d":
        links = [[int(a), int(b)] for a, b in d.links] if hasattr(d, "links") else []
        return [d.format.value, int(d.nFrames), int(d.frequency), scalar32(d.startTime), bits32(d.volume), bits32(d.rotationMatrix),
                bits32(d.translationVector), d.flag.value, links, [[cps(t.label), abs_frames(t.data, 3)] for t in d]]
    if kind == "emg":
        enc = encode(d)
        n = len(d)
        chans = list(struct.unpack(f"<{n}h", enc[16:16 + 2 * n]))
        return [int(d.frequency), scalar32(d.startTime), int(d.nSamples), chans,
                [[cps(t.label), abs_frames(np.asarray(t.data).reshape(-1, 1), 1)] for t in d]]
    if kind == "force3d":
        return [int(d.frequency), scalar32(d.startTime), int(d.nFrames), bits32(d.volume), bits32(d.rotationMatrix),
                bits32(d.translationVector),
                [[cps(t.label), abs_frames(np.concatenate([np.asarray(t.application_point), np.asarray(t.force), np.asarray(t.torque)], axis=1), 9)]
                 for t in d]]
    if kind == "platdata":
        pairs = list(d)
        return [int(d.frequency), scalar32(d.start_time), int(d.n_frames), [int(c) for c, _ in pairs],
                [abs_frames(np.concatenate([np.asarray(p.application_point), np.asarray(p.force), np.asarray(p.torque).reshape(-1, 1)], axis=1), 6)
                 for _, p in pairs]]
    if kind == "platcalib":
        pairs = d.platforms
        return [[int(c) for c, _ in pairs], [[cps(p.label), bits32(p.size), bits32(p.position)] for _, p in pairs]]
    if kind == "data2d":
        enc = encode(d)
        nc = int(d.nCams)
        cam_map = list(struct.unpack(f"<{nc}H", enc[20:20 + 2 * nc]))
        rows = []
        for i in range(int(d.nFrames)):
            row = []
            for j in range(nc):
                c = d.data[i, j]
                row.append(None if c is None else [bits32(p) for p in np.asarray(c).reshape(-1, 2)])
            rows.append(row)
        return [nc, int(d.nFrames), int(d.frequency), scalar32(d.startTime), d.flags.value, cam_map, rows]
    if kind == "calib":
        cams = []
        for c in d.cam_data:
            parts = [c.rotation_matrix, c.translation_vector, c.focus, c.optical_center]
            if d.format.value == 1:
                parts += [c.radial_distortion, c.decentering, c.thin_prism]
            else:
                parts += [c.x_distortion_coefficients, c.y_distortion_coefficients]
            cams.append([[b for p in parts for b in bits64(p)], abs_vp(c.view_port)])
        return [d.format.value, int(d.distorsion_model), bits32(d.calibration_volume_size), bits32(d.calibration_volume_rotation_matrix),
                bits32(d.calibration_volume_translation_vector), [int(x) for x in d.cameras_calibration_map], cams]
    if kind == "optical":
        return [d.format.value, [[int(c.logical_camera_index), cps(c.lens_name), cps(c.camera_type), cps(c.camera_name), abs_vp(c.camera_viewport)]
                                 for c in d]]
    if kind == "events":
        return [d.format.value, scalar32(d.start_time), [[cps(e.label), e.type.value, bits32(e.values)] for e in d]]
    raise KeyError(kind)


def klass(kind):
    import basictdf.tdfCalibrationData as c
    import basictdf.tdfData2D as d2
    import basictdf.tdfData3D as d3
    import basictdf.tdfEMG as e
    import basictdf.tdfEvents as ev
    import basictdf.tdfForce3D as f3
    import basictdf.tdfForcePlatformsCalibration as pc
    import basictdf.tdfForcePlatformsData as pd
    import basictdf.tdfOpticalSystem as o
    return dict(data3d=d3.Data3D, emg=e.EMG, force3d=f3.ForceTorque3D, platdata=pd.ForcePlatformsDataBlock,
                platcalib=pc.ForcePlatformsCalibrationDataBlock, data2d=d2.Data2D, calib=c.CalibrationDataBlock,
                optical=o.OpticalSetupBlock, events=ev.TemporalEventsData)[kind]


def fmt_of(kind, v):
    return {"data3d": lambda: v[0], "emg": lambda: 1, "force3d": lambda: 1, "platdata": lambda: 1, "platcalib": lambda: 2,
            "data2d": lambda: 2, "calib": lambda: v[0], "optical": lambda: v[0], "events": lambda: v[0]}[kind]()


def norm(x):
    """tuples -> lists, for comparing abstract values that travelled through the wire"""
    if isinstance(x, (list, tuple)):
        return [norm(y) for y in x]
    if x is None or (isinstance(x, str) and x == "none"):
        return None
    return x
