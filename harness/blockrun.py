"""Runs block cases on the real library and on the Lean model; returns paired observations.
Used by the sessions of C01 C02 C05 C06 C12 C14."""
import io

import absval as A
import common
from sx import Sym

SENTINEL = bytes([0xA5, 0x5A, 0x00, 0xFF, 0x81, 0x7F, 0x33])


def items_of(kind, obj):
    """nested items with their own nBytes/_write, as (item, write_fn)"""
    def w(it):
        b = io.BytesIO()
        it._write(b)
        return b.getvalue()
    if kind in ("data3d", "emg", "force3d", "events"):
        return [(it, w) for it in obj]
    if kind == "platdata":
        def wp(it):
            b = io.BytesIO()
            it._write(b, obj.format)
            return b.getvalue()
        return [(p, wp) for _, p in obj]
    if kind == "platcalib":
        return [(p, w) for _, p in obj.platforms]
    if kind == "calib":
        return [(c, w) for c in obj.cam_data]
    if kind == "optical":
        return [(c, w) for c in obj]
    if kind == "data2d":
        inner = getattr(obj, "_data", None)      # the packed-points item has no public name; skipped if it is renamed
        return [(inner, w)] if inner is not None and hasattr(inner, "nBytes") else []
    return []


def real_side(kind, v, wide=False, vpstyle=0, tail=SENTINEL, prov=None):
    r = dict(stage="build")
    try:
        obj = A.build(kind, v, wide=wide, vpstyle=vpstyle, prov=prov)
        r["stage"] = "abs0"
        r["abs0"] = A.norm(A.absv(kind, obj))
        r["stage"] = "nbytes"
        r["nbytes"] = int(obj.nBytes)
        r["stage"] = "write"
        r["enc"] = A.encode(obj)
        r["stage"] = "items"
        r["items"] = [(int(it.nBytes), len(wf(it))) for it, wf in items_of(kind, obj)]
        r["stage"] = "decode"
        st = io.BytesIO(r["enc"] + tail)
        dec = A.klass(kind)._build(st, obj.format.value)
        r["tell"] = st.tell()
        r["stage"] = "abs1"
        r["dec_abs"] = A.norm(A.absv(kind, dec))
        r["stage"] = "nbytes1"
        r["dec_nbytes"] = int(dec.nBytes)
        r["stage"] = "rewrite"
        r["reenc"] = A.encode(dec)
        r["stage"] = "done"
        r["obj"], r["dec"] = obj, dec
    except Exception as e:  # recorded, judged by the session
        r["exc"] = f"{type(e).__name__}: {e}"
    return r


def model_side(cases, tail=SENTINEL):
    """cases: list of (kind, v). returns list of dict(enc,size,valid,fmt,dec_abs,consumed,mask)"""
    encs = common.drv_batch([[Sym("blk.enc"), Sym(k), v] for k, v in cases])
    out = []
    dec_cmds = []
    for (k, v), e in zip(cases, encs):
        out.append(dict(enc=e[1], size=e[2], valid=e[3] == 1, fmt=e[4]))
        dec_cmds.append([Sym("blk.dec"), Sym(k), e[4], e[1] + tail])
    decs = common.drv_batch(dec_cmds)
    for o, d in zip(out, decs):
        if d[0] == "ok":
            o["dec_abs"] = A.norm(d[1])
            o["consumed"] = d[2]
            o["mask"] = d[3]
        else:
            o["dec_abs"] = None
            o["consumed"] = None
            o["mask"] = None
    return out


def model_decode(kind, fmt, data):
    d = common.drv_batch([[Sym("blk.dec"), Sym(kind), fmt, data]])[0]
    if d[0] == "ok":
        return dict(ok=True, abs=A.norm(d[1]), consumed=d[2], mask=d[3])
    return dict(ok=False)


def gen_cases(ctx, n, kinds=A.KINDS, big=False):
    cases = []
    for i in range(n):
        kind = kinds[i % len(kinds)]
        g = A.GEN[kind]
        if ctx.rng.random() < (0.08 if big else 0.02):
            cases.append((kind, A.gen_scaled(ctx.rng, kind)))      # the scale axis: 255 ... 65537 frames, 15 ... 257 items
            continue
        if big and kind in ("data3d", "emg", "force3d", "platdata") and ctx.rng.random() < 0.15:
            v = g(ctx.rng, big=ctx.rng.choice([60, 300]))
        else:
            v = g(ctx.rng)
        cases.append((kind, v))
    return cases


def shape_tags(kind, v):
    tags = [kind]
    items = v[-1] if kind != "data2d" else v[6]
    tags.append(f"items={min(len(items), 3)}{'+' if len(items) > 3 else ''}")
    if len(items) >= 15:
        tags.append("scale:items>=15")
    nfr = {"data3d": 1, "emg": 2, "force3d": 2, "platdata": 2}.get(kind)
    if nfr is not None and v[nfr] >= 255:
        tags.append("scale:frames>=255")
    if kind in A.NCOMP:
        fl = [f for t in (v[-1]) for f in (t[1] if kind != "platdata" else t)]
        if any(f is None for f in fl):
            tags.append("has-gap")
    return tags
