"""Runs block cases on the real library and on the Lean model; returns paired observations.
Used by the sessions of C01 C02 C05 C06 C12 C14."""
import io

import numpy as np

import absval as A
import common
from sx import Sym

SENTINEL = bytes([0xA5, 0x5A, 0x00, 0xFF, 0x81, 0x7F, 0x33])


def items_of(kind, obj):
    """nested items with their own nBytes/_write, as (item, write_fn)"""
    def w(it):
        b = io.BytesIO()
        it._write(b)
        return b.getvalue()
    if kind in ("data3d", "emg", "force3d", "events"):
        return [(it, w) for it in obj]
    if kind == "platdata":
        def wp(it):
            b = io.BytesIO()
            it._write(b, obj.format)
            return b.getvalue()
        return [(p, wp) for _, p in obj]
    if kind == "platcalib":
        return [(p, w) for _, p in obj.platforms]
    if kind == "calib":
        return [(c, w) for c in obj.cam_data]
    if kind == "optical":
        return [(c, w) for c in obj]
    if kind == "data2d":
        inner = getattr(obj, "_data", None)      # the packed-points item has no public name; skipped if it is renamed
        return [(inner, w)] if inner is not None and hasattr(inner, "nBytes") else []
    return []


def observe_obj(kind, obj, tail=SENTINEL, touch=False):
    """everything the block sessions look at, for an object that already exists (fresh, or used and edited before)"""
    r = dict(stage="abs0")
    try:
        if touch:
            # what any program does with a block before it writes it: print it, ask for its size, walk over it, compare it
            for f in (lambda: repr(obj), lambda: [repr(it) for it, _ in items_of(kind, obj)], lambda: obj == obj, lambda: int(obj.nBytes),
                      lambda: [int(it.nBytes) for it, _ in items_of(kind, obj)]):
                try:
                    f()
                except Exception:
                    pass
        r["abs0"] = A.norm(A.absv(kind, obj))
        r["stage"] = "nbytes"
        r["nbytes"] = int(obj.nBytes)
        r["stage"] = "write"
        r["enc"] = A.encode(obj)
        r["stage"] = "items"
        r["items"] = [(int(it.nBytes), len(wf(it))) for it, wf in items_of(kind, obj)]
        r["stage"] = "decode"
        st = io.BytesIO(r["enc"] + tail)
        dec = A.klass(kind)._build(st, obj.format.value)
        r["tell"] = st.tell()
        r["stage"] = "abs1"
        r["dec_abs"] = A.norm(A.absv(kind, dec))
        r["stage"] = "nbytes1"
        r["dec_nbytes"] = int(dec.nBytes)
        r["stage"] = "rewrite"
        r["reenc"] = A.encode(dec)
        r["stage"] = "done"
    except Exception as e:  # recorded, judged by the session
        r["exc"] = f"{type(e).__name__}: {e}"
    return r


def real_side(kind, v, wide=False, vpstyle=0, tail=SENTINEL, prov=None, scalars=None):
    try:
        obj = A.build(kind, v, wide=wide, vpstyle=vpstyle, prov=prov, scalars=scalars)
    except Exception as e:
        return dict(stage="build", exc=f"{type(e).__name__}: {e}")
    return observe_obj(kind, obj, tail)


# ------------------------------------------------------------------ object life cycle: use, edit in place, use again

def _w(obj, attr, idx, val):
    """in-place write into an array attribute (an edited copy is assigned when the array is read-only)"""
    a = getattr(obj, attr)
    if not a.flags.writeable:
        a = a.copy()
        setattr(obj, attr, a)
    a[idx] = val


FAR = [False]      # when set, new sample values are of ordinary magnitude (1 .. 1e6): far beyond any comparison tolerance from
                   # each other and from the special values (0, denormals) the generators like


def _fin(rng):
    if FAR[0]:
        return np.float32(rng.choice([-1, 1]) * rng.uniform(1.0, 1e6))
    return A.f32([A.gen_f32(rng, finite=True)])[0]


TRACK_ARRAYS = dict(data3d=["data"], emg=["data"], force3d=["application_point", "force", "torque"],
                    platdata=["application_point", "force", "torque"])


def apply_edit(kind, obj, rng):
    """ONE edit through public attributes that keeps the block valid (a sample poked, a gap filled, a frame blanked, a label,
    a header field, a nested viewport component, a whole array replaced). Returns a description, or None if nothing applies."""
    items = [it for it, _ in items_of(kind, obj)] if kind != "data2d" else []
    r = rng.random()
    if kind in TRACK_ARRAYS:
        if items and r < 0.75:
            it = rng.choice(items)
            attrs = TRACK_ARRAYS[kind]
            n = len(getattr(it, attrs[0]))
            if n == 0:
                return None
            i = rng.randrange(n)
            missing = all(np.isnan(np.asarray(getattr(it, a))[i]).all() for a in attrs)
            how = "fill" if missing else rng.choice(["blank", "poke", "poke", "replace-array", "nudge"])
            flip = rng.choice([None, None, "<f8", "<f4"])
            for a in attrs:
                arr = getattr(it, a)
                row = arr[i]
                if how == "nudge":
                    # the smallest possible change: every component moves to the NEXT float32 (far inside any tolerance)
                    cur = np.asarray(arr[i], dtype="<f4")
                    nxt = np.nextafter(cur, np.float32(np.inf), dtype="<f4")
                    _w(it, a, i, np.where(np.isfinite(nxt), nxt, cur) if np.ndim(row) else (nxt if np.isfinite(nxt) else cur))
                elif how == "blank":
                    _w(it, a, i, np.nan)
                elif how == "replace-array":
                    # a NEW array object, now and then of the other float width (float32 <-> float64: both are accepted)
                    new = np.array(arr, copy=True).astype(flip) if flip else np.array(arr, copy=True)
                    new[i] = [_fin(rng) for _ in range(np.size(row))] if np.ndim(row) else _fin(rng)
                    setattr(it, a, new)
                else:
                    _w(it, a, i, [_fin(rng) for _ in range(np.size(row))] if np.ndim(row) else _fin(rng))
            return f"{how} frame {i} of item {items.index(it)}"
        if items and r < 0.85 and kind != "platdata":
            it = rng.choice(items)
            it.label = A.text(A.gen_label(rng, 256))
            return f"relabel item {items.index(it)}"
        if kind in ("data3d", "force3d") and r < 0.93:
            _w(obj, rng.choice(["volume", "translationVector"]), rng.randrange(3), _fin(rng))
            return "poke geometry"
        obj.frequency = int(rng.choice([1, 50, 100, 1000, 2 ** 31 - 1]))
        return "frequency"
    if kind == "optical":
        if not items:
            obj.format = type(obj.format)(1 - obj.format.value) if obj.format.value in (0, 1) else obj.format
            return "format"
        c = rng.choice(items)
        k = items.index(c)
        if r < 0.3:
            setattr(c.camera_viewport, rng.choice(["origin", "size"]), np.array([A.gen_i32(rng), A.gen_i32(rng)], dtype="<i4"))
            return f"channel {k}: viewport half assigned"
        if r < 0.55:
            half = rng.choice(["origin", "size"])
            _w(c.camera_viewport, half, rng.randrange(2), A.gen_i32(rng))
            return f"channel {k}: viewport component poked"
        if r < 0.7:
            c.camera_viewport = A.viewport(A.gen_vp(rng))
            return f"channel {k}: viewport replaced"
        if r < 0.85:
            setattr(c, rng.choice(["lens_name", "camera_type", "camera_name"]), A.text(A.gen_label(rng, 32)))
            return f"channel {k}: name"
        c.logical_camera_index = A.gen_i32(rng)
        return f"channel {k}: index"
    if kind == "events":
        if items and r < 0.8:
            e = rng.choice(items)
            if len(e.values) and r < 0.35:
                _w(e, "values", rng.randrange(len(e.values)), _fin(rng))
                return "event value poked"
            if r < 0.55:
                # the values attribute re-assigned: a float64 array (what np.append / arithmetic give), same or one more value
                vals = np.asarray(e.values, dtype="<f8")
                if e.type.value == 1 or len(vals) == 0:
                    vals = np.append(vals, float(_fin(rng)))
                e.values = vals
                return "event values re-assigned (float64)"
            e.label = A.text(A.gen_label(rng, 256))
            return "event relabelled"
        obj.start_time = _fin(rng)
        return "start_time"
    if kind == "platcalib":
        if not items:
            return None
        p_ = rng.choice(items)
        if r < 0.4:
            _w(p_, "position", (rng.randrange(4), rng.randrange(3)), _fin(rng))
            return "platform position poked"
        if r < 0.7:
            _w(p_, "size", rng.randrange(2), _fin(rng))
            return "platform size poked"
        p_.label = A.text(A.gen_label(rng, 256))
        return "platform relabelled"
    if kind == "calib":
        if items and r < 0.7:
            c = rng.choice(items)
            if r < 0.3:
                _w(c.view_port, rng.choice(["origin", "size"]), rng.randrange(2), A.gen_i32(rng))
                return "camera viewport component poked"
            _w(c, rng.choice(["focus", "optical_center", "translation_vector"]), 0, float(_fin(rng)) if FAR[0] else float(A.f64([A.gen_f64(rng)])[0]))
            return "camera parameter poked"
        _w(obj, "calibration_volume_size", rng.randrange(3), _fin(rng))
        return "calibration volume poked"
    if kind == "data2d":
        arr = obj.data
        if arr is None or arr.size == 0:
            return None
        new = np.array(arr, copy=True)
        i, j = rng.randrange(new.shape[0]), rng.randrange(new.shape[1])
        k = rng.choice([1, 2, 3])
        pts = (np.array([[_fin(rng), _fin(rng)] for _ in range(k)], dtype="<f4") if FAR[0]        # (far beyond any tolerance from what was there)
               else A.f32([A.gen_f32(rng) for _ in range(2 * k)]).reshape(-1, 2))
        new[i, j] = None if (new[i, j] is not None and r < 0.4) else pts
        obj.data = new
        return f"cell ({i},{j}) replaced"
    return None


def provoke(rng, kinds=None):
    """things that go WRONG in a process, all caught by the caller, none of which may leave anything behind in the library
    (module-level buffers, counters, registries, class-level caches): an encode refused because of a label that cannot be
    written, a decode of truncated bytes, a decode with a format code the reader does not implement, a constructor call with a
    wrong argument. Returns what was provoked (for the evidence)."""
    kind = rng.choice(kinds or A.KINDS)
    what = rng.choice(["encode-bad-label", "encode-bad-label", "encode-into-failing-sink", "decode-truncated", "decode-bad-format", "constructor-bad-argument"])
    try:
        v = A.GEN[kind](rng)
        obj = A.build(kind, v)
        if what == "encode-bad-label":
            its = [it for it, _ in items_of(kind, obj) if hasattr(it, "label")]
            if not its:
                return provoke(rng, kinds=[k for k in (kinds or A.KINDS) if k in ("data3d", "emg", "force3d", "events", "platcalib")] or None) if kinds != [kind] else f"{what}:{kind}:no-items"
            its[-1].label = rng.choice(["\u529b", "L" * 300])
            A.encode(obj)
        elif what == "encode-into-failing-sink":
            class Sink(io.BytesIO):
                def write(self, b):
                    raise OSError("disk full")
            obj._write(Sink())
        elif what == "decode-truncated":
            enc = A.encode(obj)
            A.klass(kind)._build(io.BytesIO(enc[:rng.randrange(0, max(1, len(enc) - 1))]), obj.format.value)
        elif what == "decode-bad-format":
            A.klass(kind)._build(io.BytesIO(A.encode(obj)), rng.choice([0, 3, 4, 7, 99]))
        else:
            A.klass(kind)(*([None] * rng.randrange(0, 4)))
    except BaseException:
        pass
    return f"{what}:{kind}"


def lifecycle(kind, v, rng, n_edits=2, wide=False, vpstyle=0):
    """build once, use (print / size / encode / decode), then edit IN PLACE and use again, n_edits times.
    returns [(abstract value of the object at that moment, description, observation)]; the first element is the fresh object"""
    try:
        obj = A.build(kind, v, wide=wide, vpstyle=vpstyle)
    except Exception as e:
        return [(v, "fresh", dict(stage="build", exc=f"{type(e).__name__}: {e}"))]
    out = [(v, "fresh", observe_obj(kind, obj, touch=True))]
    for _ in range(n_edits):
        if rng.random() < 0.3:
            provoke(rng)          # something fails elsewhere in the process in between
        try:
            what = apply_edit(kind, obj, rng)
        except Exception as e:
            out.append((None, "edit raised", dict(stage="edit", exc=f"{type(e).__name__}: {e}")))
            break
        if what is None:
            break
        r = observe_obj(kind, obj, touch=True)
        out.append((r.get("abs0"), what, r))
    return out


def model_side(cases, tail=SENTINEL):
    """cases: list of (kind, v). returns list of dict(enc,size,valid,fmt,dec_abs,consumed,mask)"""
    encs = common.drv_batch([[Sym("blk.enc"), Sym(k), v] for k, v in cases])
    out = []
    dec_cmds = []
    for (k, v), e in zip(cases, encs):
        out.append(dict(enc=e[1], size=e[2], valid=e[3] == 1, fmt=e[4]))
        dec_cmds.append([Sym("blk.dec"), Sym(k), e[4], e[1] + tail])
    decs = common.drv_batch(dec_cmds)
    for o, d in zip(out, decs):
        if d[0] == "ok":
            o["dec_abs"] = A.norm(d[1])
            o["consumed"] = d[2]
            o["mask"] = d[3]
        else:
            o["dec_abs"] = None
            o["consumed"] = None
            o["mask"] = None
    return out


def model_decode(kind, fmt, data):
    d = common.drv_batch([[Sym("blk.dec"), Sym(kind), fmt, data]])[0]
    if d[0] == "ok":
        return dict(ok=True, abs=A.norm(d[1]), consumed=d[2], mask=d[3])
    return dict(ok=False)


def gen_cases(ctx, n, kinds=A.KINDS, big=False):
    cases = []
    for i in range(n):
        kind = kinds[i % len(kinds)]
        g = A.GEN[kind]
        if ctx.rng.random() < (0.04 if big else 0.02):
            cases.append((kind, A.gen_scaled(ctx.rng, kind)))      # the scale axis: 255 ... 65537 frames, 15 ... 257 items
            continue
        if big and kind in ("data3d", "emg", "force3d", "platdata") and ctx.rng.random() < 0.15:
            v = g(ctx.rng, big=ctx.rng.choice([60, 300]))
        else:
            v = g(ctx.rng)
        cases.append((kind, v))
    cases += [c for c in A.corner_cases(ctx.rng) if c[0] in kinds]
    return cases


def shape_tags(kind, v):
    tags = [kind]
    items = v[-1] if kind != "data2d" else v[6]
    tags.append(f"items={min(len(items), 3)}{'+' if len(items) > 3 else ''}")
    if len(items) >= 15:
        tags.append("scale:items>=15")
    nfr = {"data3d": 1, "emg": 2, "force3d": 2, "platdata": 2}.get(kind)
    if nfr is not None and v[nfr] >= 255:
        tags.append("scale:frames>=255")
    if kind in A.NCOMP:
        fl = [f for t in (v[-1]) for f in (t[1] if kind != "platdata" else t)]
        if any(f is None for f in fl):
            tags.append("has-gap")
    return tags
