#!/venv/bin/python
"""usage: check.py <property id> [--tier quick|thorough] [--seed N] [--replay file]"""
import argparse
import importlib
import os
import sys
import traceback

sys.path.insert(0, os.path.dirname(os.path.abspath(__file__)))
import common  # noqa: E402
import warnings
warnings.filterwarnings("ignore")


def main():
    ap = argparse.ArgumentParser()
    ap.add_argument("pid")
    ap.add_argument("--tier", default=os.environ.get("VERIF_TIER", "quick"))
    ap.add_argument("--seed", type=int, default=int(os.environ.get("VERIF_SEED", "1")))
    ap.add_argument("--replay")
    ap.add_argument("--child-out")
    a = ap.parse_args()
    try:
        session = importlib.import_module(f"sessions.{a.pid.lower()}")
        if a.replay:
            sys.exit(session.replay(a.replay))
        if a.child_out:
            sys.exit(common.session_only(a.pid, session, a.tier, a.seed, a.child_out))
        sys.exit(common.run_check(a.pid, session, a.tier, a.seed))
    except common.Infra as e:
        print(f"[{a.pid}] infrastructure error: {e}", file=sys.stderr)
        sys.exit(2)
    except Exception:
        traceback.print_exc()
        sys.exit(2)


if __name__ == "__main__":
    main()
