"""Shared machinery of every check: Lean build + audit, model driver, verdict logic, evidence."""
import fcntl
import hashlib
import json
import os
import random
import re
import subprocess
import sys
import time
from collections import Counter
from pathlib import Path
import pathlib

VERIF = Path(__file__).resolve().parent.parent
LEAN = VERIF / "lean"
DRV = LEAN / ".lake" / "build" / "bin" / "tdfdrv"
REPO = Path(os.environ.get("BASICTDF_REPO", "/repo"))
# evaluation runs against another tree (BASICTDF_REPO=<worktree>) write their evidence/replays elsewhere (VERIF_OUT=<dir>);
# the registered commands set neither: they judge /repo and write /verif/evidence
OUT = Path(os.environ.get("VERIF_OUT", str(VERIF)))
EVID = OUT / "evidence"
REPLAYS = OUT / "replays"
KNOWN = VERIF / "KNOWN_FINDINGS.json"
ALLOWED_AXIOMS = {"propext", "Classical.choice", "Quot.sound"}
FORBIDDEN = re.compile(r"\b(sorry|admit|native_decide|bv_decide|implemented_by|unsafe)\b|^\s*axiom\s|maxHeartbeats\s+0")

sys.path.insert(0, str(REPO / "src"))
sys.path.insert(0, str(VERIF / "harness"))

import sx  # noqa: E402


class Infra(Exception):
    """harness / tooling failure: exit 2, never a VIOLATION"""


# ------------------------------------------------------------------ Lean side

def _lean_sources():
    files = sorted(p for p in LEAN.rglob("*.lean") if ".lake" not in p.parts)
    return files


def _sources_hash():
    h = hashlib.sha256()
    for p in _lean_sources():
        h.update(str(p.relative_to(LEAN)).encode())
        h.update(p.read_bytes())
    return h.hexdigest()


def strip_comments(text: str) -> str:
    # remove /- … -/ (nested not needed here) and -- … comments
    text = re.sub(r"/-.*?-/", "", text, flags=re.S)
    text = re.sub(r"--.*", "", text)
    return text


def property_theorems(pid: str):
    """names of the theorems stated in TdfProofs/Properties/<pid>.lean (the obligations)"""
    f = LEAN / "TdfProofs" / "Properties" / f"{pid}.lean"
    if not f.exists():
        return []
    text = strip_comments(f.read_text())
    ns = re.search(r"^namespace\s+(\S+)", text, flags=re.M)
    prefix = (ns.group(1) + ".") if ns else ""
    return [prefix + m for m in re.findall(r"^theorem\s+(\S+)", text, flags=re.M)]


def lean_stage(pid: str, thorough: bool):
    """build the model, the proofs and the driver; audit the proofs of `pid`.
    returns dict(ok, obligations, discharged, problems[list of str], axioms{thm: [..]})"""
    problems = []
    LEAN.mkdir(exist_ok=True)
    lock = open(LEAN / ".build.lock", "w")
    fcntl.flock(lock, fcntl.LOCK_EX)
    try:
        t0 = time.time()
        r = subprocess.run(["lake", "build"], cwd=LEAN, capture_output=True, text=True, timeout=3000)
        build_ok = r.returncode == 0
        if not build_ok:
            errs = [l for l in (r.stdout + r.stderr).splitlines() if "error" in l][:10]
            problems.append("lake build failed: " + " | ".join(errs))
        # textual audit
        for p in _lean_sources():
            for i, line in enumerate(strip_comments(p.read_text()).splitlines()):
                if FORBIDDEN.search(line):
                    problems.append(f"forbidden construct in {p.relative_to(LEAN)}: {line.strip()[:80]}")
        # axiom audit (cached per source hash)
        thms = property_theorems(pid)
        axioms = {}
        if build_ok:
            cache_f = LEAN / ".lake" / "axiom_audit.json"
            key = _sources_hash()
            cache = {}
            if cache_f.exists():
                try:
                    cache = json.loads(cache_f.read_text())
                except Exception:
                    cache = {}
            if cache.get("key") != key:
                cache = {"key": key, "ax": {}}
            missing = [t for t in thms if t not in cache["ax"]]
            if missing:
                src = "import TdfProofs\n" + "".join(f"#print axioms {t}\n" for t in missing)
                af = LEAN / ".lake" / f"audit_{pid}.lean"
                af.write_text(src)
                r2 = subprocess.run(["lake", "env", "lean", str(af)], cwd=LEAN, capture_output=True, text=True, timeout=1200)
                out = r2.stdout + r2.stderr
                # "'X' depends on axioms: [a, b]" or "'X' does not depend on any axioms"
                for m in re.finditer(r"'([^']+)' depends on axioms: \[([^\]]*)\]", out, flags=re.S):
                    cache["ax"][m.group(1)] = [a.strip() for a in m.group(2).replace("\n", " ").split(",") if a.strip()]
                for m in re.finditer(r"'([^']+)' does not depend on any axioms", out):
                    cache["ax"][m.group(1)] = []
                for t in missing:
                    if t not in cache["ax"]:
                        problems.append(f"theorem {t} missing from the compiled library ({out.strip()[:200]})")
                cache_f.write_text(json.dumps(cache))
            for t in thms:
                if t in cache["ax"]:
                    axioms[t] = cache["ax"][t]
                    bad = set(cache["ax"][t]) - ALLOWED_AXIOMS
                    if bad:
                        problems.append(f"theorem {t} depends on non-standard axioms {sorted(bad)}")
        if thorough and build_ok:
            mods = [f"TdfProofs.Properties.{pid}"]
            r3 = subprocess.run(["lake", "env", "leanchecker"] + mods, cwd=LEAN, capture_output=True, text=True, timeout=3000)
            if r3.returncode != 0:
                problems.append("leanchecker rejected " + " ".join(mods) + ": " + (r3.stdout + r3.stderr)[-300:])
        discharged = sum(1 for t in thms if t in axioms and not (set(axioms[t]) - ALLOWED_AXIOMS)) if build_ok else 0
        if not thms:
            problems.append(f"no property theorems found for {pid}")
        return dict(ok=not problems, obligations=len(thms), discharged=discharged, problems=problems,
                    axioms=axioms, theorems=thms, wall_s=round(time.time() - t0, 2), leanchecker=bool(thorough and build_ok))
    finally:
        fcntl.flock(lock, fcntl.LOCK_UN)
        lock.close()


# ------------------------------------------------------------------ model driver

def drv_batch(lines, timeout=1800):
    """run the model on a list of command s-expressions (python objects or strings); list of parsed replies"""
    if not DRV.exists():
        raise Infra(f"model driver missing: {DRV}")
    lines = list(lines)
    if not lines:
        return []
    text = "\n".join(l if isinstance(l, str) else sx.dumps(l) for l in lines) + "\n"
    try:
        r = subprocess.run([str(DRV)], input=text.encode(), capture_output=True, timeout=timeout)
    except subprocess.TimeoutExpired:
        raise Infra(f"model driver did not answer {len(lines)} commands within {timeout} s")
    if r.returncode != 0:
        raise Infra(f"model driver crashed: rc={r.returncode} {r.stderr[-300:]!r}")
    out = r.stdout.decode().splitlines()
    if len(out) != len(lines):
        raise Infra(f"model driver answered {len(out)} lines for {len(lines)} commands")
    res = []
    for l, o in zip(lines, out):
        if o in ("(bad-op)", "(bad-parse)"):
            raise Infra(f"model driver rejected command {(l if isinstance(l, str) else sx.dumps(l))[:200]}: {o}")
        res.append(sx.loads(o))
    return res


# ------------------------------------------------------------------ run context

ENV_SCALE = float(os.environ.get("VERIF_SCALE", "1"))      # < 1 in the second pass under `python -O`


class Ctx:
    def __init__(self, pid, tier, seed, scale=1):
        self.pid, self.tier, self.seed, self.scale = pid, tier, seed, scale
        self.rng = random.Random(seed)
        self.evaluations = 0
        self.nontrivial = set()
        self.samples = []
        self.dist = Counter()
        self.diffs = []     # correspondence disagreements (model vs real)
        self.fails = []     # the property's own predicate is false on what the real code did
        self.notes = []
        self.exhaustive = None
        self.traces = 0

    @property
    def thorough(self):
        return self.tier == "thorough"

    def n(self, quick, thorough):
        return max(1, int((thorough if self.thorough else quick) * self.scale * ENV_SCALE))

    def case(self, key=None, nontrivial=False, sample=None, tags=()):
        self.evaluations += 1
        if nontrivial and key is not None:
            self.nontrivial.add(hashlib.sha1(repr(key).encode()).hexdigest()[:16])
        if sample is not None and len(self.samples) < 6:
            self.samples.append(sample)
        for t in tags:
            self.dist[t] += 1

    def diff(self, session, detail, replay):
        if len(self.diffs) < 50:
            self.diffs.append(dict(session=session, detail=detail, replay=replay))

    def fail(self, what, replay, ident=None):
        if len(self.fails) < 50:
            self.fails.append(dict(what=what, replay=replay, ident=ident or what))


def load_known():
    if not KNOWN.exists():
        return []
    return json.loads(KNOWN.read_text()).get("findings", [])


def jsonable(o):
    if isinstance(o, (bytes, bytearray)):
        return "#" + bytes(o).hex()
    if isinstance(o, (list, tuple)):
        return [jsonable(x) for x in o]
    if isinstance(o, dict):
        return {str(k): jsonable(v) for k, v in o.items()}
    if isinstance(o, (int, float, str, bool)) or o is None:
        return o
    return repr(o)


TRUSTED_BASE = [
    "Lean 4.33.0 kernel (thorough tier: leanchecker re-check of the property module)",
    "axioms allowed: propext, Classical.choice, Quot.sound (audited with #print axioms on every property theorem); no sorry/admit/native_decide/bv_decide/extra axioms (grep audit)",
    "hand-written model /verif/lean/TdfModel/* tied to /repo by the behavioural correspondence of this run (differential testing, not proof)",
    "modelled, not verified: numpy dtype<->bytes, masked_invalid/clump_unmasked, slice assignment, Python cp1252 codec, CPython file seek/write/truncate/flush, datetime<->int seconds, object identity",
    "harness glue: generators, build/abs conversions, canonicalisation, s-expression driver /verif/lean/Driver.lean",
]


class TieCoverage:
    """which lines of the implementation the correspondence run of this check actually executed (thorough tier, or VERIF_COV=1):
    a line never executed is tied to the model by nothing. Reported per file and per source range the property is anchored in."""

    def __init__(self, pid):
        self.pid, self.cov, self.summary = pid, None, None

    def start(self):
        try:
            import coverage
            self.cov = coverage.Coverage(source=[str(REPO / "src" / "basictdf")], data_file=None)
            self.cov.start()
        except Exception:
            self.cov = None

    @staticmethod
    def _ranges(lines):
        out, lines = [], sorted(lines)
        for l in lines:
            if out and l == out[-1][1] + 1:
                out[-1][1] = l
            else:
                out.append([l, l])
        return ",".join(str(a) if a == b else f"{a}-{b}" for a, b in out)

    def stop(self):
        if self.cov is None:
            return
        try:
            self.cov.stop()
            files = {}
            for f in sorted(self.cov.get_data().measured_files()):
                _, stmts, _, missing, _ = self.cov.analysis2(f)
                files[os.path.basename(f)] = (set(stmts), set(missing))
            per_file = {n: dict(statements=len(st), executed=len(st) - len(mi), never_executed=self._ranges(mi)) for n, (st, mi) in files.items()}
            anchored = []
            try:
                prop = next(json.loads(l) for l in (VERIF / "properties.jsonl").read_text().splitlines() if json.loads(l)["id"] == self.pid)
                for mech in prop["anchors"].get("mechanism", []):
                    for m in re.finditer(r"(\w+\.py):([\d,\-]+)", mech.get("where", "")):
                        name, spec = m.group(1), m.group(2)
                        if name not in files:
                            continue
                        want = set()
                        for part in spec.split(","):
                            if part:
                                a, _, b = part.partition("-")
                                want |= set(range(int(a), int(b or a) + 1))
                        st, mi = files[name]
                        w = want & st
                        if w:
                            anchored.append(dict(anchor=f"{name}:{spec}", mechanism=mech.get("name", "")[:80], statements=len(w), executed=len(w - mi), never_executed=self._ranges(w & mi)))
            except Exception:
                pass
            self.summary = dict(note="line numbers of the anchors are those of the pinned commit; the tree has drifted by the fix commits, so anchored ranges are approximate",
                                per_file=per_file, anchored_ranges=anchored)
        except Exception as e:
            self.summary = dict(error=f"{type(e).__name__}: {e}")


def guarded_run(session, ctx):
    """a session that cannot interpret what the implementation produced (an unexpected exception while building,
    observing or judging real objects) has lost its correspondence: recorded as a diff, not as an infrastructure error.
    Infra (driver missing/crashed, tool failure) still propagates and ends in exit 2."""
    import traceback
    try:
        session.run(ctx)
    except Infra:
        raise
    except Exception as e:
        tb = traceback.format_exc()
        ctx.diff("harness-cannot-interpret-implementation", f"{type(e).__name__}: {e}", dict(traceback=tb[-1500:]))


def session_only(pid, session, tier, seed, out):
    """child mode (the pass under `python -O`): run the session, write what it found as JSON, no verdict, no evidence"""
    try:
        import resource
        lim = int(os.environ.get("VERIF_AS_LIMIT_GB", "6")) << 30
        resource.setrlimit(resource.RLIMIT_AS, (lim, lim))
    except Exception:
        pass
    try:
        # ... and with numpy printing arrays in a way of the user's choosing: how an array PRINTS must not matter to what is written
        import numpy as np
        np.set_printoptions(precision=1, threshold=3, edgeitems=1, suppress=True, linewidth=40)
    except Exception:
        pass
    ctx = Ctx(pid, tier, seed)
    guarded_run(session, ctx)
    pathlib.Path(out).write_text(json.dumps(jsonable(dict(fails=ctx.fails[:10], diffs=ctx.diffs[:10], evaluations=ctx.evaluations,
                                                          nontrivial=sorted(ctx.nontrivial), dist=dict(ctx.dist), debug=__debug__))))
    return 0


def optimised_pass(pid, tier, seed, ctx):
    """the same session once more, smaller, in an interpreter started with -O (asserts stripped, __debug__ False): a refusal,
    a size or a write that lives in an `assert` or behind `if __debug__` exists in one kind of interpreter only, and nothing
    a property promises may depend on how the interpreter was started"""
    if os.environ.get("VERIF_NO_OPT_PASS") or not sys.flags.optimize == 0:
        return
    import subprocess
    import tempfile
    fd, out = tempfile.mkstemp(prefix="vopt", suffix=".json")
    os.close(fd)
    env = dict(os.environ, VERIF_SCALE=os.environ.get("VERIF_OPT_SCALE", "0.3"), PYTHONDONTWRITEBYTECODE="1", VERIF_NO_OPT_PASS="1")
    try:
        p = subprocess.run([sys.executable, "-O", str(VERIF / "harness" / "check.py"), pid, "--tier", tier, "--seed", str(seed + 104729), "--child-out", out],
                           env=env, capture_output=True, text=True, timeout=3 * 3600)
        try:
            got = json.loads(pathlib.Path(out).read_text())
        except Exception:
            ctx.diff("optimised-interpreter", f"the session could not be run under python -O (exit {p.returncode}): {(p.stderr or '')[-400:]}", dict(interpreter="python -O"))
            return
    except subprocess.TimeoutExpired:
        raise Infra("the pass under python -O timed out")
    finally:
        try:
            os.unlink(out)
        except OSError:
            pass
    ctx.evaluations += got["evaluations"]
    ctx.nontrivial |= set(got["nontrivial"])
    ctx.dist["interpreter:python -O"] += got["evaluations"]
    for f in got["fails"]:
        ctx.fail("[under python -O] " + str(f["what"]), dict(interpreter="python -O", replay=f.get("replay")), ident=f.get("ident"))
    for d in got["diffs"]:
        ctx.diff(d["session"], "[under python -O] " + str(d["detail"]), dict(interpreter="python -O", replay=d.get("replay")))
    ctx.notes.append(f"second pass in an interpreter started with -O (asserts stripped): {got['evaluations']} cases")


def run_check(pid, session, tier, seed, replay_path=None):
    """the verdict logic of DESIGN §2.3; returns the process exit code"""
    t0 = time.time()
    REPLAYS.mkdir(parents=True, exist_ok=True)
    EVID.mkdir(parents=True, exist_ok=True)
    lean = lean_stage(pid, tier == "thorough")
    # a (changed) implementation reading garbage may ask numpy for tens of gigabytes: make that a MemoryError in the
    # call (which the sessions record as "raised") instead of letting the whole check be killed by the OOM killer
    try:
        import resource
        lim = int(os.environ.get("VERIF_AS_LIMIT_GB", "6")) << 30
        resource.setrlimit(resource.RLIMIT_AS, (lim, lim))
    except Exception:
        pass
    ctx = Ctx(pid, tier, seed)
    tie = TieCoverage(pid) if (tier == "thorough" or os.environ.get("VERIF_COV")) else None
    if DRV.exists():
        if tie:
            tie.start()
        guarded_run(session, ctx)
        if tie:
            tie.stop()
        if not ctx.fails:
            optimised_pass(pid, tier, seed, ctx)
    else:
        lean["problems"].append("model driver not built")
        lean["ok"] = False
    widened = False
    if (ctx.diffs or not lean["ok"]) and not ctx.fails and DRV.exists():
        # proof or correspondence broken: search harder for a concrete failing input on the real code
        widened = True
        budget = float(os.environ.get("VERIF_WIDEN_S", "240" if tier == "thorough" else "60"))
        t_w = time.time()
        for k in range(1, 7):
            if time.time() - t_w > budget:
                break
            c2 = Ctx(pid, tier, seed + 7919 * k, scale=2 if k > 1 else 1)
            try:
                guarded_run(session, c2)
            except Infra:
                break
            ctx.evaluations += c2.evaluations
            ctx.nontrivial |= c2.nontrivial
            if c2.fails:
                ctx.fails = c2.fails
                break
    known = [k for k in load_known() if k.get("property") == pid and k.get("status") == "known"]
    known_hits, new_fails = [], []
    for f in ctx.fails:
        hit = next((k for k in known if k.get("ident") == f["ident"]), None)
        (known_hits if hit else new_fails).append(f)
    lines = []
    for ident in sorted({f["ident"] for f in known_hits}):
        lines.append(f"KNOWN-FINDING: property={pid} {ident}")
    violation = None
    if new_fails:
        rp = REPLAYS / f"{pid}-{tier}-{seed}.json"
        rp.write_text(json.dumps(jsonable(dict(property=pid, kind="failing-input", failures=new_fails[:10],
                                               correspondence_diffs=ctx.diffs[:10], lean_problems=lean["problems"])), indent=1))
        violation = f"VIOLATION property={pid} replay={rp}"
    elif ctx.diffs or not lean["ok"]:
        rp = REPLAYS / f"{pid}-{tier}-{seed}.json"
        rp.write_text(json.dumps(jsonable(dict(property=pid, kind="no-failing-input-found",
                                               broken_theorems_or_build=lean["problems"],
                                               broken_correspondence=ctx.diffs[:20],
                                               searched=dict(widened=widened, evaluations=ctx.evaluations))), indent=1))
        violation = f"VIOLATION property={pid} replay={rp} no-failing-input-found"
    wall = round(time.time() - t0, 2)
    cov = dict(
        obligations=lean["obligations"], discharged=lean["discharged"],
        checker_cmd=f"cd /verif/lean && lake build && lake env lean <#print axioms of {len(lean['theorems'])} theorems of TdfProofs/Properties/{pid}.lean>" + (" && lake env leanchecker TdfProofs.Properties." + pid if lean["leanchecker"] else ""),
        trusted_base=TRUSTED_BASE,
        theorems=lean["theorems"], axioms=lean["axioms"], lean_problems=lean["problems"], lean_wall_s=lean["wall_s"],
        evaluations=ctx.evaluations, distinct_nontrivial=len(ctx.nontrivial),
        rule=getattr(session, "RULE", ""), samples=jsonable(ctx.samples) or ["(no correspondence case ran)"],
        traces_validated_against_impl=ctx.evaluations, distribution=dict(ctx.dist),
        correspondence_diffs=len(ctx.diffs), oracle_failures=len(ctx.fails),
        known_findings_printed=lines, notes=ctx.notes,
    )
    if ctx.exhaustive is not None:
        cov["exhaustive"] = ctx.exhaustive
    if tie and tie.summary:
        cov["implementation_lines_exercised"] = tie.summary
    ev = dict(property_id=pid, tier=tier, seed=seed, level="proof", coverage=cov,
              assumptions=getattr(session, "ASSUMPTIONS", []), wall_s=wall, violations=1 if violation else 0)
    (EVID / f"{pid}.json").write_text(json.dumps(ev, indent=1))
    for l in lines:
        print(l)
    print(f"[{pid}] tier={tier} seed={seed} theorems={lean['discharged']}/{lean['obligations']} cases={ctx.evaluations} "
          f"nontrivial={len(ctx.nontrivial)} diffs={len(ctx.diffs)} fails={len(ctx.fails)} wall={wall}s")
    for p in lean["problems"][:5]:
        print(f"[{pid}] lean: {p}")
    for d in ctx.diffs[:5]:
        print(f"[{pid}] correspondence diff: {d['session']}: {str(d['detail'])[:300]}")
    for f in new_fails[:5]:
        print(f"[{pid}] property fails on the implementation: {str(f['what'])[:300]}")
    if violation:
        print(violation)
        return 1
    return 0
